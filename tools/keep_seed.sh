#!/bin/bash
# keep a confirmed seeded change: keep_seed.sh <src dir (patch.diff demo.rs notes.md confirm.txt)> <seed id> <property> "<needs>" "<caught by ...>"
set -e
src="$1"; id="$2"; prop="$3"; needs="$4"; caught="$5"
dst="/verif/seeded/$id"; mkdir -p "$dst"
cp "$src/patch.diff" "$src/demo.rs" "$dst/"; cp "$src/notes.md" "$dst/notes.md" 2>/dev/null || true; cp "$src/confirm.txt" "$dst/confirm.txt"
python3 - "$dst" "$id" "$prop" "$needs" "$caught" <<'PY'
import json,sys
dst,id,prop,needs,caught=sys.argv[1:6]
conf=open(dst+'/confirm.txt').read()
json.dump({"id":id,"property":prop,"needs_to_manifest":needs,
 "confirmed":{"how":"tools/confirm_seed.sh: scratch worktree of /repo HEAD; git apply; cargo nextest run --workspace (whole suite); demo as tests/seed_demo.rs with and without the change","result":conf},
 "checks_run":caught}, open(dst+'/meta.json','w'), indent=2)
PY
echo kept $id
