#!/bin/bash
# Run checks against a seeded change WITHOUT touching /repo: scratch worktree + scratch copy of the harness.
# usage: mutant_run.sh <patch.diff> <tier> <Cxx> [Cxx …]
# Prints one line per check:  MUTANT <patch> <Cxx> exit=<code> violations=<n>   (exit 1 = caught)
set -u
patch="$(readlink -f "$1")"; tier="$2"; shift 2
tag="mt$$"
root="/tmp/mt/$tag"
mkdir -p "$root/verif"
git -C /repo worktree add --detach "$root/repo" HEAD -q || exit 2
if ! git -C "$root/repo" apply "$patch"; then echo "MUTANT $patch apply-failed"; git -C /repo worktree remove --force "$root/repo"; rm -rf "$root"; exit 2; fi
rsync -a --exclude '/harness/target*' /verif/harness "$root/verif/"
cp /verif/known_findings.json "$root/verif/" 2>/dev/null
sed -i "s#path = \"/repo\"#path = \"$root/repo\"#" "$root/verif/harness/Cargo.toml"
grep -rl 'path = "/repo"' "$root/verif/harness/checks" 2>/dev/null | xargs -r sed -i "s#path = \"/repo\"#path = \"$root/repo\"#"
export VERIF_DIR="$root/verif" CARGO_NET_OFFLINE=true CARGO_TARGET_DIR="${MUTANT_TARGET:-/tmp/mt/target}"
cd "$root/verif/harness"
for id in "$@"; do
  crate="$(echo "$id" | tr 'A-Z' 'a-z')"
  if ! cargo build --release -p "$crate" >"$root/build.log" 2>&1; then echo "MUTANT $patch $id build-failed"; tail -20 "$root/build.log"; continue; fi
  out="$("$CARGO_TARGET_DIR/release/$crate" "$tier" 2>&1)"; code=$?
  nv=$(echo "$out" | grep -c '^VIOLATION')
  echo "MUTANT $(basename "$(dirname "$patch")")/$(basename "$patch") $id exit=$code violations=$nv"
  echo "$out" | grep -E 'signature:|detail:' | head -${MUTANT_SHOW:-6}
done
cd /
git -C /repo worktree remove --force "$root/repo"
rm -rf "$root"
