#!/usr/bin/env python3
"""Regenerate DESIGN.md section 10 (findings) from known_findings.json."""
import json,re
k=json.load(open('/verif/known_findings.json'))['findings']
rows=[]
for i,f in enumerate(k,1):
    text=f['text']
    text=re.sub(r'^fixed: property=\S+ \S+ ','',text)
    disp = f"repaired: `/repo` commit `{f.get('commit','')}` (`fix:`); the unedited suite passes" if f['status']=='fixed' else "**open known finding** (recorded, not repaired — see below); reported as KNOWN-FINDING, any other violation of the property still fails the check"
    esc = lambda t: t.replace('|', '&#124;').replace('\n', ' ')
    rows.append("| %d | %s | %s <br>*witness:* %s <br>*signature:* `%s` | %s |" % (i, f['property'], esc(text), esc(f.get('witness','')), f['signature'], disp))
sec = """## 10. Findings of the built checks (genuine defects: repaired or recorded)

Every entry was first reported by a check on the then-current tree, reproduced with the plain
public API (the witness), and then either repaired by one minimal unguarded `fix:` commit in `/repo`
(the unedited suite, with and without `--all-features`, passes after each) or recorded as an open
finding. The same list, machine-readable, is `/verif/known_findings.json`; `fixed` entries suppress
nothing (the check reports the violation again if it returns), `open` entries are matched by exact
signature.

| # | prop | finding | disposition |
|---|---|---|---|
""" + "\n".join(rows) + """

Open findings and why they are not repaired here:

* **C01 dev-profile stack exhaustion.** An unoptimised build needs 7-19 KiB of stack per nesting level
  (capture_node / deserialize_any / visitor frames), so an 8 MiB stack overflows at 425-700 block levels
  while `max_depth` is 2000; release builds handle 2000 and reject 2001. A repair means an iterative
  capture path or a much lower default `max_depth` — not a minimal patch.
* **C14 anchored block-scalar strings, C20 `LitStr("")` / `LitStr("\\n")`.** Small repairs exist (emit the
  pending anchor before the block-scalar header; emit `""` for an empty literal), but existing tests
  (`test_block_str::verdanta_case_fold`, `litstr_empty_string`, `litstr_only_newline`) pin the defective
  output byte for byte, and the suite must pass unedited.
* **C16 character offset after a non-ASCII directive line.** The character counter is advanced by
  byte counts inside `saphyr-parser` (`scan_directive_name` / directive parameters). serde-saphyr
  only forwards the mark; recomputing character offsets from byte offsets would cost O(n) per
  location. Line, column and byte offset are right.

"""
d=open('/verif/DESIGN.md').read()
a=d.index("## 10. Findings of the built checks")
b=d.index("## 11. Seeded changes")
open('/verif/DESIGN.md','w').write(d[:a]+sec+"\n"+d[b:])
print(len(rows),"rows")
