#!/usr/bin/env python3
"""Generate /verif/MANIFEST.json from the table below (single source of truth).
A property is claimed only when READY[id] is True; otherwise it is listed under not_applicable
with the reason given."""
import json, subprocess

READY = {
    "C01": True, "C02": True, "C03": True, "C04": True, "C05": True, "C06": True, "C07": True,
    "C08": True, "C09": True, "C10": True, "C11": True, "C12": True, "C13": True, "C14": True,
    "C15": True, "C16": True, "C17": True, "C18": True, "C19": True, "C20": True,
}
NOT_READY_REASON = "check under construction in this session (claimed once its monitor is silent on the unchanged tree)"

# id -> (category, technique, level text, level note)
CHECKS = {
 "C01": ("exploration",
   "runtime monitoring: catch_unwind + child-process rlimit probes (8 MiB stack, CPU-time bound) + error-rendering totality; sanitizers (ASan, Miri) in the thorough tier",
   "Process-level totality oracle over every entry point x option vector x target family: exhaustive for all token strings over a 28-token indicator alphabet (len <= 3 on the full grid of 12 entry points x 7 option vectors x 11 targets; the next length through hash-chosen combinations of 47 targets and bit-encoded option vectors; thorough one token longer), all strings over a 22-token robotics expression alphabet, structure-aware variants of the repository's own test documents (truncate/delete at every byte, delete/duplicate/swap every line), mutated corpus incl. invalid UTF-8, pathological deep/wide inputs at the budget limits probed in child processes with an 8 MiB stack in release and dev profile (minimal stack per shape x target bisected and recorded); every returned error is rendered 11 ways incl. the miette adapter under three handlers; validating entry points included. 'Terminates' is restated as a CPU-time bound. Held on the executions listed, nothing more.",
   "Termination is a bounded-progress restatement; sanitizers cover dependency unsafe code reached by the workload only (the crate forbids unsafe)."),
 "C02": ("exploration",
   "runtime monitoring: metamorphic differential oracle (aliased vs alias-free expanded document) + hook-trace observation of replay",
   "Every generated document with anchors/aliases is compared, for a family of target types and the str + reader entry points, with its alias-free expansion; exhaustive for all small trees (<=5 nodes, <=2 anchors, <=2 aliases, block and flow, merge-key variants; thorough adds every placement of 3 anchors / 3 aliases on <=4-node trees and all 6-node trees over a reduced leaf alphabet), seeded random trees (<=40 nodes, tags, <=6 anchors) beyond; unresolvable aliases must fail, including aliases to a name that only an EARLIER document of a multi-document stream defines (batch and iterator entry points).",
   "Trusted: the raw saphyr-parser event stream as the meaning of a document (name-based expansion of the generator tree is cross-checked against the id-based expansion of the parser's tree; disagreement = inconclusive). Budget/alias limits off."),
 "C03": ("exploration",
   "runtime monitoring: metamorphic oracle (merge document vs reference-merged explicit document) under all three duplicate-key policies",
   "Generated mappings with merge keys are compared with the fully written-out mapping computed by an independent reference rule on the raw parser tree, into ordered (delivery order visible), overwriting-map and struct targets, under all three policies; must-fail merge values and quoted/tagged '<<' keys included; exhaustive over merge-entry sequences (<= 3 merge entries over a 29-shape alphabet, 4 in thorough), typed positions of derived structs/enums, merge chains to depth 3/4, value shapes carried by merged entries, scalar key spellings, under four option vectors + random.",
   "Trusted: raw parser tree; reference merge rule implements the property text."),
 "C04": ("exploration",
   "runtime monitoring: differential oracle against generator-side de-duplicated documents + located-error check against raw parser marks",
   "Mappings with repeated scalar/sequence/mapping/aliased keys and large or structured values after the repeat are checked per policy: Error -> DuplicateMappingKey at the second occurrence's position, FirstWins -> document with later entries deleted, LastWins -> every entry delivered in order; no-repeat mappings identical under all policies; ignoring targets (IgnoredAny, undeclared fields) must still see repeats; repeated keys of kinds scalar/sequence/mapping/null/empty/{null: x} in every position of patterns of length 2-3(4), later occurrences spelled in place or as aliases, seven typed positions, four option vectors; exhaustive small shapes + random.",
   "Trusted: raw parser marks for positions; unique tokens in later siblings make cursor shifts visible."),
 "C05": ("exploration",
   "runtime monitoring: reference interpreter over the raw parser event tree vs the real deserializer driven by a run-time DeserializeSeed (dynamic schema)",
   "(type description, document) pairs from a schema grammar and a near-miss-biased document generator; the library result must equal the reference interpretation (values position by position, MustErr classes must fail); leaves are taken from the library on the isolated scalar so only position faithfulness is judged; all three enum notations (and their agreement: '!V P' vs '{V: P}'), block and flow; exhaustive: every type of the small grammar <= 4 nodes and of the full shape grammar <= 3 (4 thorough) nodes x every matching document x every single near-miss edit, every placement of an alias and every merge-key form on <= 3-node types, duplicate fields under all three policies, four option vectors (incl. no_schema + strict_booleans); 11 real derived types incl. Rc/Arc/Spanned/anchor wrappers/flatten.",
   "The dynamic SchemaSeed stands for derive(Deserialize) output; a handful of real derived types are exercised too. Classes the docs do not pin down are counted as unspecified."),
 "C06": ("exploration",
   "runtime monitoring: independent reference models (big-integer reader, grammar recognisers, RFC 4648 decoder) over an exhaustive finite product",
   "Token corpus (every integer-width boundary +-1 in every radix, separators at every digit position, signs, bool/null/float/char forms, every string of length <= 6 (7 thorough) over a numeric alphabet, extreme floats incl. exact halfway points checked by big-integer rounding, every Unicode scalar value as a character) x styles x tags x 23 targets x 16 option combinations x arrival routes (direct, alias, merged value, map key) compared with independent reference functions: accepted values must be the mathematically exact natural value and fit the width; documented grammar must be accepted; tokens without a natural reading rejected; base64 exhaustive over short strings.",
   "Over-acceptance outside the documented grammar that still returns the natural value is counted as unspecified, not alarmed."),
 "C07": ("exploration",
   "runtime monitoring: independent event counter over raw parser events + threshold probing (limit = usage / usage-1) + hook-trace agreement guard",
   "For generated documents and streams the usage report must equal an independent fold over the raw parser events plus reference expansion; each limit set to measured usage must accept and to usage-1 must fail with the matching breach; per-document independence for the streaming iterator under permutations (all streams of <= 2/3 documents over a 27-document pool incl. failing ones, then random); nothing beyond a limit may have been handed on when it is exceeded (hook monitor); exhaustive trees <= 5 (6) nodes with <= 2 anchors/aliases and merges, plus every sequence-only tree of 2-6 (7) nodes with <= 3 anchors and 1-3 aliases (nested/open/redefined anchors) through str, reader and from_multiple; check_yaml_budget agrees on alias-free inputs. Verdicts only when the model agrees with the hook trace.",
   "Trusted: raw parser events; a model/trace disagreement makes the case inconclusive."),
 "C08": ("exploration",
   "runtime monitoring: visitor-callback counter, counting allocator (peak live bytes), per-step shadow counters on the hook trace, over parameterised attack families",
   "Attack families (fan-out^levels bombs, alias chains, aliases in anchored containers, nested anchors, inner anchors aliased while the outer is open, nested reuse, redefinition, per-document replay reset in streams, wide merges) over a parameter grid (189 / 464 members) under default and tightened limits and with budget None, plus an exhaustive nested family (n <= 6/7 nodes, <= 3 anchors/aliases) probed at measured and measured-1 for every alias limit, and 0.5 M / 3 M streams through the iterator: nodes delivered and events pumped within limits on every run, replay counters within limits at every trace step, acceptance exactly at measured usage, peak heap <= 2 MiB + 256*input + 1024*counted events and a scaling law per family.",
   "Memory bound constants fixed in DESIGN before measuring; large members run in child processes (OOM kill = inconclusive)."),
 "C09": ("exploration",
   "runtime monitoring: differential oracle across entry points under enumerated chunk schedules (all 2^(n-1) partitions for short inputs) + pointer-range borrow check",
   "Same text through from_str / from_slice / closure helpers / from_reader / the read iterator under chunk schedules (1 byte, fixed k, random, adversarial splits, all 2^(n-1) partitions of inputs <= 16 (20) bytes and of all token strings <= 3 (4) tokens), UTF-16 LE/BE inputs cut inside every code unit, documents rejected only at finalisation with budget-report comparison: equal values or same error kind and line/column; BOM variants agree; borrowed-string targets succeed exactly when the scalar is verbatim in the input and are sub-slices of it; readers never lend.",
   "Invalid UTF-8 is unspecified (entry points legitimately differ)."),
 "C10": ("fault_enumeration",
   "runtime monitoring with fault injection: instrumented Read/Write failing at every position k; byte-pull accounting against the cap",
   "Every fault position of every one of 5 000 (24 000) short documents (hard error on k-th read / after byte k / EOF inside a code point; sticky and fail-once; BOM and UTF-16 inputs incl. positions inside the mark) through single-document and iterator entry points incl. scalar roots with typed targets: fired fault => error, never a value from the truncated prefix (prefix-complete documents generated deliberately); bytes pulled <= cap + fixed allowance; every cap value 0..=len+1; writer failing at every call k and byte n (sticky and fail-once) over plain, shared-anchor and wrapper records x all 768 serializer option vectors => that I/O error and the accepted bytes a prefix of the fault-free output.",
   "Readers never return 0 before EOF and never Interrupted; allowance constant fixed in DESIGN."),
 "C11": ("exploration",
   "runtime monitoring: differential oracle (stream vs each document alone) over all document-kind sequences up to a length bound",
   "All sequences (length <= 5 quick / <= 6 thorough over 10 core kinds; shorter over the full kind list incl. first-token failures and quoted null-likes) x separator layouts x 7 targets x 6 option vectors through batch, iterator, single-document and validating entry points; two iterators interleaved on one thread: items equal the documents deserialized alone; empty/null skipped; anchors do not cross documents; iterator continues after type errors, ends after syntax errors, terminates within documents + 2 calls.",
   "Document cuts confirmed by the raw parser's DocumentStart count."),
 "C12": ("exploration",
   "runtime monitoring: round-trip oracle over exhaustive adversarial strings, all f32 bit patterns, integer boundaries, x positions x option vectors",
   "from_str(to_string_with_options(v)) == v for strings over a 32-symbol adversarial alphabet (exhaustive to length 3 in 38 layout positions x 13 option vectors, length 4 over 16 (32) symbols, length <= 2 under all 960 option vectors), every control / BOM / separator code point, length thresholds around the wrap column and the 1024-character key limit, look-alikes, long random strings; untyped read-back must be a string (never null/number/bool/merge/document marker); floats bit-exact and in YAML float grammar (every f64/f32 exponent x extreme and random mantissas, also as mapping keys; all 2^32 f32 patterns in thorough); integer boundaries; chars; byte arrays.",
   "Only valid serializer option sets."),
 "C13": ("exploration",
   "runtime monitoring: round-trip oracle over an exhaustive (type, value) shape grammar x serializer option combinations, well-formedness via the raw parser",
   "All (Ty, TVal) trees of <= 4 (5) nodes covering every data-model shape in every parent position x the full 384-vector option grid (plus indent/wrap sweeps), constructor chains to length 4 (5), 15 composite key shapes, byte buffers in every position, shared RcAnchor values in 6 holders: serialization succeeds, the raw parser sees exactly one document, the dynamic schema reads back an equal value.",
   "Shapes not representable in YAML (Option<Option<T>>, Option<()>, colliding keys) excluded from the grammar."),
 "C14": ("exploration",
   "runtime monitoring: graph-isomorphism oracle on pointer-equality classes before/after the round trip + raw-event check that shared nodes are defined once",
   "Random and exhaustive-small object graphs (n <= 4 nodes, up to two weak edges, all four wrapper families), chains of nested shared nodes (depth 3/4) with every subset of re-references while definitions are open or closed, 13 serializer option vectors, read back through from_str / reader / slice / from_multiple (document written twice => no sharing across documents) over Rc/Arc anchors, weak anchors, recursive wrappers: canonical labelling by DFS; value tree, ptr_eq partition and weak-target map must be equal after the round trip; each shared node emitted once; mirror types with plain fields get equal independent copies.",
   "Weak edge to a later-serialised live target is unspecified (Err or correct topology accepted)."),
 "C15": ("exploration",
   "runtime monitoring: history checker - every call of every history compared with the same call on a fresh thread; nested calls compared with constant-result substitution",
   "All histories of length <= 4 (quick) / <= 5 (thorough) over a 22-call core alphabet plus all pairs (and triples a,m,b) over the full 129-call table and random histories to length 24, each compared with the call on a fresh thread; nested parses inside Deserialize impls (15 outer kinds x 19 entry points x exit kind Ok/Err/panic x same or fresh thread) at depth <= 2 (3); every schedule of <= 5 (6) next() calls over three interleaved iterators; strong counts and payload drops observed; repeated in child processes for hash-seed independence.",
   "Verdicts at the API boundary only (no 'state is empty' probes)."),
 "C16": ("exploration",
   "runtime monitoring: independent line/column/byte recomputation + span-vs-token oracle + error-location vs Spanned-location differential",
   "Every location from fully span-wrapped parses and from provoked errors (all token strings <= 4 (5) tokens, every placement of <= 2 anchors/aliases and merges on trees <= 6 (7) nodes, 2-4 document streams through from_multiple and the read iterator, an 83-cell enum-payload grid, a 154-cell grid of serde-raised errors, complex keys, closing-quote stress leaves, 0.8 M / 5 M random documents): inside the input; line/column/char/byte offsets mutually consistent by independent recomputation; single-line scalar spans equal the source token; error location equals the Spanned location of the same node; alias/merge use-site and definition-site as stated.",
   "CR-only line convention and span ends of block/multi-line scalars unspecified."),
 "C17": ("exploration",
   "runtime monitoring: output invariants on rendered reports (control-character scan, window/crop bounds, caret-over-column) across formatters, radii, entry points and the miette adapter",
   "Every failing (input, type) pair of the token space (<= 4 tokens, 5 in thorough) plus the full reflection grid, validation reports of both validator crates, byte-by-byte reader window alignment x 12 chunk sizes, a column sweep over mixed-width characters x radii, 1-5 document streams, documents reflecting control characters / long lines / CRLF / wide chars, rendered by every formatter, snippet mode, crop radius, string and reader entry points and miette: no panic, no C0 (except LF/TAB)/DEL/C1, window and crop bounds, right line (the text shown under the location's line number must be a crop of that input line), caret under the reported column.",
   "Layout details not pinned down by the renderer's documentation are unspecified."),
 "C18": ("exploration",
   "runtime monitoring: differential oracle (validating vs plain entry points) + location oracle against a Spanned mirror type",
   "Fixed family of garde/validator types with generated documents (9 delivery templates: direct, scalar alias, whole-struct alias, merge, alias inside a merge source, ...; every subset of violated leaves; every serde rename_all convention x every subset of 6 boundary-case fields; nested; sequences; maps with repeated keys under LastWins/FirstWins; 1-5 (7) document streams with null-like documents) under six option variants and three formatter settings: no violation => equal to plain entry points; violations => exactly the chosen paths, each located at the use/definition site the Spanned mirror gives; every failing document of a stream reported.",
   "Only what the public error surface exposes is compared."),
 "C19": ("exploration",
   "runtime monitoring: reference evaluator (bit-exact), on/off differential on plain literals incl. double-rounding witnesses, cross-build dump comparison, totality probes",
   "Grammar-generated expressions and all token strings over four alphabets (<= 6-7 tokens quick, 7-8 thorough) vs a reference recursive-descent evaluator (bit-exact f64/f32), must-fail classes; exact IEEE identities and regrouping around any expression, commutativity, unit call vs tag, f32 = narrowed f64 result, number lexing with separators at every position; every literal identical with the option on and off (f32/f64, near-midpoint witnesses); dumps with the feature compiled out identical; random/mutated strings, deep nests and huge numbers under panic/CPU/stack observers.",
   "Rounding choices the docs do not pin down accept both results."),
 "C20": ("exploration",
   "runtime monitoring: metamorphic oracle (decorated vs bare value through an untyped tree) over wrappers x options x hostile comment/string content",
   "Values decorated with FlowSeq/FlowMap/LitStr/FoldStr/Commented/SpaceAfter (wrapper stacks of depth 1-3 at every position of every tree <= 3 (4) nodes incl. keys, composite keys and variant payloads; all-positions plans) under the 384-vector option grid plus corner vectors must read back to the same data as the bare value (untyped and typed), exactly one document; hostile comment text and literal/folded contents.",
   "Strings under an explicit fold wrapper compared modulo one trailing line break."),
}

def main():
    heads = subprocess.run("git -C /repo log --format=%h%x09%s -n 1000", shell=True, capture_output=True, text=True).stdout.splitlines()
    hook_commits = [l.split("\t")[0] for l in heads if "verification hooks" in l]
    checks, na = [], []
    for pid in sorted(CHECKS):
        cat, tech, text, note = CHECKS[pid]
        if READY.get(pid):
            checks.append({
                "property_id": pid,
                "quick_cmd": f"./check {pid} quick",
                "thorough_cmd": f"./check {pid} thorough",
                "evidence_file": f"/verif/evidence/{pid}.json",
                "replay_cmd_template": f"./check {pid} --replay {{path}}",
                "engine": "harness",
                "level_claimed": {"category": cat, "text": text + " The exact enumerated spaces and counts of the last run are in the evidence file (coverage.exhaustive_scope, coverage.rule). Held on the executions listed in the evidence, nothing more.", "design_ref": f"DESIGN.md §5 {pid}"},
                "level_note": note,
                "technique": tech,
            })
        else:
            na.append({"property_id": pid, "reason": NOT_READY_REASON})
    m = {
        "version": 1,
        "setup_cmd": "cd /verif/harness && CARGO_NET_OFFLINE=true cargo build --release --workspace 2>&1 | tail -3",
        "hooks": {
            "guard": "--cfg serde_saphyr_verif",
            "enable": "rustflags = [\"--cfg\", \"serde_saphyr_verif\"] in /verif/harness/.cargo/config.toml; the harness depends on /repo by path, so every ./check rebuilds the current working tree with hooks on",
            "baseline_off_cmd": "cd /repo && cargo nextest run --workspace --no-fail-fast --offline --test-threads 8",
            "source_commits": hook_commits,
            "add_only": True,
        },
        "engines": [{"name": "harness", "path": "/verif/harness", "serves_properties": [c["property_id"] for c in checks],
                     "kind_free_text": "Rust workspace: vcore (generators, reference models, observers, evidence) + one monitor binary per property, run against /repo by path with the cfg-guarded event-pump hook"}],
        "checks": checks,
        "not_applicable": na,
        "notes": "Technique family: runtime monitoring and sanitizers only. ./check exits 0 (held on everything explored; KNOWN-FINDING lines for open entries of known_findings.json), 1 (VIOLATION line per unlisted violation) or 2 (harness error / inconclusive run, never a verdict). See DESIGN.md.",
    }
    json.dump(m, open("/verif/MANIFEST.json", "w"), indent=1)
    print("claimed:", [c["property_id"] for c in checks])

main()
