#!/usr/bin/env python3
"""Regenerate DESIGN.md section 8 (cost) from the final sweep records in /verif/sweep/*.jsonl."""
import json, glob, collections

rows = collections.defaultdict(dict)   # id -> tier -> list of records
for f in sorted(glob.glob("/verif/sweep/*.jsonl")):
    for l in open(f):
        r = json.loads(l)
        rows[r["id"]].setdefault(r["tier"], []).append(r)

def cell(recs):
    if not recs:
        return "—"
    wall = sorted(r["wall_s"] for r in recs)
    cpu = sorted(r.get("cpu_s", 0) for r in recs)
    ev = max(r.get("evaluations", 0) for r in recs)
    dn = max(r.get("distinct_nontrivial", 0) for r in recs)
    rss = max(r.get("maxrss_mb", 0) for r in recs)
    seeds = ",".join(str(r["seed"]) for r in recs)
    w = f"{wall[0]}–{wall[-1]} s" if wall[0] != wall[-1] else f"{wall[0]} s"
    c = f"{cpu[0]}–{cpu[-1]}" if cpu[0] != cpu[-1] else f"{cpu[0]}"
    return f"{w} wall, {c} CPU-s; {ev/1e6:.1f} M evaluations, {dn/1e6:.2f} M distinct non-trivial; {rss} MB; seeds {seeds}"

out = ["## 8. Cost (16 cores, measured by the final sweep on the final tree)\n",
       "`tools/final_sweep.sh` ran every check through `./check` (so each figure includes the rebuild check of",
       "the harness against /repo's working tree) and recorded exit code, wall time, user+sys CPU time, peak",
       "RSS and the summary line; the records are in `/verif/sweep/*.jsonl`. All runs below exited 0.\n",
       "| check | quick | thorough |", "|---|---|---|"]
bad = []
for pid in sorted(rows):
    q, t = rows[pid].get("quick", []), rows[pid].get("thorough", [])
    for r in q + t:
        if r["exit"] != 0 or r["violation_lines"]:
            bad.append((pid, r["tier"], r["seed"], r["exit"]))
    out.append(f"| {pid} | {cell(q)} | {cell(t)} |")
out.append("")
out.append("The first harness build (release, all features, hooks on) takes ≈ 2 min; C01's thorough tier adds a dev")
out.append("profile build, an ASan build and Miri/valgrind shards, C19's a build without the robotics feature.")
out.append("Every run is capped by case counts and by a wall-clock watchdog (quick 1 h, thorough 8 h; the bounds were")
out.append("widened after quick runs took 10–20 min of wall time while twenty authors shared the machine) whose")
out.append("firing gives exit 2 and an *inconclusive* evidence file, never a verdict.\n\n")
sec = "\n".join(out)
d = open("/verif/DESIGN.md").read()
a = d.index("## 8. Cost")
b = d.index("## 9. Not applicable")
open("/verif/DESIGN.md", "w").write(d[:a] + sec + d[b:])
print("rows:", len(rows), "non-zero exits:", bad)
