#!/bin/bash
# Run every claimed check on /repo's working tree and collect exit code + summary line.
# usage: final_sweep.sh <tier> <seed> [Cxx …]       (default: all 20)
# Appends one JSON line per run to /verif/sweep/<tier>_seed<seed>.jsonl (evaluations, distinct, wall, exit).
set -u
tier="$1"; seed="$2"; shift 2
ids=("$@"); if [ ${#ids[@]} -eq 0 ]; then ids=(C01 C02 C03 C04 C05 C06 C07 C08 C09 C10 C11 C12 C13 C14 C15 C16 C17 C18 C19 C20); fi
mkdir -p /verif/sweep
out="/verif/sweep/${tier}_seed${seed}.jsonl"
cd /verif
for id in "${ids[@]}"; do
  log="/verif/sweep/${id}_${tier}_seed${seed}.log"
  start=$(date +%s)
  VERIF_SEED="$seed" /usr/bin/time -f "cpu_user=%U cpu_sys=%S maxrss_kb=%M" ./check "$id" "$tier" > "$log" 2>&1
  code=$?
  end=$(date +%s)
  python3 - "$id" "$tier" "$seed" "$code" "$((end-start))" "$log" >> "$out" <<'PY'
import sys, re, json
id, tier, seed, code, wall, log = sys.argv[1:7]
t = open(log, errors="replace").read()
m = re.search(r"evaluations=(\d+) distinct_nontrivial=(\d+) violations=(\d+) known=(\d+) inconclusive=(\d+)", t)
c = re.search(r"cpu_user=([\d.]+) cpu_sys=([\d.]+) maxrss_kb=(\d+)", t)
rec = {"id": id, "tier": tier, "seed": int(seed), "exit": int(code), "wall_s": int(wall),
       "violation_lines": len(re.findall(r"^VIOLATION", t, re.M)), "known_finding_lines": len(re.findall(r"^KNOWN-FINDING", t, re.M))}
if m:
    rec.update(evaluations=int(m.group(1)), distinct_nontrivial=int(m.group(2)), violations=int(m.group(3)), known=int(m.group(4)), inconclusive_cases=int(m.group(5)))
if c:
    rec.update(cpu_s=round(float(c.group(1)) + float(c.group(2))), maxrss_mb=int(c.group(3)) // 1024)
print(json.dumps(rec))
PY
  tail -1 "$out"
done
