#!/usr/bin/env python3
"""Regenerate DESIGN.md section 11 (seeded changes) from /verif/seeded/*/meta.json."""
import json, glob, os, re

HISTORY = {
 "R2-C02-1": "missed at first (C02 had no multi-document part); caught after C02 gained the stream part (alias to an anchor of an earlier document must fail)",
 "R2-C04-1": "missed at first (no ignoring targets); caught after C04 gained IgnoredAny / partially declared struct targets",
 "R2-C05-2": "missed at first (tag-selected scalar payloads were an unspecified class); caught after C05 gained the notation-agreement relation `!V P` ≍ `{V: P}`; ported to the repaired payload re-emission",
 "R2-C08-1": "missed at first; caught after C08 repeated its tightened probes with `budget: None`",
 "R2-C09-1": "missed at first (no document rejected only at finalisation); caught after C09 gained the finalisation section (alias/anchor ratio documents + budget-report comparison across entry points)",
 "R2-C10-2": "missed at first (all sweep targets peek first); caught after C10 gained scalar-root documents with typed targets",
 "R2-C11-2": "missed at first (quoted null-like documents were never generated); caught after C11 gained quoted null-like kinds and a String target",
 "R2-C16-1": "missed at first (no backslash/quote shapes in quoted leaves); caught after C16 gained closing-quote stress leaves",
 "R2-C20-1": "missed by C20 at first (no verdict when the bare value failed under the options); caught after C20 gained the relation 'options break the bare document'; also caught by C13",
 "R2-C20-2": "missed at first (SpaceAfter around LitStr was tolerated as documented); caught after the tolerance was removed and part A3 added",
 "R2-C14-1": "belongs to C15's ground (nested call wiping the outer anchor table); caught by C15, not by C14",
 "R2-C15-1": "missed at first (nested parse always placed after anchored material; reference counts not observed); see the detection result for the state after C15's extension",
 "R2-C18-2": "outside the property's document family (needs LastWins + a map of validated values); see the detection result for the state after C18's extension",
}

rows = []
for d in sorted(glob.glob("/verif/seeded/*/")):
    m = json.load(open(d + "meta.json"))
    det = m.get("detection", {})
    res = det.get("result", "")
    mm = re.search(r"MUTANT \S+ (C\d+) exit=(\d+) violations=(\d+)", res)
    if mm:
        caught = f"{mm.group(1)} quick: exit={mm.group(2)}, {mm.group(3)} witnesses" + (" — **caught**" if mm.group(2) == "1" else " — **not caught**")
    else:
        caught = "(no run recorded)"
    sigs = re.findall(r"signature: (\S+)", res)
    if sigs:
        caught += "; e.g. `" + sigs[0] + "`"
    hist = det.get("summary") or HISTORY.get(m["id"], "")
    if hist and not hist.startswith("caught by"):
        caught += " — " + hist
    rows.append(f"| {m['id']} | {m['property']} | {m['needs_to_manifest'].replace('|','&#124;')} | {caught.replace('|','&#124;')} |")

sec = """## 11. Seeded changes and which checks catch them

Fresh sub-agents, each given only the text of one property and a scratch worktree of
bourumir-wyngs/serde-saphyr (nothing from /verif), produced changes that break the property while
compiling and passing the whole existing suite, each with a demonstration that fails with the change
and passes without it. Two rounds were run (round 2 was told which mechanisms round 1 had used).
Every kept change was confirmed again after the second pass by `tools/reconfirm_all.sh`
(`confirm_seed.sh` on a scratch worktree of the /repo HEAD named in its confirm.txt — `ef1bd64` or
later; every patch also applies to the final HEAD: applies; default and `--all-features` suites pass
with it; demonstration fails with / passes without) and run against the final version of its check
with `tools/mutant_run.sh` (scratch worktree + scratch copy of the harness; /repo itself is never
modified). All 68 are caught by the quick tier. Files: `/verif/seeded/<id>/` (patch.diff, demo.rs, notes.md,
confirm.txt, mutant.txt, meta.json).

Dropped, not kept: C09-2 (round 1; UTF-8 pass-through without BOM stripping — superseded when
`1b13db9` made pass-through + BOM stripping the repair), C10-1 and C15-2 and R2-C05-1 and C13-2
(neutralised by later repairs: with the change applied the property now still holds — the
demonstration passes — because a second guard exists: `efd9943`, `ae6e608`, `4a7345f`, the reworked
sequence layout), C15-1 (removed the entry reset that the save/restore repair `0140587` replaced),
R2-C11-1 (its bug-fix half is the repair `e85e49e`; the patch no longer applies). Patches whose
surroundings were changed by later repairs were re-created on the repaired source (same slip, same
demonstration) by an isolated agent that saw only the patch, its demonstration and notes; three were
carried over mechanically (their lines had only moved). Their notes say so.

Where a seeded change was missed, the check was strengthened (never loosened) and the change re-run;
the table says so. "witnesses" counts VIOLATION lines (capped at 25 per run).

| id | prop | needs, in order to manifest | detection |
|---|---|---|---|
""" + "\n".join(rows) + "\n\n"

d = open("/verif/DESIGN.md").read()
a = d.index("## 11. Seeded changes")
b = d.index("## 12. Departures from the design")
open("/verif/DESIGN.md", "w").write(d[:a] + sec + d[b:])
print(len(rows), "seeds")
