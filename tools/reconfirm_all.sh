#!/bin/bash
# Re-confirm every kept seeded change against the current /repo HEAD and re-run its check.
# usage: reconfirm_all.sh [confirm|mutant|both] [id …]      (default: both, all ids)
# For each /verif/seeded/<id>/: confirm_seed.sh rewrites confirm.txt (applies; both suites pass;
# demo fails with / passes without), mutant_run.sh rewrites mutant.txt (check named in
# meta.json detection.how, quick tier), then meta.json is refreshed from both files.
# Nothing here touches /repo's working tree (scratch worktrees only).
set -u
mode="${1:-both}"; shift || true
ids=("$@"); if [ ${#ids[@]} -eq 0 ]; then ids=($(ls /verif/seeded)); fi
for id in "${ids[@]}"; do
  d="/verif/seeded/$id"; [ -f "$d/meta.json" ] || continue
  chk="$(python3 -c "import json,re,sys; m=json.load(open('$d/meta.json')); print(re.search(r'quick (C\d+)', m['detection']['how']).group(1))")"
  if [ "$mode" != mutant ]; then /verif/tools/confirm_seed.sh "$d" >/dev/null 2>&1; fi
  if [ "$mode" != confirm ]; then
    if grep -q "apply: ok" "$d/confirm.txt"; then
      MUTANT_SHOW=4 /verif/tools/mutant_run.sh "$d/patch.diff" quick "$chk" > "$d/mutant.txt" 2>&1
    else
      echo "MUTANT $id apply-failed" > "$d/mutant.txt"
    fi
  fi
  python3 - "$d" <<'PY'
import json, sys, re
d = sys.argv[1]
m = json.load(open(d + "/meta.json"))
conf = open(d + "/confirm.txt").read().strip()
mut = open(d + "/mutant.txt").read().strip() if __import__("os").path.exists(d + "/mutant.txt") else ""
m["confirmed"]["result"] = conf
m["detection"]["result"] = mut
m["detection"]["caught"] = bool(re.search(r"exit=1 violations=[1-9]", mut))
json.dump(m, open(d + "/meta.json", "w"), indent=1, ensure_ascii=False)
with_part = conf.split("demo_with_change:", 1)[-1].split("demo_without_change:", 1)[0]
without_part = conf.split("demo_without_change:", 1)[-1]
ok = ("apply: ok" in conf and "1627 passed" in conf and "1697 passed" in conf
      and re.search(r"[1-9]\d* failed", with_part)
      and re.search(r"\d+ passed", without_part)
      and not re.search(r"[1-9]\d* failed", without_part))
print("SEED", m["id"], "confirmed" if ok else "NOT-CONFIRMED", "caught" if m["detection"]["caught"] else "NOT-CAUGHT")
PY
done
