#!/usr/bin/env python3
"""Package round-2 seeded changes from /tmp/seed2/<P>/out/<n> into /verif/seeded/R2-<P>-<n>/.
Only seeds whose confirm.txt shows: patch applies, suite passes, demo fails with / passes without."""
import json, os, shutil, re, sys

S = {
 "R2-C01-1": ("C01", "C01", "!!binary scalar containing a non-ASCII character whose byte length (whitespace removed) is a multiple of 4: base64 lookup table sized for ASCII only -> index out of bounds panic"),
 "R2-C01-2": ("C01", "C01", "scalar starting with '0' followed directly by a non-ASCII character (>= 3 bytes), requested as integer / untyped / string under no_schema: radix prefix split at byte 2 -> char-boundary panic"),
 "R2-C02-1": ("C02", "C02", "stream of >= 3 documents, anchor defined in a document after the first anchor-bearing one, aliased by a later document that does not redefine it: per-document anchor sweep skips slots below a stale mark (silent stale value)"),
 "R2-C03-1": ("C03", "C03", "several '<<' entries in one mapping + own keys written before a later '<<' that completely shadow it: an empty batch ends the merge flush early, keys of EARLIER '<<' entries are lost"),
 "R2-C03-2": ("C03", "C03", "the same anchored mapping merged twice into one mapping with another source in between ('<<: *A, <<: *B, <<: *A'): repeated anchor skipped, precedence wrong"),
 "R2-C04-1": ("C04", "C04", "Error policy + repeated key inside an IGNORED subtree (undeclared struct field, Map<_, IgnoredAny>, whole-document IgnoredAny): deserialize_ignored_any skips the node, the duplicate is accepted"),
 "R2-C04-2": ("C04", "C04", "LastWins + '<<' merge + an explicit key that also occurs in the merged mapping: live entries no longer recorded in the seen set, merged entry delivered too"),
 "R2-C05-1": ("C05", "C05", "'!Variant <null-like>' for a newtype payload of type Option<_>: a !!str-tagged null-like is no longer None in deserialize_option"),
 "R2-C05-2": ("C05", "C05", "'!Variant \"~\"' / quoted null-like payload with a non-String payload type: re-emitted payload loses its quoting style (and anchor)"),
 "R2-C06-1": ("C06", "C06", "Option target + literal/folded block scalar with strip chomping whose text is exactly '~' / 'null': not-quoted conflated with plain -> None"),
 "R2-C06-2": ("C06", "C06", "no_schema + plain radix-prefixed or '_'-separated integer ('0x1F', '1_000') into a string-like target: integer probe dropped from the quoting predicate"),
 "R2-C07-1": ("C07", "C07", "reader entry points only + alias before a '<<' in the same mapping: enforcer built without with_alias_replay on the reader path (merge keys miscounted)"),
 "R2-C07-2": ("C07", "C07", "streaming iterator + stream longer than max_documents: max_documents enforced under per-document policy"),
 "R2-C08-1": ("C08", "C08", "Options::budget = None + replay over max_total_replayed_events: the counter sits behind the 'no budget' early return, alias bombs unbounded"),
 "R2-C09-1": ("C09", "C09", "closure helpers + a document rejected only at finalisation (alias/anchor ratio): finish() skipped on a clean end of input"),
 "R2-C09-2": ("C09", "C09", "two leading U+FEFF + the str/slice closure helpers: normalize strips every leading BOM"),
 "R2-C10-1": ("C10", "C10", "reader input that ends strictly inside a 2/3/4-byte character whose prefix parses: continuation bytes read with read_exact, UnexpectedEof taken for a clean end"),
 "R2-C10-2": ("C10", "C10", "streaming iterator + root scalar taken with a bare next() (int/float/bool/char) + hard fault inside that scalar: buffered look-ahead handed out before the I/O error check"),
 "R2-C11-2": ("C11", "C11", "quoted document spelled like null/empty ('\"null\"', \"'~'\", '\"\"') through read*: iterator's null-document guard ignores the scalar style"),
 "R2-C12-1": ("C12", "C12", "indent_step >= 3 + block scalar with leading-space first line as item of an inline-nested sequence or newtype-variant payload in a sequence: indentation indicator assumed = indent_step"),
 "R2-C13-1": ("C13", "C13", "sequence with >= 2 items whose first dash is inline ('- - a', '? - a') + indent_step != 2: real column of the inline dash never stored (silent '[[\"a - b\"]]' for step >= 3)"),
 "R2-C13-2": ("C13", "C13", "indent_step 1 + struct variant as a sequence item / under a key in a sequence item / composite key: fields placed relative to the wrong parent column"),
 "R2-C14-1": ("C14", "C15", "nested from_str inside a plain field's deserialize_with between a shared node's definition and a later alias: document scope saves/restores only when a wrapper node is open"),
 "R2-C14-2": ("C14", "C14", "unanchored wrapper node (dangling weak written null, unshared block-scalar string) inside an anchored wrapper of the same flavour: current_anchor_id skips unanchored frames again"),
 "R2-C15-1": ("C15", "C15", "first anchor-storing call on a thread, or a nested call made before the outer document stored any anchor: empty-state fast path never discards the tables the document filled"),
 "R2-C16-1": ("C16", "C16", "single-quoted scalar with a backslash immediately before a quote character (+ trailing blanks/comment): backslash arm of the closing-quote re-scan applies to single quotes"),
 "R2-C16-2": ("C16", "C16", "type error in a value arriving through a merge (recorded-value branch): use-site and definition-site passed in swapped order"),
 "R2-C17-1": ("C17", "C17", "reader entry point + last consumed chunk > 3072 bytes + window start inside a line: bulk eviction never updates the 'starts at line start' flag"),
 "R2-C18-1": ("C18", "C18", "garde + plain one-line rendering (reader entry points / snippets off) + failing value supplied through an alias or merge: report names the definition site"),
 "R2-C18-2": ("C18", "C18", "LastWins + repeated key inside a map of validated values, last occurrence failing: PathMap keeps the first record of a path"),
 "R2-C19-1": ("C19", "C19", "angle_conversions + negative exponent whose digits contain the token's first '_' ('1e-1_0'): exponent sign leaks onto the mantissa"),
 "R2-C19-2": ("C19", "C19", "'!degrees' + a bare parenthesised group outside deg()/rad(): unit-tracking flags swapped when leaving the group"),
 "R2-C20-1": ("C20", "C20", "tuple struct with >= 2 fields written inline after a dash or complex key + indent_step != 2: first-dash column not written back"),
 "R2-C20-2": ("C20", "C20", "SpaceAfter around an explicit LitStr of >= 2 line breaks only: keep-chomping flag not set on the content-empty path"),
}

def ok(conf):
    return ("apply: ok" in conf and "1627 passed" in conf and "1697 passed" in conf
            and re.search(r"demo_with_change:.*?(\d+) failed", conf, re.S) and not re.search(r"demo_with_change:.*? 0 failed", conf, re.S)
            and re.search(r"demo_without_change:.*passed", conf) and not re.search(r"demo_without_change:.*[1-9]\d* failed", conf))

kept, skipped = [], []
for sid, (prop_dir, check, needs) in S.items():
    n = sid.rsplit("-", 1)[1]
    src = f"/tmp/seed2/{prop_dir}/out/{n}"
    if not os.path.exists(src + "/confirm.txt"):
        skipped.append((sid, "no confirm.txt")); continue
    conf = open(src + "/confirm.txt").read()
    mut = open(src + "/mutant.txt").read() if os.path.exists(src + "/mutant.txt") else ""
    if not ok(conf):
        skipped.append((sid, "confirmation incomplete")); continue
    dst = f"/verif/seeded/{sid}"; os.makedirs(dst, exist_ok=True)
    for f in ["patch.diff", "demo.rs", "notes.md", "confirm.txt", "mutant.txt"]:
        if os.path.exists(f"{src}/{f}"): shutil.copy(f"{src}/{f}", f"{dst}/{f}")
    caught = "exit=1" in mut
    json.dump({"id": sid, "property": prop_dir, "round": 2, "needs_to_manifest": needs,
        "confirmed": {"how": "tools/confirm_seed.sh on a scratch worktree of /repo HEAD: git apply; whole suite (default + --all-features); demo.rs as tests/seed_demo.rs with and without the change", "result": conf.strip()},
        "detection": {"how": f"tools/mutant_run.sh <patch> quick {check} (scratch worktree + scratch copy of the harness; /repo untouched)", "result": mut.strip(), "caught": caught}},
        open(dst + "/meta.json", "w"), indent=1)
    kept.append((sid, check, caught))
for k in kept: print("KEPT", *k)
for s in skipped: print("SKIP", *s)
