#!/bin/bash
# Confirm a seeded change in a scratch worktree: (1) applies, (2) whole suite passes with it (1627),
# (3) demo fails with it, (4) demo passes without it.  usage: confirm_seed.sh <dir with patch.diff + demo.rs>
# Writes <dir>/confirm.txt. Serialised with flock (fixed scratch path keeps incremental builds warm).
set -u
d="$(readlink -f "$1")"
slot="${CONFIRM_SLOT:-}"   # parallel runs use different slots (separate scratch worktree + target dir)
base="/tmp/confirm$slot"
exec 9>"$base.lock"; flock 9
wt="$base/wt"
export CARGO_TARGET_DIR="$base/target" CARGO_NET_OFFLINE=true
mkdir -p "$base"
if [ ! -d "$wt" ]; then git -C /repo worktree add --detach "$wt" HEAD -q || exit 2; fi
git -C "$wt" checkout -q --detach "$(git -C /repo rev-parse HEAD)"; git -C "$wt" checkout -q -- .; git -C "$wt" clean -fdq
res="$d/confirm.txt"; : > "$res"; echo "repo_head: $(git -C /repo rev-parse --short HEAD)" >> "$res"
cd "$wt"
if ! git apply "$d/patch.diff"; then echo "apply: FAIL" >> "$res"; exit 1; fi
echo "apply: ok" >> "$res"
out="$(cargo nextest run --workspace --no-fail-fast --offline --test-threads 8 2>&1 | grep -E 'Summary|error(\[|:)' | tail -3)"
echo "suite_with_change: $out" >> "$res"
out="$(cargo nextest run --workspace --no-fail-fast --offline --test-threads 8 --all-features 2>&1 | grep -E 'Summary|error(\[|:)' | tail -3)"
echo "suite_all_features_with_change: $out" >> "$res"
cp "$d/demo.rs" tests/seed_demo.rs
out="$(cargo nextest run --offline --all-features --test seed_demo --no-fail-fast 2>&1 | grep -E 'Summary|error(\[|:)' | tail -3)"
echo "demo_with_change: $out" >> "$res"
git apply -R "$d/patch.diff"
out="$(cargo nextest run --offline --all-features --test seed_demo --no-fail-fast 2>&1 | grep -E 'Summary|error(\[|:)' | tail -3)"
echo "demo_without_change: $out" >> "$res"
git checkout -q -- .; git clean -fdq
cat "$res"
