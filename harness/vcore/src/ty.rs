//! Run-time type descriptions (`Ty`), values of such types (`TVal`), a
//! `DeserializeSeed` that drives any `serde::Deserializer` exactly like the code
//! `#[derive(Deserialize)]` / the std impls would for the described type
//! (`SchemaSeed`), the matching dynamic `Serialize` (`TSer`), and generators.
//!
//! Serde needs `&'static str` names: all names come from fixed pools
//! (`STRUCT_NAMES`, `ENUM_NAMES`, `FIELD_NAMES`, `VARIANT_NAMES`). A struct with
//! n fields has the fields `f0..f{n-1}`; an enum with n variants and offset `voff`
//! has the variants `V{voff}..V{voff+n-1}` (sub-slices of the static tables, so
//! nothing is leaked).

use crate::rng::Rng;
use serde::de::{
    self, DeserializeSeed, Deserializer, EnumAccess, IgnoredAny, MapAccess, SeqAccess, VariantAccess, Visitor,
};
use serde::ser::{
    self, Serialize, SerializeMap, SerializeSeq, SerializeStruct, SerializeStructVariant, SerializeTuple,
    SerializeTupleStruct, SerializeTupleVariant, Serializer,
};
use serde::{Deserialize as DeriveDe, Serialize as DeriveSer};
use std::fmt;

pub static STRUCT_NAMES: [&str; 8] = ["S0", "S1", "S2", "S3", "S4", "S5", "S6", "S7"];
pub static ENUM_NAMES: [&str; 8] = ["E0", "E1", "E2", "E3", "E4", "E5", "E6", "E7"];
pub static FIELD_NAMES: [&str; 8] = ["f0", "f1", "f2", "f3", "f4", "f5", "f6", "f7"];
pub static VARIANT_NAMES: [&str; 12] = ["V0", "V1", "V2", "V3", "V4", "V5", "V6", "V7", "V8", "V9", "V10", "V11"];

/// `&["f0", .., "f{n-1}"]`
pub fn field_names(n: usize) -> &'static [&'static str] {
    &FIELD_NAMES[..n]
}
/// `&["V{off}", .., "V{off+n-1}"]`
pub fn variant_names(off: usize, n: usize) -> &'static [&'static str] {
    &VARIANT_NAMES[off..off + n]
}

// ------------------------------------------------------------------ Ty

#[derive(Clone, Debug, PartialEq, Eq, Hash, DeriveSer, DeriveDe)]
pub enum Ty {
    Bool,
    I8,
    I16,
    I32,
    I64,
    I128,
    U8,
    U16,
    U32,
    U64,
    U128,
    F32,
    F64,
    Char,
    Str,
    /// `serde_bytes::ByteBuf`-like (deserialize_byte_buf / serialize_bytes)
    Bytes,
    Unit,
    Option(Box<Ty>),
    /// `struct S<n>;`
    UnitStruct(u8),
    /// `struct S<n>(T);`
    Newtype(u8, Box<Ty>),
    /// `Vec<T>`
    Seq(Box<Ty>),
    /// `(A, B, ..)` with >= 1 element
    Tuple(Vec<Ty>),
    /// `struct S<n>(A, B, ..);` with >= 2 elements
    TupleStruct(u8, Vec<Ty>),
    /// ordered list of pairs as delivered (a `Vec<(K, V)>`-like map target)
    Map(Box<Ty>, Box<Ty>),
    Struct(StructTy),
    Enum(EnumTy),
}

#[derive(Clone, Debug, PartialEq, Eq, Hash, DeriveSer, DeriveDe)]
pub struct FieldTy {
    pub ty: Ty,
    /// `#[serde(default)]`: a missing field takes `ty.default_val()`. A field whose
    /// type is `Option<_>` is optional without it (derive semantics).
    pub default: bool,
}

#[derive(Clone, Debug, PartialEq, Eq, Hash, DeriveSer, DeriveDe)]
pub struct Fields {
    pub fields: Vec<FieldTy>,
    /// `#[serde(deny_unknown_fields)]`
    pub deny_unknown: bool,
}

#[derive(Clone, Debug, PartialEq, Eq, Hash, DeriveSer, DeriveDe)]
pub struct StructTy {
    pub name: u8,
    pub body: Fields,
}

#[derive(Clone, Debug, PartialEq, Eq, Hash, DeriveSer, DeriveDe)]
pub enum VariantTy {
    Unit,
    Newtype(Ty),
    /// >= 2 elements
    Tuple(Vec<Ty>),
    Struct(Fields),
}

#[derive(Clone, Debug, PartialEq, Eq, Hash, DeriveSer, DeriveDe)]
pub struct EnumTy {
    pub name: u8,
    /// first variant is `V{voff}`
    pub voff: u8,
    pub variants: Vec<VariantTy>,
}

impl Fields {
    pub fn new(tys: Vec<Ty>, deny_unknown: bool) -> Fields {
        Fields { fields: tys.into_iter().map(|ty| FieldTy { ty, default: false }).collect(), deny_unknown }
    }
    pub fn names(&self) -> &'static [&'static str] {
        field_names(self.fields.len())
    }
    pub fn index_of(&self, name: &str) -> Option<usize> {
        self.names().iter().position(|n| *n == name)
    }
    /// What a missing field i becomes: `Some(value)` or `None` = `missing_field` error.
    pub fn missing_value(&self, i: usize) -> Option<TVal> {
        let f = &self.fields[i];
        if f.default {
            Some(f.ty.default_val())
        } else if matches!(f.ty, Ty::Option(_)) {
            Some(TVal::None)
        } else {
            None
        }
    }
}

impl StructTy {
    pub fn name(&self) -> &'static str {
        STRUCT_NAMES[self.name as usize]
    }
}

impl EnumTy {
    pub fn name(&self) -> &'static str {
        ENUM_NAMES[self.name as usize]
    }
    pub fn names(&self) -> &'static [&'static str] {
        variant_names(self.voff as usize, self.variants.len())
    }
    pub fn index_of(&self, name: &str) -> Option<usize> {
        self.names().iter().position(|n| *n == name)
    }
}

impl Ty {
    pub fn opt(t: Ty) -> Ty {
        Ty::Option(Box::new(t))
    }
    pub fn seq(t: Ty) -> Ty {
        Ty::Seq(Box::new(t))
    }
    pub fn map(k: Ty, v: Ty) -> Ty {
        Ty::Map(Box::new(k), Box::new(v))
    }
    pub fn newtype(n: u8, t: Ty) -> Ty {
        Ty::Newtype(n, Box::new(t))
    }
    pub fn strukt(n: u8, tys: Vec<Ty>, deny: bool) -> Ty {
        Ty::Struct(StructTy { name: n, body: Fields::new(tys, deny) })
    }
    pub fn enumeration(n: u8, voff: u8, variants: Vec<VariantTy>) -> Ty {
        Ty::Enum(EnumTy { name: n, voff, variants })
    }

    pub fn is_signed(&self) -> bool {
        matches!(self, Ty::I8 | Ty::I16 | Ty::I32 | Ty::I64 | Ty::I128)
    }
    pub fn is_unsigned(&self) -> bool {
        matches!(self, Ty::U8 | Ty::U16 | Ty::U32 | Ty::U64 | Ty::U128)
    }
    pub fn is_int(&self) -> bool {
        self.is_signed() || self.is_unsigned()
    }
    /// Types whose value is one YAML scalar (no option / newtype wrappers).
    pub fn is_scalar(&self) -> bool {
        matches!(
            self,
            Ty::Bool
                | Ty::I8
                | Ty::I16
                | Ty::I32
                | Ty::I64
                | Ty::I128
                | Ty::U8
                | Ty::U16
                | Ty::U32
                | Ty::U64
                | Ty::U128
                | Ty::F32
                | Ty::F64
                | Ty::Char
                | Ty::Str
                | Ty::Bytes
                | Ty::Unit
                | Ty::UnitStruct(_)
        )
    }
    /// Bits of an integer type.
    pub fn int_bits(&self) -> u32 {
        match self {
            Ty::I8 | Ty::U8 => 8,
            Ty::I16 | Ty::U16 => 16,
            Ty::I32 | Ty::U32 => 32,
            Ty::I64 | Ty::U64 => 64,
            Ty::I128 | Ty::U128 => 128,
            _ => 0,
        }
    }
    pub fn int_min(&self) -> i128 {
        if self.is_signed() {
            if self.int_bits() == 128 { i128::MIN } else { -(1i128 << (self.int_bits() - 1)) }
        } else {
            0
        }
    }
    pub fn uint_max(&self) -> u128 {
        let b = self.int_bits();
        let b = if self.is_signed() { b - 1 } else { b };
        if b == 128 { u128::MAX } else { (1u128 << b) - 1 }
    }
    /// The type with newtype wrappers removed (they are transparent in YAML).
    pub fn peel_newtypes(&self) -> &Ty {
        let mut t = self;
        while let Ty::Newtype(_, inner) = t {
            t = inner;
        }
        t
    }
    /// `true` if YAML null is a value of the type by itself (unit, unit struct,
    /// option, through newtypes) — `Option<such>` is not representable.
    pub fn absorbs_null(&self) -> bool {
        matches!(self.peel_newtypes(), Ty::Unit | Ty::UnitStruct(_) | Ty::Option(_))
    }
    pub fn depth(&self) -> usize {
        1 + self.children().iter().map(|c| c.depth()).max().unwrap_or(0)
    }
    pub fn node_count(&self) -> usize {
        1 + self.children().iter().map(|c| c.node_count()).sum::<usize>()
    }
    pub fn children(&self) -> Vec<&Ty> {
        match self {
            Ty::Option(t) | Ty::Newtype(_, t) | Ty::Seq(t) => vec![t],
            Ty::Tuple(ts) | Ty::TupleStruct(_, ts) => ts.iter().collect(),
            Ty::Map(k, v) => vec![k, v],
            Ty::Struct(s) => s.body.fields.iter().map(|f| &f.ty).collect(),
            Ty::Enum(e) => {
                let mut v = Vec::new();
                for var in &e.variants {
                    match var {
                        VariantTy::Unit => {}
                        VariantTy::Newtype(t) => v.push(t),
                        VariantTy::Tuple(ts) => v.extend(ts.iter()),
                        VariantTy::Struct(f) => v.extend(f.fields.iter().map(|f| &f.ty)),
                    }
                }
                v
            }
            _ => vec![],
        }
    }
    /// `Default::default()` of the type (enums: first variant, which generators
    /// keep a unit variant whenever they set `FieldTy::default`).
    pub fn default_val(&self) -> TVal {
        match self {
            Ty::Bool => TVal::Bool(false),
            t if t.is_signed() => TVal::I(0),
            t if t.is_unsigned() => TVal::U(0),
            Ty::F32 => TVal::F32(0),
            Ty::F64 => TVal::F64(0),
            Ty::Char => TVal::Char('\0'),
            Ty::Str => TVal::Str(String::new()),
            Ty::Bytes => TVal::Bytes(Vec::new()),
            Ty::Unit | Ty::UnitStruct(_) => TVal::Unit,
            Ty::Option(_) => TVal::None,
            Ty::Newtype(_, t) => t.default_val(),
            Ty::Seq(_) => TVal::Seq(Vec::new()),
            Ty::Tuple(ts) | Ty::TupleStruct(_, ts) => TVal::Tuple(ts.iter().map(|t| t.default_val()).collect()),
            Ty::Map(..) => TVal::Map(Vec::new()),
            Ty::Struct(s) => TVal::Struct(s.body.fields.iter().map(|f| f.ty.default_val()).collect()),
            Ty::Enum(e) => TVal::Variant(0, Box::new(variant_default(&e.variants[0]))),
            _ => unreachable!(),
        }
    }
    /// Is `v` a well-formed value of this type?
    pub fn check(&self, v: &TVal) -> bool {
        match (self, v) {
            (Ty::Bool, TVal::Bool(_)) => true,
            (t, TVal::I(i)) if t.is_signed() => *i >= t.int_min() && (*i < 0 || (*i as u128) <= t.uint_max()),
            (t, TVal::U(u)) if t.is_unsigned() => *u <= t.uint_max(),
            (Ty::F32, TVal::F32(_)) | (Ty::F64, TVal::F64(_)) => true,
            (Ty::Char, TVal::Char(_)) | (Ty::Str, TVal::Str(_)) | (Ty::Bytes, TVal::Bytes(_)) => true,
            (Ty::Unit, TVal::Unit) | (Ty::UnitStruct(_), TVal::Unit) => true,
            (Ty::Option(_), TVal::None) => true,
            (Ty::Option(t), TVal::Some(x)) => t.check(x),
            (Ty::Newtype(_, t), x) => t.check(x),
            (Ty::Seq(t), TVal::Seq(xs)) => xs.iter().all(|x| t.check(x)),
            (Ty::Tuple(ts), TVal::Tuple(xs)) | (Ty::TupleStruct(_, ts), TVal::Tuple(xs)) => {
                ts.len() == xs.len() && ts.iter().zip(xs).all(|(t, x)| t.check(x))
            }
            (Ty::Map(k, w), TVal::Map(ps)) => ps.iter().all(|(a, b)| k.check(a) && w.check(b)),
            (Ty::Struct(s), TVal::Struct(xs)) => fields_check(&s.body, xs),
            (Ty::Enum(e), TVal::Variant(i, p)) => match e.variants.get(*i as usize) {
                None => false,
                Some(VariantTy::Unit) => **p == TVal::Unit,
                Some(VariantTy::Newtype(t)) => t.check(p),
                Some(VariantTy::Tuple(ts)) => match &**p {
                    TVal::Tuple(xs) => ts.len() == xs.len() && ts.iter().zip(xs).all(|(t, x)| t.check(x)),
                    _ => false,
                },
                Some(VariantTy::Struct(f)) => match &**p {
                    TVal::Struct(xs) => fields_check(f, xs),
                    _ => false,
                },
            },
            _ => false,
        }
    }
    pub fn to_json(&self) -> serde_json::Value {
        serde_json::to_value(self).unwrap_or(serde_json::Value::Null)
    }
    pub fn from_json(v: &serde_json::Value) -> Option<Ty> {
        serde_json::from_value(v.clone()).ok()
    }
}

fn fields_check(f: &Fields, xs: &[TVal]) -> bool {
    f.fields.len() == xs.len() && f.fields.iter().zip(xs).all(|(t, x)| t.ty.check(x))
}

fn variant_default(v: &VariantTy) -> TVal {
    match v {
        VariantTy::Unit => TVal::Unit,
        VariantTy::Newtype(t) => t.default_val(),
        VariantTy::Tuple(ts) => TVal::Tuple(ts.iter().map(|t| t.default_val()).collect()),
        VariantTy::Struct(f) => TVal::Struct(f.fields.iter().map(|f| f.ty.default_val()).collect()),
    }
}

/// Rust-like rendering of the type, for evidence and messages.
impl fmt::Display for Ty {
    fn fmt(&self, f: &mut fmt::Formatter<'_>) -> fmt::Result {
        fn list(f: &mut fmt::Formatter<'_>, ts: &[Ty]) -> fmt::Result {
            for (i, t) in ts.iter().enumerate() {
                if i > 0 {
                    write!(f, ", ")?;
                }
                write!(f, "{t}")?;
            }
            Ok(())
        }
        fn fields(f: &mut fmt::Formatter<'_>, b: &Fields) -> fmt::Result {
            write!(f, "{{")?;
            for (i, x) in b.fields.iter().enumerate() {
                if i > 0 {
                    write!(f, ", ")?;
                }
                if x.default {
                    write!(f, "#[default] ")?;
                }
                write!(f, "{}: {}", FIELD_NAMES[i], x.ty)?;
            }
            write!(f, "}}")?;
            if b.deny_unknown {
                write!(f, "!")?;
            }
            Ok(())
        }
        match self {
            Ty::Option(t) => write!(f, "Option<{t}>"),
            Ty::UnitStruct(n) => write!(f, "{}", STRUCT_NAMES[*n as usize]),
            Ty::Newtype(n, t) => write!(f, "{}({t})", STRUCT_NAMES[*n as usize]),
            Ty::Seq(t) => write!(f, "Vec<{t}>"),
            Ty::Tuple(ts) => {
                write!(f, "(")?;
                list(f, ts)?;
                write!(f, ",)")
            }
            Ty::TupleStruct(n, ts) => {
                write!(f, "{}(", STRUCT_NAMES[*n as usize])?;
                list(f, ts)?;
                write!(f, ")")
            }
            Ty::Map(k, v) => write!(f, "Map<{k}, {v}>"),
            Ty::Struct(s) => {
                write!(f, "{}", s.name())?;
                fields(f, &s.body)
            }
            Ty::Enum(e) => {
                write!(f, "{}[", e.name())?;
                for (i, v) in e.variants.iter().enumerate() {
                    if i > 0 {
                        write!(f, " | ")?;
                    }
                    write!(f, "{}", e.names()[i])?;
                    match v {
                        VariantTy::Unit => {}
                        VariantTy::Newtype(t) => write!(f, "({t})")?,
                        VariantTy::Tuple(ts) => {
                            write!(f, "(")?;
                            list(f, ts)?;
                            write!(f, ")")?
                        }
                        VariantTy::Struct(b) => fields(f, b)?,
                    }
                }
                write!(f, "]")
            }
            Ty::Unit => write!(f, "()"),
            Ty::Str => write!(f, "String"),
            Ty::Bytes => write!(f, "ByteBuf"),
            other => write!(f, "{}", format!("{other:?}").to_lowercase()),
        }
    }
}

// ------------------------------------------------------------------ TVal

/// A value of a `Ty`. Newtype structs are transparent (the inner value), unit
/// structs are `Unit`, tuple structs are `Tuple`, struct values list the fields by
/// index, `Variant(i, payload)` has payload `Unit` / inner / `Tuple` / `Struct`.
/// Floats are kept as bits with all NaNs normalised so `PartialEq` is total.
#[derive(Clone, Debug, PartialEq, DeriveSer, DeriveDe)]
pub enum TVal {
    Bool(bool),
    I(i128),
    U(u128),
    F32(u32),
    F64(u64),
    Char(char),
    Str(String),
    Bytes(Vec<u8>),
    Unit,
    None,
    Some(Box<TVal>),
    Seq(Vec<TVal>),
    Tuple(Vec<TVal>),
    Map(Vec<(TVal, TVal)>),
    Struct(Vec<TVal>),
    Variant(u8, Box<TVal>),
}

impl TVal {
    pub fn f32(v: f32) -> TVal {
        TVal::F32(if v.is_nan() { f32::NAN.to_bits() } else { v.to_bits() })
    }
    pub fn f64(v: f64) -> TVal {
        TVal::F64(if v.is_nan() { f64::NAN.to_bits() } else { v.to_bits() })
    }
    pub fn some(v: TVal) -> TVal {
        TVal::Some(Box::new(v))
    }
    pub fn variant(i: usize, p: TVal) -> TVal {
        TVal::Variant(i as u8, Box::new(p))
    }
    pub fn node_count(&self) -> usize {
        match self {
            TVal::Some(x) | TVal::Variant(_, x) => 1 + x.node_count(),
            TVal::Seq(xs) | TVal::Tuple(xs) | TVal::Struct(xs) => 1 + xs.iter().map(|x| x.node_count()).sum::<usize>(),
            TVal::Map(ps) => 1 + ps.iter().map(|(k, v)| k.node_count() + v.node_count()).sum::<usize>(),
            _ => 1,
        }
    }
    /// Maps sorted by the Debug text of their keys (to compare with targets that
    /// do not keep delivery order, e.g. `BTreeMap`).
    pub fn sorted_maps(&self) -> TVal {
        match self {
            TVal::Some(x) => TVal::some(x.sorted_maps()),
            TVal::Variant(i, x) => TVal::Variant(*i, Box::new(x.sorted_maps())),
            TVal::Seq(xs) => TVal::Seq(xs.iter().map(|x| x.sorted_maps()).collect()),
            TVal::Tuple(xs) => TVal::Tuple(xs.iter().map(|x| x.sorted_maps()).collect()),
            TVal::Struct(xs) => TVal::Struct(xs.iter().map(|x| x.sorted_maps()).collect()),
            TVal::Map(ps) => {
                let mut v: Vec<(TVal, TVal)> = ps.iter().map(|(k, x)| (k.sorted_maps(), x.sorted_maps())).collect();
                v.sort_by_key(|(k, _)| format!("{k:?}"));
                TVal::Map(v)
            }
            other => other.clone(),
        }
    }
}

// ------------------------------------------------------------------ SchemaSeed

/// Drives a deserializer for the described type exactly like derived code would.
#[derive(Clone, Copy)]
pub struct SchemaSeed<'a>(pub &'a Ty);

impl<'de> DeserializeSeed<'de> for SchemaSeed<'_> {
    type Value = TVal;
    fn deserialize<D: Deserializer<'de>>(self, d: D) -> Result<TVal, D::Error> {
        let t = self.0;
        match t {
            Ty::Bool => d.deserialize_bool(Prim(t)),
            Ty::I8 => d.deserialize_i8(Prim(t)),
            Ty::I16 => d.deserialize_i16(Prim(t)),
            Ty::I32 => d.deserialize_i32(Prim(t)),
            Ty::I64 => d.deserialize_i64(Prim(t)),
            Ty::I128 => d.deserialize_i128(Prim(t)),
            Ty::U8 => d.deserialize_u8(Prim(t)),
            Ty::U16 => d.deserialize_u16(Prim(t)),
            Ty::U32 => d.deserialize_u32(Prim(t)),
            Ty::U64 => d.deserialize_u64(Prim(t)),
            Ty::U128 => d.deserialize_u128(Prim(t)),
            Ty::F32 => d.deserialize_f32(Prim(t)),
            Ty::F64 => d.deserialize_f64(Prim(t)),
            Ty::Char => d.deserialize_char(Prim(t)),
            Ty::Str => d.deserialize_string(Prim(t)),
            Ty::Bytes => d.deserialize_byte_buf(BytesV),
            Ty::Unit => d.deserialize_unit(UnitV("unit")),
            Ty::Option(inner) => d.deserialize_option(OptV(inner)),
            Ty::UnitStruct(n) => d.deserialize_unit_struct(STRUCT_NAMES[*n as usize], UnitV("unit struct")),
            Ty::Newtype(n, inner) => d.deserialize_newtype_struct(STRUCT_NAMES[*n as usize], NewtypeV(inner)),
            Ty::Seq(inner) => d.deserialize_seq(SeqV(inner)),
            Ty::Tuple(ts) => d.deserialize_tuple(ts.len(), TupleV(ts, "tuple")),
            Ty::TupleStruct(n, ts) => {
                d.deserialize_tuple_struct(STRUCT_NAMES[*n as usize], ts.len(), TupleV(ts, "tuple struct"))
            }
            Ty::Map(k, v) => d.deserialize_map(MapV(k, v)),
            Ty::Struct(s) => d.deserialize_struct(s.name(), s.body.names(), FieldsV(&s.body, "struct")),
            Ty::Enum(e) => d.deserialize_enum(e.name(), e.names(), EnumV(e)),
        }
    }
}

struct Prim<'a>(&'a Ty);

impl Prim<'_> {
    fn int<E: de::Error>(&self, neg: bool, mag: u128) -> Result<TVal, E> {
        // value = -mag if neg else mag
        let t = self.0;
        if t.is_signed() {
            let ok = if neg { mag <= t.uint_max() + 1 } else { mag <= t.uint_max() };
            if ok {
                let v = if neg { (mag as i128).wrapping_neg() } else { mag as i128 };
                return Ok(TVal::I(v));
            }
        } else if t.is_unsigned() {
            if (!neg || mag == 0) && mag <= t.uint_max() {
                return Ok(TVal::U(mag));
            }
        } else if matches!(t, Ty::F32 | Ty::F64) {
            let f = if neg { -(mag as f64) } else { mag as f64 };
            return Ok(if matches!(t, Ty::F32) { TVal::f32(f as f32) } else { TVal::f64(f) });
        } else {
            return Err(E::invalid_type(de::Unexpected::Other("integer"), self));
        }
        Err(E::custom(format!("integer out of range for {t}")))
    }
}

impl<'de> Visitor<'de> for Prim<'_> {
    type Value = TVal;
    fn expecting(&self, f: &mut fmt::Formatter) -> fmt::Result {
        write!(f, "{}", self.0)
    }
    fn visit_bool<E: de::Error>(self, v: bool) -> Result<TVal, E> {
        if matches!(self.0, Ty::Bool) { Ok(TVal::Bool(v)) } else { Err(E::invalid_type(de::Unexpected::Bool(v), &self)) }
    }
    fn visit_i64<E: de::Error>(self, v: i64) -> Result<TVal, E> {
        self.int(v < 0, (v as i128).unsigned_abs())
    }
    fn visit_i128<E: de::Error>(self, v: i128) -> Result<TVal, E> {
        self.int(v < 0, v.unsigned_abs())
    }
    fn visit_u64<E: de::Error>(self, v: u64) -> Result<TVal, E> {
        self.int(false, v as u128)
    }
    fn visit_u128<E: de::Error>(self, v: u128) -> Result<TVal, E> {
        self.int(false, v)
    }
    fn visit_f32<E: de::Error>(self, v: f32) -> Result<TVal, E> {
        match self.0 {
            Ty::F32 => Ok(TVal::f32(v)),
            Ty::F64 => Ok(TVal::f64(v as f64)),
            _ => Err(E::invalid_type(de::Unexpected::Float(v as f64), &self)),
        }
    }
    fn visit_f64<E: de::Error>(self, v: f64) -> Result<TVal, E> {
        match self.0 {
            Ty::F32 => Ok(TVal::f32(v as f32)),
            Ty::F64 => Ok(TVal::f64(v)),
            _ => Err(E::invalid_type(de::Unexpected::Float(v), &self)),
        }
    }
    fn visit_char<E: de::Error>(self, v: char) -> Result<TVal, E> {
        match self.0 {
            Ty::Char => Ok(TVal::Char(v)),
            Ty::Str => Ok(TVal::Str(v.to_string())),
            _ => Err(E::invalid_type(de::Unexpected::Char(v), &self)),
        }
    }
    fn visit_str<E: de::Error>(self, v: &str) -> Result<TVal, E> {
        match self.0 {
            Ty::Str => Ok(TVal::Str(v.to_string())),
            Ty::Char => {
                let mut it = v.chars();
                match (it.next(), it.next()) {
                    (Some(c), None) => Ok(TVal::Char(c)),
                    _ => Err(E::invalid_value(de::Unexpected::Str(v), &self)),
                }
            }
            _ => Err(E::invalid_type(de::Unexpected::Str(v), &self)),
        }
    }
    fn visit_bytes<E: de::Error>(self, v: &[u8]) -> Result<TVal, E> {
        match (self.0, std::str::from_utf8(v)) {
            (Ty::Str, Ok(s)) => Ok(TVal::Str(s.to_string())),
            _ => Err(E::invalid_type(de::Unexpected::Bytes(v), &self)),
        }
    }
}

struct BytesV;
impl<'de> Visitor<'de> for BytesV {
    type Value = TVal;
    fn expecting(&self, f: &mut fmt::Formatter) -> fmt::Result {
        f.write_str("byte array")
    }
    fn visit_bytes<E: de::Error>(self, v: &[u8]) -> Result<TVal, E> {
        Ok(TVal::Bytes(v.to_vec()))
    }
    fn visit_byte_buf<E: de::Error>(self, v: Vec<u8>) -> Result<TVal, E> {
        Ok(TVal::Bytes(v))
    }
    fn visit_str<E: de::Error>(self, v: &str) -> Result<TVal, E> {
        Ok(TVal::Bytes(v.as_bytes().to_vec()))
    }
    fn visit_seq<A: SeqAccess<'de>>(self, mut a: A) -> Result<TVal, A::Error> {
        let mut out = Vec::new();
        while let Some(b) = a.next_element::<u8>()? {
            out.push(b);
        }
        Ok(TVal::Bytes(out))
    }
}

struct UnitV(&'static str);
impl<'de> Visitor<'de> for UnitV {
    type Value = TVal;
    fn expecting(&self, f: &mut fmt::Formatter) -> fmt::Result {
        f.write_str(self.0)
    }
    fn visit_unit<E: de::Error>(self) -> Result<TVal, E> {
        Ok(TVal::Unit)
    }
}

struct OptV<'a>(&'a Ty);
impl<'de> Visitor<'de> for OptV<'_> {
    type Value = TVal;
    fn expecting(&self, f: &mut fmt::Formatter) -> fmt::Result {
        f.write_str("option")
    }
    fn visit_none<E: de::Error>(self) -> Result<TVal, E> {
        Ok(TVal::None)
    }
    fn visit_unit<E: de::Error>(self) -> Result<TVal, E> {
        Ok(TVal::None)
    }
    fn visit_some<D: Deserializer<'de>>(self, d: D) -> Result<TVal, D::Error> {
        SchemaSeed(self.0).deserialize(d).map(TVal::some)
    }
}

struct NewtypeV<'a>(&'a Ty);
impl<'de> Visitor<'de> for NewtypeV<'_> {
    type Value = TVal;
    fn expecting(&self, f: &mut fmt::Formatter) -> fmt::Result {
        f.write_str("newtype struct")
    }
    fn visit_newtype_struct<D: Deserializer<'de>>(self, d: D) -> Result<TVal, D::Error> {
        SchemaSeed(self.0).deserialize(d)
    }
    fn visit_seq<A: SeqAccess<'de>>(self, mut a: A) -> Result<TVal, A::Error> {
        match a.next_element_seed(SchemaSeed(self.0))? {
            Some(v) => Ok(v),
            None => Err(de::Error::invalid_length(0, &"tuple struct with 1 element")),
        }
    }
}

struct SeqV<'a>(&'a Ty);
impl<'de> Visitor<'de> for SeqV<'_> {
    type Value = TVal;
    fn expecting(&self, f: &mut fmt::Formatter) -> fmt::Result {
        f.write_str("a sequence")
    }
    fn visit_seq<A: SeqAccess<'de>>(self, mut a: A) -> Result<TVal, A::Error> {
        let mut out = Vec::new();
        while let Some(v) = a.next_element_seed(SchemaSeed(self.0))? {
            out.push(v);
        }
        Ok(TVal::Seq(out))
    }
}

/// Reads exactly N elements (like the std tuple impls and derived tuple structs);
/// does not look for a terminator.
struct TupleV<'a>(&'a [Ty], &'static str);
impl<'de> Visitor<'de> for TupleV<'_> {
    type Value = TVal;
    fn expecting(&self, f: &mut fmt::Formatter) -> fmt::Result {
        write!(f, "{} with {} elements", self.1, self.0.len())
    }
    fn visit_seq<A: SeqAccess<'de>>(self, mut a: A) -> Result<TVal, A::Error> {
        let mut out = Vec::with_capacity(self.0.len());
        for (i, t) in self.0.iter().enumerate() {
            match a.next_element_seed(SchemaSeed(t))? {
                Some(v) => out.push(v),
                None => return Err(de::Error::invalid_length(i, &self)),
            }
        }
        Ok(TVal::Tuple(out))
    }
}

struct MapV<'a>(&'a Ty, &'a Ty);
impl<'de> Visitor<'de> for MapV<'_> {
    type Value = TVal;
    fn expecting(&self, f: &mut fmt::Formatter) -> fmt::Result {
        f.write_str("a map")
    }
    fn visit_map<A: MapAccess<'de>>(self, mut a: A) -> Result<TVal, A::Error> {
        let mut out = Vec::new();
        while let Some(k) = a.next_key_seed(SchemaSeed(self.0))? {
            let v = a.next_value_seed(SchemaSeed(self.1))?;
            out.push((k, v));
        }
        Ok(TVal::Map(out))
    }
}

enum FieldId {
    Idx(usize),
    Ignore,
}

struct FieldIdSeed<'a>(&'a Fields);
impl<'de> DeserializeSeed<'de> for FieldIdSeed<'_> {
    type Value = FieldId;
    fn deserialize<D: Deserializer<'de>>(self, d: D) -> Result<FieldId, D::Error> {
        d.deserialize_identifier(self)
    }
}
impl<'de> Visitor<'de> for FieldIdSeed<'_> {
    type Value = FieldId;
    fn expecting(&self, f: &mut fmt::Formatter) -> fmt::Result {
        f.write_str("field identifier")
    }
    fn visit_u64<E: de::Error>(self, v: u64) -> Result<FieldId, E> {
        if (v as usize) < self.0.fields.len() {
            Ok(FieldId::Idx(v as usize))
        } else if self.0.deny_unknown {
            Err(E::invalid_value(de::Unexpected::Unsigned(v), &"field index"))
        } else {
            Ok(FieldId::Ignore)
        }
    }
    fn visit_str<E: de::Error>(self, v: &str) -> Result<FieldId, E> {
        match self.0.index_of(v) {
            Some(i) => Ok(FieldId::Idx(i)),
            None if self.0.deny_unknown => Err(E::unknown_field(v, self.0.names())),
            None => Ok(FieldId::Ignore),
        }
    }
    fn visit_bytes<E: de::Error>(self, v: &[u8]) -> Result<FieldId, E> {
        match std::str::from_utf8(v) {
            Ok(s) => self.visit_str(s),
            Err(_) if self.0.deny_unknown => Err(E::unknown_field(&String::from_utf8_lossy(v), self.0.names())),
            Err(_) => Ok(FieldId::Ignore),
        }
    }
}

struct FieldsV<'a>(&'a Fields, &'static str);
impl<'de> Visitor<'de> for FieldsV<'_> {
    type Value = TVal;
    fn expecting(&self, f: &mut fmt::Formatter) -> fmt::Result {
        write!(f, "{} with {} fields", self.1, self.0.fields.len())
    }
    fn visit_seq<A: SeqAccess<'de>>(self, mut a: A) -> Result<TVal, A::Error> {
        let mut out = Vec::new();
        for (i, f) in self.0.fields.iter().enumerate() {
            match a.next_element_seed(SchemaSeed(&f.ty))? {
                Some(v) => out.push(v),
                None => match f.default {
                    true => out.push(f.ty.default_val()),
                    false => return Err(de::Error::invalid_length(i, &self)),
                },
            }
        }
        Ok(TVal::Struct(out))
    }
    fn visit_map<A: MapAccess<'de>>(self, mut a: A) -> Result<TVal, A::Error> {
        let names = self.0.names();
        let mut slots: Vec<Option<TVal>> = vec![None; self.0.fields.len()];
        while let Some(id) = a.next_key_seed(FieldIdSeed(self.0))? {
            match id {
                FieldId::Idx(i) => {
                    if slots[i].is_some() {
                        return Err(de::Error::duplicate_field(names[i]));
                    }
                    slots[i] = Some(a.next_value_seed(SchemaSeed(&self.0.fields[i].ty))?);
                }
                FieldId::Ignore => {
                    a.next_value::<IgnoredAny>()?;
                }
            }
        }
        let mut out = Vec::with_capacity(slots.len());
        for (i, s) in slots.into_iter().enumerate() {
            match s {
                Some(v) => out.push(v),
                None => match self.0.missing_value(i) {
                    Some(v) => out.push(v),
                    None => return Err(de::Error::missing_field(names[i])),
                },
            }
        }
        Ok(TVal::Struct(out))
    }
}

struct VariantIdSeed<'a>(&'a EnumTy);
impl<'de> DeserializeSeed<'de> for VariantIdSeed<'_> {
    type Value = usize;
    fn deserialize<D: Deserializer<'de>>(self, d: D) -> Result<usize, D::Error> {
        d.deserialize_identifier(self)
    }
}
impl<'de> Visitor<'de> for VariantIdSeed<'_> {
    type Value = usize;
    fn expecting(&self, f: &mut fmt::Formatter) -> fmt::Result {
        f.write_str("variant identifier")
    }
    fn visit_u64<E: de::Error>(self, v: u64) -> Result<usize, E> {
        if (v as usize) < self.0.variants.len() {
            Ok(v as usize)
        } else {
            Err(E::invalid_value(de::Unexpected::Unsigned(v), &"variant index"))
        }
    }
    fn visit_str<E: de::Error>(self, v: &str) -> Result<usize, E> {
        self.0.index_of(v).ok_or_else(|| E::unknown_variant(v, self.0.names()))
    }
    fn visit_bytes<E: de::Error>(self, v: &[u8]) -> Result<usize, E> {
        let s = String::from_utf8_lossy(v);
        self.0.index_of(&s).ok_or_else(|| E::unknown_variant(&s, self.0.names()))
    }
}

struct EnumV<'a>(&'a EnumTy);
impl<'de> Visitor<'de> for EnumV<'_> {
    type Value = TVal;
    fn expecting(&self, f: &mut fmt::Formatter) -> fmt::Result {
        write!(f, "enum {}", self.0.name())
    }
    fn visit_enum<A: EnumAccess<'de>>(self, a: A) -> Result<TVal, A::Error> {
        let (i, va) = a.variant_seed(VariantIdSeed(self.0))?;
        let payload = match &self.0.variants[i] {
            VariantTy::Unit => {
                va.unit_variant()?;
                TVal::Unit
            }
            VariantTy::Newtype(t) => va.newtype_variant_seed(SchemaSeed(t))?,
            VariantTy::Tuple(ts) => va.tuple_variant(ts.len(), TupleV(ts, "tuple variant"))?,
            VariantTy::Struct(f) => va.struct_variant(f.names(), FieldsV(f, "struct variant"))?,
        };
        Ok(TVal::variant(i, payload))
    }
}

// ------------------------------------------------------------------ TSer

/// Dynamic `Serialize` for a value of a described type, using the static names
/// (serialize_struct / serialize_*_variant / serialize_tuple ...).
#[derive(Clone, Copy)]
pub struct TSer<'a>(pub &'a Ty, pub &'a TVal);

fn mismatch<E: ser::Error>(t: &Ty, v: &TVal) -> E {
    E::custom(format!("TSer: value {v:?} does not match type {t}"))
}

impl Serialize for TSer<'_> {
    fn serialize<S: Serializer>(&self, s: S) -> Result<S::Ok, S::Error> {
        let (t, v) = (self.0, self.1);
        match (t, v) {
            (Ty::Bool, TVal::Bool(b)) => s.serialize_bool(*b),
            (Ty::I8, TVal::I(i)) => s.serialize_i8(*i as i8),
            (Ty::I16, TVal::I(i)) => s.serialize_i16(*i as i16),
            (Ty::I32, TVal::I(i)) => s.serialize_i32(*i as i32),
            (Ty::I64, TVal::I(i)) => s.serialize_i64(*i as i64),
            (Ty::I128, TVal::I(i)) => s.serialize_i128(*i),
            (Ty::U8, TVal::U(u)) => s.serialize_u8(*u as u8),
            (Ty::U16, TVal::U(u)) => s.serialize_u16(*u as u16),
            (Ty::U32, TVal::U(u)) => s.serialize_u32(*u as u32),
            (Ty::U64, TVal::U(u)) => s.serialize_u64(*u as u64),
            (Ty::U128, TVal::U(u)) => s.serialize_u128(*u),
            (Ty::F32, TVal::F32(b)) => s.serialize_f32(f32::from_bits(*b)),
            (Ty::F64, TVal::F64(b)) => s.serialize_f64(f64::from_bits(*b)),
            (Ty::Char, TVal::Char(c)) => s.serialize_char(*c),
            (Ty::Str, TVal::Str(x)) => s.serialize_str(x),
            (Ty::Bytes, TVal::Bytes(b)) => s.serialize_bytes(b),
            (Ty::Unit, TVal::Unit) => s.serialize_unit(),
            (Ty::Option(_), TVal::None) => s.serialize_none(),
            (Ty::Option(inner), TVal::Some(x)) => s.serialize_some(&TSer(inner, x)),
            (Ty::UnitStruct(n), TVal::Unit) => s.serialize_unit_struct(STRUCT_NAMES[*n as usize]),
            (Ty::Newtype(n, inner), x) => s.serialize_newtype_struct(STRUCT_NAMES[*n as usize], &TSer(inner, x)),
            (Ty::Seq(inner), TVal::Seq(xs)) => {
                let mut q = s.serialize_seq(Some(xs.len()))?;
                for x in xs {
                    q.serialize_element(&TSer(inner, x))?;
                }
                q.end()
            }
            (Ty::Tuple(ts), TVal::Tuple(xs)) if ts.len() == xs.len() => {
                let mut q = s.serialize_tuple(ts.len())?;
                for (t, x) in ts.iter().zip(xs) {
                    q.serialize_element(&TSer(t, x))?;
                }
                q.end()
            }
            (Ty::TupleStruct(n, ts), TVal::Tuple(xs)) if ts.len() == xs.len() => {
                let mut q = s.serialize_tuple_struct(STRUCT_NAMES[*n as usize], ts.len())?;
                for (t, x) in ts.iter().zip(xs) {
                    q.serialize_field(&TSer(t, x))?;
                }
                q.end()
            }
            (Ty::Map(k, w), TVal::Map(ps)) => {
                let mut q = s.serialize_map(Some(ps.len()))?;
                for (a, b) in ps {
                    q.serialize_entry(&TSer(k, a), &TSer(w, b))?;
                }
                q.end()
            }
            (Ty::Struct(st), TVal::Struct(xs)) if st.body.fields.len() == xs.len() => {
                let mut q = s.serialize_struct(st.name(), xs.len())?;
                for (i, (f, x)) in st.body.fields.iter().zip(xs).enumerate() {
                    q.serialize_field(FIELD_NAMES[i], &TSer(&f.ty, x))?;
                }
                q.end()
            }
            (Ty::Enum(e), TVal::Variant(i, p)) if (*i as usize) < e.variants.len() => {
                let idx = *i as usize;
                let vname = e.names()[idx];
                match (&e.variants[idx], &**p) {
                    (VariantTy::Unit, TVal::Unit) => s.serialize_unit_variant(e.name(), idx as u32, vname),
                    (VariantTy::Newtype(t), x) => s.serialize_newtype_variant(e.name(), idx as u32, vname, &TSer(t, x)),
                    (VariantTy::Tuple(ts), TVal::Tuple(xs)) if ts.len() == xs.len() => {
                        let mut q = s.serialize_tuple_variant(e.name(), idx as u32, vname, ts.len())?;
                        for (t, x) in ts.iter().zip(xs) {
                            q.serialize_field(&TSer(t, x))?;
                        }
                        q.end()
                    }
                    (VariantTy::Struct(f), TVal::Struct(xs)) if f.fields.len() == xs.len() => {
                        let mut q = s.serialize_struct_variant(e.name(), idx as u32, vname, xs.len())?;
                        for (i, (f, x)) in f.fields.iter().zip(xs).enumerate() {
                            q.serialize_field(FIELD_NAMES[i], &TSer(&f.ty, x))?;
                        }
                        q.end()
                    }
                    _ => Err(mismatch(t, v)),
                }
            }
            _ => Err(mismatch(t, v)),
        }
    }
}

// ------------------------------------------------------------------ random generation

/// Knobs for `random_ty_with`.
#[derive(Clone, Debug)]
pub struct TyCfg {
    /// allow `Option<Option<_>>`, `Option<()>`, `Option<UnitStruct>` (not representable in YAML)
    pub nullable_in_option: bool,
    /// allow `#[serde(default)]` fields
    pub defaults: bool,
    /// allow `deny_unknown_fields`
    pub deny_unknown: bool,
    /// allow `Bytes`
    pub bytes: bool,
    /// allow f32/f64 leaves
    pub floats: bool,
}

impl Default for TyCfg {
    fn default() -> Self {
        TyCfg { nullable_in_option: false, defaults: true, deny_unknown: true, bytes: true, floats: true }
    }
}

pub const SCALAR_TYS: &[Ty] = &[
    Ty::Bool,
    Ty::I8,
    Ty::I16,
    Ty::I32,
    Ty::I64,
    Ty::I128,
    Ty::U8,
    Ty::U16,
    Ty::U32,
    Ty::U64,
    Ty::U128,
    Ty::F32,
    Ty::F64,
    Ty::Char,
    Ty::Str,
];

fn random_scalar_ty(rng: &mut Rng, cfg: &TyCfg) -> Ty {
    loop {
        let t = match rng.below(10) {
            0..=2 => Ty::Str,
            3..=4 => Ty::I32,
            5 => Ty::Bool,
            6 => {
                if cfg.bytes && rng.chance(1, 4) {
                    Ty::Bytes
                } else {
                    Ty::Unit
                }
            }
            _ => rng.pick(SCALAR_TYS).clone(),
        };
        if !cfg.floats && matches!(t, Ty::F32 | Ty::F64) {
            continue;
        }
        return t;
    }
}

/// Key types of maps: string / int / bool / char / tuple / struct keys.
pub fn random_key_ty(rng: &mut Rng) -> Ty {
    match rng.below(12) {
        0..=5 => Ty::Str,
        6 => Ty::I32,
        7 => rng.pick(&[Ty::U8, Ty::I64, Ty::U64, Ty::I16]).clone(),
        8 => Ty::Bool,
        9 => Ty::Char,
        10 => Ty::Tuple(vec![Ty::I32, Ty::Str]),
        _ => Ty::strukt(rng.below(8) as u8, vec![Ty::I32, Ty::Str], false),
    }
}

fn random_fields(rng: &mut Rng, depth: usize, cfg: &TyCfg) -> Fields {
    let n = rng.range(1, 4);
    let mut fields = Vec::new();
    for _ in 0..n {
        let ty = random_ty_with(rng, depth, cfg);
        let can_default = match ty.peel_newtypes() {
            Ty::Enum(e) => matches!(e.variants[0], VariantTy::Unit),
            _ => true,
        };
        let default = cfg.defaults && can_default && rng.chance(1, 5);
        fields.push(FieldTy { ty, default });
    }
    Fields { fields, deny_unknown: cfg.deny_unknown && rng.chance(1, 3) }
}

/// Random representable type of nesting depth <= `depth` (depth 1 = scalar).
pub fn random_ty(rng: &mut Rng, depth: usize) -> Ty {
    random_ty_with(rng, depth, &TyCfg::default())
}

pub fn random_ty_with(rng: &mut Rng, depth: usize, cfg: &TyCfg) -> Ty {
    if depth <= 1 {
        return match rng.below(12) {
            0 => Ty::UnitStruct(rng.below(8) as u8),
            1 => {
                // unit-only enum
                let n = rng.range(1, 3);
                Ty::enumeration(rng.below(8) as u8, rng.below(6) as u8, vec![VariantTy::Unit; n])
            }
            _ => random_scalar_ty(rng, cfg),
        };
    }
    let d = depth - 1;
    match rng.below(16) {
        0 | 1 => {
            let inner = random_ty_with(rng, d, cfg);
            if inner.absorbs_null() && !cfg.nullable_in_option { inner } else { Ty::opt(inner) }
        }
        2 => Ty::newtype(rng.below(8) as u8, random_ty_with(rng, d, cfg)),
        3 | 4 => Ty::seq(random_ty_with(rng, d, cfg)),
        5 | 6 => {
            let n = rng.range(1, 4);
            Ty::Tuple((0..n).map(|_| random_ty_with(rng, d, cfg)).collect())
        }
        7 => {
            let n = rng.range(2, 3);
            Ty::TupleStruct(rng.below(8) as u8, (0..n).map(|_| random_ty_with(rng, d, cfg)).collect())
        }
        8 | 9 => Ty::map(random_key_ty(rng), random_ty_with(rng, d, cfg)),
        10..=12 => Ty::Struct(StructTy { name: rng.below(8) as u8, body: random_fields(rng, d, cfg) }),
        _ => {
            let n = rng.range(1, 4);
            let mut variants = Vec::new();
            for _ in 0..n {
                variants.push(match rng.below(5) {
                    0 => VariantTy::Unit,
                    1 | 2 => VariantTy::Newtype(random_ty_with(rng, d, cfg)),
                    3 => {
                        let k = rng.range(2, 3);
                        VariantTy::Tuple((0..k).map(|_| random_ty_with(rng, d, cfg)).collect())
                    }
                    _ => VariantTy::Struct(random_fields(rng, d, cfg)),
                });
            }
            Ty::enumeration(rng.below(8) as u8, rng.below(6) as u8, variants)
        }
    }
}

pub const STR_POOL: &[&str] = &[
    "", "a", "s17", "hello world", "two\nlines", "trail\n", " lead", "x: y", "- z", "#c", "true", "null", "~", "12", "1.5",
    "'q'", "\"d\"", "é✓", "a\tb", "k,[]{}", "*a", "&b", "!t", "| lit", "> fold", "%d", "@at", "`bt", "line1\n\nline3\n",
    "very long word abcdefghijklmnopqrstuvwxyz0123456789abcdefghijklmnopqrstuvwxyz0123456789 and more text to pass eighty chars",
];

fn random_int(rng: &mut Rng, t: &Ty) -> TVal {
    let small = rng.below(200) as i128;
    if t.is_signed() {
        let v = match rng.below(8) {
            0 => t.int_min(),
            1 => t.uint_max() as i128,
            2 => 0,
            3 => -1,
            4 | 5 => (small - 100).clamp(t.int_min(), t.uint_max() as i128),
            _ => {
                let span = t.uint_max();
                let r = ((rng.next_u64() as u128) << 64 | rng.next_u64() as u128) & span;
                if rng.bool() { r as i128 } else { -(r as i128) - 1 }
            }
        };
        TVal::I(v)
    } else {
        let v = match rng.below(6) {
            0 => 0,
            1 => t.uint_max(),
            2 | 3 => (small as u128).min(t.uint_max()),
            _ => ((rng.next_u64() as u128) << 64 | rng.next_u64() as u128) & t.uint_max(),
        };
        TVal::U(v)
    }
}

fn random_fields_val(rng: &mut Rng, f: &Fields) -> TVal {
    TVal::Struct(f.fields.iter().map(|x| random_val(rng, &x.ty)).collect())
}

/// Random well-typed value. Map keys are pairwise distinct.
pub fn random_val(rng: &mut Rng, t: &Ty) -> TVal {
    match t {
        Ty::Bool => TVal::Bool(rng.bool()),
        t if t.is_int() => random_int(rng, t),
        Ty::F32 => TVal::f32(*rng.pick(&[0.0f32, -0.0, 1.5, -2.25, 1e-7, 3.4e38, f32::INFINITY, f32::NEG_INFINITY, f32::NAN, 0.1, 16777217.0])),
        Ty::F64 => TVal::f64(*rng.pick(&[0.0f64, -0.0, 1.5, -2.25, 1e-300, 1.7e308, f64::INFINITY, f64::NEG_INFINITY, f64::NAN, 0.1, 1e21, 123456789.125])),
        Ty::Char => TVal::Char(*rng.pick(&['a', 'Z', '0', ' ', '\n', '\'', '"', ':', '#', 'é', '✓', '~', '-', '\t'])),
        Ty::Str => TVal::Str(if rng.chance(1, 2) { format!("s{}", rng.below(10000)) } else { rng.pick(STR_POOL).to_string() }),
        Ty::Bytes => {
            let n = rng.below(6);
            TVal::Bytes((0..n).map(|_| rng.below(256) as u8).collect())
        }
        Ty::Unit | Ty::UnitStruct(_) => TVal::Unit,
        Ty::Option(inner) => {
            if rng.chance(1, 3) {
                TVal::None
            } else {
                TVal::some(random_val(rng, inner))
            }
        }
        Ty::Newtype(_, inner) => random_val(rng, inner),
        Ty::Seq(inner) => {
            let n = rng.below(4);
            TVal::Seq((0..n).map(|_| random_val(rng, inner)).collect())
        }
        Ty::Tuple(ts) | Ty::TupleStruct(_, ts) => TVal::Tuple(ts.iter().map(|t| random_val(rng, t)).collect()),
        Ty::Map(k, v) => {
            let n = rng.below(4);
            let mut ps: Vec<(TVal, TVal)> = Vec::new();
            for _ in 0..n {
                let key = random_val(rng, k);
                if ps.iter().any(|(a, _)| *a == key) {
                    continue;
                }
                let val = random_val(rng, v);
                ps.push((key, val));
            }
            TVal::Map(ps)
        }
        Ty::Struct(s) => random_fields_val(rng, &s.body),
        Ty::Enum(e) => {
            let i = rng.below(e.variants.len());
            let p = match &e.variants[i] {
                VariantTy::Unit => TVal::Unit,
                VariantTy::Newtype(t) => random_val(rng, t),
                VariantTy::Tuple(ts) => TVal::Tuple(ts.iter().map(|t| random_val(rng, t)).collect()),
                VariantTy::Struct(f) => random_fields_val(rng, f),
            };
            TVal::variant(i, p)
        }
        _ => unreachable!(),
    }
}

// ------------------------------------------------------------------ exhaustive small enumeration

/// Grammar of the exhaustive type enumerator. A type of `n` nodes is a leaf
/// (n = 1), a unary constructor over a type of n-1 nodes, or a binary
/// constructor over two types whose node counts sum to n-1.
///
/// Unary: `Option<T>`, `S0(T)`, `Vec<T>`, `Map<K, T>` for every `keys` K,
/// `S1{f0: T}` (and the deny_unknown_fields twin if `deny`), `E1[V0 | V1(T)]`,
/// `E2[V0 | V1{f0: T}]`.
/// Binary: `(T, U)`, `S2(T, U)`, `S3{f0: T, f1: U}` (+ deny twin), `E3[V0 | V1(T, U)]`.
#[derive(Clone, Debug)]
pub struct TyGrammar {
    pub leaves: Vec<Ty>,
    pub keys: Vec<Ty>,
    pub deny: bool,
    /// keep `Option<T>` where T absorbs null (Option<Option<_>>, Option<()>)
    pub nullable_in_option: bool,
}

impl TyGrammar {
    /// The C13 shape grammar: every data-model shape in every parent position.
    pub fn full() -> TyGrammar {
        TyGrammar {
            leaves: vec![
                Ty::Bool,
                Ty::I32,
                Ty::F64,
                Ty::Char,
                Ty::Str,
                Ty::Unit,
                Ty::UnitStruct(4),
                Ty::enumeration(0, 0, vec![VariantTy::Unit, VariantTy::Unit]),
            ],
            keys: vec![
                Ty::Str,
                Ty::I32,
                Ty::Bool,
                Ty::Char,
                Ty::Tuple(vec![Ty::I32, Ty::Str]),
                Ty::strukt(5, vec![Ty::I32], false),
            ],
            deny: false,
            nullable_in_option: false,
        }
    }
    /// Reduced grammar (4 leaves, string keys) with deny_unknown twins and nullable options.
    pub fn small() -> TyGrammar {
        TyGrammar {
            leaves: vec![Ty::I32, Ty::Str, Ty::Unit, Ty::enumeration(0, 0, vec![VariantTy::Unit, VariantTy::Unit])],
            keys: vec![Ty::Str],
            deny: true,
            nullable_in_option: true,
        }
    }
}

/// All types with exactly `n` nodes, per grammar (index 0 unused). `out[k]` = types of k nodes.
pub fn small_tys_by_size(max_nodes: usize, g: &TyGrammar) -> Vec<Vec<Ty>> {
    let mut by: Vec<Vec<Ty>> = vec![Vec::new(); max_nodes + 1];
    if max_nodes >= 1 {
        by[1] = g.leaves.clone();
    }
    for n in 2..=max_nodes {
        let mut cur = Vec::new();
        for t in by[n - 1].clone() {
            if g.nullable_in_option || !t.absorbs_null() {
                cur.push(Ty::opt(t.clone()));
            }
            cur.push(Ty::newtype(0, t.clone()));
            cur.push(Ty::seq(t.clone()));
            for k in &g.keys {
                cur.push(Ty::map(k.clone(), t.clone()));
            }
            cur.push(Ty::strukt(1, vec![t.clone()], false));
            if g.deny {
                cur.push(Ty::strukt(1, vec![t.clone()], true));
            }
            cur.push(Ty::enumeration(1, 0, vec![VariantTy::Unit, VariantTy::Newtype(t.clone())]));
            cur.push(Ty::enumeration(2, 0, vec![VariantTy::Unit, VariantTy::Struct(Fields::new(vec![t.clone()], false))]));
        }
        for a in 1..n - 1 {
            let b = n - 1 - a;
            if b < 1 {
                continue;
            }
            for t in &by[a] {
                for u in &by[b] {
                    let pair = vec![t.clone(), u.clone()];
                    cur.push(Ty::Tuple(pair.clone()));
                    cur.push(Ty::TupleStruct(2, pair.clone()));
                    cur.push(Ty::strukt(3, pair.clone(), false));
                    if g.deny {
                        cur.push(Ty::strukt(3, pair.clone(), true));
                    }
                    cur.push(Ty::enumeration(3, 0, vec![VariantTy::Unit, VariantTy::Tuple(pair)]));
                }
            }
        }
        by[n] = cur;
    }
    by
}

/// All types with <= `max_nodes` nodes.
pub fn small_tys(max_nodes: usize, g: &TyGrammar) -> Vec<Ty> {
    small_tys_by_size(max_nodes, g).into_iter().flatten().collect()
}

/// Leaf value pools of the exhaustive value enumerator.
fn small_leaf_vals(t: &Ty) -> Vec<TVal> {
    match t {
        Ty::Bool => vec![TVal::Bool(true), TVal::Bool(false)],
        t if t.is_signed() => vec![TVal::I(0), TVal::I(-7), TVal::I(117)],
        t if t.is_unsigned() => vec![TVal::U(0), TVal::U(117)],
        Ty::F32 => vec![TVal::f32(0.0), TVal::f32(-1.5)],
        Ty::F64 => vec![TVal::f64(0.0), TVal::f64(-1.5), TVal::f64(1e21)],
        Ty::Char => vec![TVal::Char('a'), TVal::Char(' '), TVal::Char(':')],
        Ty::Str => vec![
            TVal::Str(String::new()),
            TVal::Str("s17".into()),
            TVal::Str("two\nlines".into()),
            TVal::Str("x: y".into()),
            TVal::Str("null".into()),
        ],
        Ty::Bytes => vec![TVal::Bytes(vec![]), TVal::Bytes(vec![1, 2, 255])],
        Ty::Unit | Ty::UnitStruct(_) => vec![TVal::Unit],
        _ => unreachable!(),
    }
}

/// Cartesian product of value lists, truncated to `cap` (evenly strided when larger).
fn product(lists: &[Vec<TVal>], cap: usize, complete: &mut bool) -> Vec<Vec<TVal>> {
    let total: u128 = lists.iter().map(|l| l.len() as u128).product();
    if lists.iter().any(|l| l.is_empty()) {
        return Vec::new();
    }
    let take = (total.min(cap as u128)) as usize;
    if total > cap as u128 {
        *complete = false;
    }
    let mut out = Vec::with_capacity(take);
    for j in 0..take {
        // index of the j-th selected tuple
        let mut idx = if total > cap as u128 { (j as u128 * total) / take as u128 } else { j as u128 };
        let mut row = Vec::with_capacity(lists.len());
        for l in lists.iter().rev() {
            row.push(l[(idx % l.len() as u128) as usize].clone());
            idx /= l.len() as u128;
        }
        row.reverse();
        out.push(row);
    }
    out
}

fn small_fields_vals(f: &Fields, cap: usize, complete: &mut bool) -> Vec<TVal> {
    let lists: Vec<Vec<TVal>> = f.fields.iter().map(|x| small_vals_inner(&x.ty, cap, complete)).collect();
    product(&lists, cap, complete).into_iter().map(TVal::Struct).collect()
}

fn small_vals_inner(t: &Ty, cap: usize, complete: &mut bool) -> Vec<TVal> {
    let mut out = match t {
        t if t.is_scalar() => small_leaf_vals(t),
        Ty::Option(inner) => {
            let mut v = vec![TVal::None];
            v.extend(small_vals_inner(inner, cap, complete).into_iter().map(TVal::some));
            v
        }
        Ty::Newtype(_, inner) => small_vals_inner(inner, cap, complete),
        Ty::Seq(inner) => {
            let xs = small_vals_inner(inner, cap, complete);
            let mut v = vec![TVal::Seq(vec![])];
            v.extend(xs.iter().map(|x| TVal::Seq(vec![x.clone()])));
            v.extend(product(&[xs.clone(), xs], cap, complete).into_iter().map(TVal::Seq));
            v
        }
        Ty::Tuple(ts) | Ty::TupleStruct(_, ts) => {
            let lists: Vec<Vec<TVal>> = ts.iter().map(|t| small_vals_inner(t, cap, complete)).collect();
            product(&lists, cap, complete).into_iter().map(TVal::Tuple).collect()
        }
        Ty::Map(k, w) => {
            let ks = small_vals_inner(k, cap, complete);
            let ws = small_vals_inner(w, cap, complete);
            let mut v = vec![TVal::Map(vec![])];
            for row in product(&[ks.clone(), ws.clone()], cap, complete) {
                v.push(TVal::Map(vec![(row[0].clone(), row[1].clone())]));
            }
            // two entries: distinct keys only
            for row in product(&[ks.clone(), ws.clone(), ks, ws], cap, complete) {
                if row[0] != row[2] {
                    v.push(TVal::Map(vec![(row[0].clone(), row[1].clone()), (row[2].clone(), row[3].clone())]));
                }
            }
            v
        }
        Ty::Struct(s) => small_fields_vals(&s.body, cap, complete),
        Ty::Enum(e) => {
            let mut v = Vec::new();
            for (i, var) in e.variants.iter().enumerate() {
                let ps: Vec<TVal> = match var {
                    VariantTy::Unit => vec![TVal::Unit],
                    VariantTy::Newtype(t) => small_vals_inner(t, cap, complete),
                    VariantTy::Tuple(ts) => {
                        let lists: Vec<Vec<TVal>> = ts.iter().map(|t| small_vals_inner(t, cap, complete)).collect();
                        product(&lists, cap, complete).into_iter().map(TVal::Tuple).collect()
                    }
                    VariantTy::Struct(f) => small_fields_vals(f, cap, complete),
                };
                v.extend(ps.into_iter().map(|p| TVal::variant(i, p)));
            }
            v
        }
        _ => unreachable!(),
    };
    if out.len() > cap {
        *complete = false;
        let n = out.len();
        out = (0..cap).map(|j| out[j * n / cap].clone()).collect();
    }
    out
}

/// Small values of `t`: leaves from fixed pools, options none/some, sequences and
/// maps of length 0..=2 (distinct keys), every variant; every list is truncated to
/// `cap` (evenly strided). Returns the values and whether nothing was truncated.
pub fn small_vals(t: &Ty, cap: usize) -> (Vec<TVal>, bool) {
    let mut complete = true;
    let v = small_vals_inner(t, cap.max(1), &mut complete);
    (v, complete)
}

/// All (type, value) pairs: types with <= `max_nodes` nodes of the grammar, values per `small_vals`.
pub fn small_pairs(max_nodes: usize, g: &TyGrammar, cap_per_ty: usize) -> Vec<(Ty, TVal)> {
    let mut out = Vec::new();
    for t in small_tys(max_nodes, g) {
        for v in small_vals(&t, cap_per_ty).0 {
            out.push((t.clone(), v));
        }
    }
    out
}
