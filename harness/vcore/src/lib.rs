//! vcore: shared machinery for the runtime-monitoring checks of serde-saphyr.
pub mod aliasgen;
pub mod budgetmodel;
pub mod capped;
pub mod errs;
pub mod hooks;
pub mod obs;
pub mod rdr;
pub mod refscalar;
pub mod reftree;
pub mod rng;
pub mod scalarcorpus;
pub mod targets;
pub mod treegen;
pub mod run;
pub mod val;
pub mod ty;
pub mod tygen;
pub mod ydoc;

pub use rng::{Rng, fnv, fnv_parts};
pub use run::{Finish, Run, Tier, par_range, par_range_chunk};
pub use val::Val;
