//! Ground truth: the raw `saphyr-parser` event stream folded into a tree.
//! All reference semantics (alias expansion by anchor id, merge precedence,
//! event counting) are functions over this tree, i.e. over what the parser
//! actually reported for the input — not over what a generator intended.

use crate::ydoc::{Node, Style};
use saphyr_parser::{Event, Parser, ScalarStyle};

#[derive(Clone, Copy, Debug, PartialEq, Eq, Default)]
pub struct Pos {
    pub index: usize, // char index
    pub line: usize,  // 1-based
    pub col: usize,   // 0-based
    pub byte: Option<usize>,
    pub end_index: usize,
    pub end_byte: Option<usize>,
}

#[derive(Clone, Debug, PartialEq)]
pub enum RNode {
    Scalar { value: String, style: ScalarStyle, tag: Option<String>, anchor: usize, pos: Pos },
    Seq { items: Vec<RNode>, tag: Option<String>, anchor: usize, pos: Pos },
    Map { entries: Vec<(RNode, RNode)>, tag: Option<String>, anchor: usize, pos: Pos },
    Alias { id: usize, pos: Pos },
}

#[derive(Clone, Debug)]
pub struct RDoc {
    pub root: Option<RNode>,
    pub explicit: bool,
}

#[derive(Clone, Debug)]
pub struct RawEvent {
    pub kind: RawKind,
    pub pos: Pos,
}

#[derive(Clone, Debug, PartialEq)]
pub enum RawKind {
    StreamStart,
    StreamEnd,
    DocStart(bool),
    DocEnd,
    Alias(usize),
    Scalar { value: String, style: ScalarStyle, anchor: usize, tag: Option<String> },
    SeqStart { anchor: usize, tag: Option<String> },
    SeqEnd,
    MapStart { anchor: usize, tag: Option<String> },
    MapEnd,
    Nothing,
}

#[derive(Clone, Debug)]
pub struct ScanErr {
    pub info: String,
    pub index: usize,
    pub line: usize,
    pub col: usize,
    /// events successfully produced before the error
    pub events_before: usize,
}

fn pos_of(span: &saphyr_parser::Span) -> Pos {
    Pos {
        index: span.start.index(),
        line: span.start.line(),
        col: span.start.col(),
        byte: span.start.byte_offset(),
        end_index: span.end.index(),
        end_byte: span.end.byte_offset(),
    }
}

/// All raw events of `input` (BOM must already be stripped by the caller if the
/// comparison is with serde-saphyr, which strips one leading BOM).
pub fn raw_events(input: &str) -> (Vec<RawEvent>, Option<ScanErr>) {
    let mut out = Vec::new();
    let mut p = Parser::new_from_str(input);
    loop {
        match p.next() {
            None => return (out, None),
            Some(Err(e)) => {
                let m = e.marker();
                let err = ScanErr {
                    info: e.info().to_string(),
                    index: m.index(),
                    line: m.line(),
                    col: m.col(),
                    events_before: out.len(),
                };
                return (out, Some(err));
            }
            Some(Ok((ev, span))) => {
                let pos = pos_of(&span);
                let tag_s = |t: &Option<std::borrow::Cow<saphyr_parser::Tag>>| t.as_ref().map(|t| norm_tag(&t.to_string()));
                let kind = match ev {
                    Event::Nothing => RawKind::Nothing,
                    Event::StreamStart => RawKind::StreamStart,
                    Event::StreamEnd => RawKind::StreamEnd,
                    Event::DocumentStart(b) => RawKind::DocStart(b),
                    Event::DocumentEnd => RawKind::DocEnd,
                    Event::Alias(id) => RawKind::Alias(id),
                    Event::Scalar(v, style, a, t) => {
                        RawKind::Scalar { value: v.into_owned(), style, anchor: a, tag: tag_s(&t) }
                    }
                    Event::SequenceStart(a, t) => RawKind::SeqStart { anchor: a, tag: tag_s(&t) },
                    Event::SequenceEnd => RawKind::SeqEnd,
                    Event::MappingStart(a, t) => RawKind::MapStart { anchor: a, tag: tag_s(&t) },
                    Event::MappingEnd => RawKind::MapEnd,
                };
                let end = matches!(kind, RawKind::StreamEnd);
                out.push(RawEvent { kind, pos });
                if end {
                    return (out, None);
                }
            }
        }
    }
}

/// Fold raw events into documents. Returns `Err` on a scan error or a malformed
/// event stream.
pub fn parse_stream(input: &str) -> Result<Vec<RDoc>, ScanErr> {
    let (evs, err) = raw_events(input);
    if let Some(e) = err {
        return Err(e);
    }
    let mut docs = Vec::new();
    let mut i = 0;
    fn node(evs: &[RawEvent], i: &mut usize) -> Option<RNode> {
        let e = evs.get(*i)?;
        *i += 1;
        match &e.kind {
            RawKind::Alias(id) => Some(RNode::Alias { id: *id, pos: e.pos }),
            RawKind::Scalar { value, style, anchor, tag } => Some(RNode::Scalar {
                value: value.clone(),
                style: *style,
                tag: tag.clone(),
                anchor: *anchor,
                pos: e.pos,
            }),
            RawKind::SeqStart { anchor, tag } => {
                let mut items = Vec::new();
                loop {
                    if matches!(evs.get(*i)?.kind, RawKind::SeqEnd) {
                        *i += 1;
                        break;
                    }
                    items.push(node(evs, i)?);
                }
                Some(RNode::Seq { items, tag: tag.clone(), anchor: *anchor, pos: e.pos })
            }
            RawKind::MapStart { anchor, tag } => {
                let mut entries = Vec::new();
                loop {
                    if matches!(evs.get(*i)?.kind, RawKind::MapEnd) {
                        *i += 1;
                        break;
                    }
                    let k = node(evs, i)?;
                    let v = node(evs, i)?;
                    entries.push((k, v));
                }
                Some(RNode::Map { entries, tag: tag.clone(), anchor: *anchor, pos: e.pos })
            }
            _ => None,
        }
    }
    let bad = |i: usize| ScanErr { info: "malformed event stream".into(), index: 0, line: 0, col: 0, events_before: i };
    while i < evs.len() {
        match &evs[i].kind {
            RawKind::StreamStart | RawKind::Nothing => i += 1,
            RawKind::StreamEnd => break,
            RawKind::DocStart(explicit) => {
                i += 1;
                let root = if matches!(evs.get(i).map(|e| &e.kind), Some(RawKind::DocEnd)) {
                    None
                } else {
                    Some(node(&evs, &mut i).ok_or_else(|| bad(i))?)
                };
                match evs.get(i).map(|e| &e.kind) {
                    Some(RawKind::DocEnd) => i += 1,
                    _ => return Err(bad(i)),
                }
                docs.push(RDoc { root, explicit: *explicit });
            }
            _ => return Err(bad(i)),
        }
    }
    Ok(docs)
}

/// Exactly one document with a root node.
pub fn parse_one(input: &str) -> Option<RNode> {
    let mut d = parse_stream(input).ok()?;
    if d.len() != 1 {
        return None;
    }
    d.pop()?.root
}

impl RNode {
    pub fn pos(&self) -> Pos {
        match self {
            RNode::Scalar { pos, .. } | RNode::Seq { pos, .. } | RNode::Map { pos, .. } | RNode::Alias { pos, .. } => *pos,
        }
    }
    pub fn anchor(&self) -> usize {
        match self {
            RNode::Scalar { anchor, .. } | RNode::Seq { anchor, .. } | RNode::Map { anchor, .. } => *anchor,
            RNode::Alias { .. } => 0,
        }
    }
    pub fn has_alias(&self) -> bool {
        match self {
            RNode::Alias { .. } => true,
            RNode::Seq { items, .. } => items.iter().any(|n| n.has_alias()),
            RNode::Map { entries, .. } => entries.iter().any(|(k, v)| k.has_alias() || v.has_alias()),
            _ => false,
        }
    }
    pub fn has_anchor(&self) -> bool {
        if self.anchor() != 0 {
            return true;
        }
        match self {
            RNode::Seq { items, .. } => items.iter().any(|n| n.has_anchor()),
            RNode::Map { entries, .. } => entries.iter().any(|(k, v)| k.has_anchor() || v.has_anchor()),
            _ => false,
        }
    }
    /// Number of parser events this node stands for (alias = 1).
    pub fn event_count(&self) -> usize {
        match self {
            RNode::Scalar { .. } | RNode::Alias { .. } => 1,
            RNode::Seq { items, .. } => 2 + items.iter().map(|n| n.event_count()).sum::<usize>(),
            RNode::Map { entries, .. } => {
                2 + entries.iter().map(|(k, v)| k.event_count() + v.event_count()).sum::<usize>()
            }
        }
    }
    /// Expand aliases by anchor id. `None` when an alias refers to an id that is
    /// not (yet) defined in this document or is still open.
    pub fn expand(&self) -> Option<RNode> {
        use std::collections::HashMap;
        fn go(n: &RNode, env: &mut HashMap<usize, Option<RNode>>) -> Option<RNode> {
            match n {
                RNode::Alias { id, .. } => env.get(id)?.clone(),
                RNode::Scalar { value, style, tag, anchor, pos } => {
                    let out = RNode::Scalar { value: value.clone(), style: *style, tag: tag.clone(), anchor: 0, pos: *pos };
                    if *anchor != 0 {
                        env.insert(*anchor, Some(out.clone()));
                    }
                    Some(out)
                }
                RNode::Seq { items, tag, anchor, pos } => {
                    if *anchor != 0 {
                        env.insert(*anchor, None);
                    }
                    let mut v = Vec::new();
                    for i in items {
                        v.push(go(i, env)?);
                    }
                    let out = RNode::Seq { items: v, tag: tag.clone(), anchor: 0, pos: *pos };
                    if *anchor != 0 {
                        env.insert(*anchor, Some(out.clone()));
                    }
                    Some(out)
                }
                RNode::Map { entries, tag, anchor, pos } => {
                    if *anchor != 0 {
                        env.insert(*anchor, None);
                    }
                    let mut v = Vec::new();
                    for (k, x) in entries {
                        let k2 = go(k, env)?;
                        let x2 = go(x, env)?;
                        v.push((k2, x2));
                    }
                    let out = RNode::Map { entries: v, tag: tag.clone(), anchor: 0, pos: *pos };
                    if *anchor != 0 {
                        env.insert(*anchor, Some(out.clone()));
                    }
                    Some(out)
                }
            }
        }
        let mut env = HashMap::new();
        go(self, &mut env)
    }
    /// Structure without positions/anchors, for comparing two parses.
    pub fn shape(&self) -> String {
        match self {
            RNode::Alias { id, .. } => format!("*{id}"),
            RNode::Scalar { value, style, tag, .. } => {
                format!("{}{:?}{}", tag.as_deref().unwrap_or(""), value, style_char(*style))
            }
            RNode::Seq { items, tag, .. } => {
                let v: Vec<String> = items.iter().map(|n| n.shape()).collect();
                format!("{}[{}]", tag.as_deref().unwrap_or(""), v.join(","))
            }
            RNode::Map { entries, tag, .. } => {
                let v: Vec<String> = entries.iter().map(|(k, x)| format!("{}:{}", k.shape(), x.shape())).collect();
                format!("{}{{{}}}", tag.as_deref().unwrap_or(""), v.join(","))
            }
        }
    }
    /// Convert to a generator node (anchors named `a<id>`), e.g. to re-render.
    pub fn to_node(&self, flow: bool) -> Node {
        let an = |a: usize| if a == 0 { None } else { Some(format!("a{a}")) };
        match self {
            RNode::Alias { id, .. } => Node::Alias(format!("a{id}")),
            RNode::Scalar { value, style, tag, anchor, .. } => Node::Scalar {
                text: value.clone(),
                style: style_of(*style),
                tag: tag.clone(),
                anchor: an(*anchor),
            },
            RNode::Seq { items, tag, anchor, .. } => Node::Seq {
                items: items.iter().map(|n| n.to_node(flow)).collect(),
                flow,
                tag: tag.clone(),
                anchor: an(*anchor),
            },
            RNode::Map { entries, tag, anchor, .. } => Node::Map {
                entries: entries.iter().map(|(k, v)| (k.to_node(flow), v.to_node(flow))).collect(),
                flow,
                tag: tag.clone(),
                anchor: an(*anchor),
            },
        }
    }
}

/// `tag:yaml.org,2002:!str` (parser's Display) -> `!!str` (source notation).
pub fn norm_tag(t: &str) -> String {
    if t == "!!" {
        // the parser displays the non-specific tag `!` as `!!`
        return "!".to_string();
    }
    if let Some(rest) = t.strip_prefix("tag:yaml.org,2002:!") {
        format!("!!{rest}")
    } else {
        t.to_string()
    }
}

pub fn style_char(s: ScalarStyle) -> char {
    match s {
        ScalarStyle::Plain => 'p',
        ScalarStyle::SingleQuoted => 's',
        ScalarStyle::DoubleQuoted => 'd',
        ScalarStyle::Literal => 'l',
        ScalarStyle::Folded => 'f',
    }
}

pub fn style_of(s: ScalarStyle) -> Style {
    match s {
        ScalarStyle::Plain => Style::Plain,
        ScalarStyle::SingleQuoted => Style::Single,
        ScalarStyle::DoubleQuoted => Style::Double,
        ScalarStyle::Literal => Style::Literal,
        ScalarStyle::Folded => Style::Folded,
    }
}

/// Shape of a generator node in the same notation as `RNode::shape`, with alias
/// names mapped through `alias_ids` in order of appearance (so it can be compared
/// with the parser's tree when the generator knows the id assignment), or with
/// aliases rendered as `*?` when `None`.
pub fn node_shape(n: &Node) -> String {
    fn sc(s: Style) -> char {
        match s {
            Style::Plain => 'p',
            Style::Single => 's',
            Style::Double => 'd',
            Style::Literal => 'l',
            Style::Folded => 'f',
        }
    }
    match n {
        Node::Alias(_) => "*?".into(),
        Node::Scalar { text, style, tag, .. } => format!("{}{:?}{}", tag.as_deref().unwrap_or(""), text, sc(*style)),
        Node::Seq { items, tag, .. } => {
            let v: Vec<String> = items.iter().map(node_shape).collect();
            format!("{}[{}]", tag.as_deref().unwrap_or(""), v.join(","))
        }
        Node::Map { entries, tag, .. } => {
            let v: Vec<String> = entries.iter().map(|(k, x)| format!("{}:{}", node_shape(k), node_shape(x))).collect();
            format!("{}{{{}}}", tag.as_deref().unwrap_or(""), v.join(","))
        }
    }
}

/// Same as `RNode::shape` but aliases rendered `*?` (to compare with `node_shape`).
pub fn rnode_shape_anon(n: &RNode) -> String {
    match n {
        RNode::Alias { .. } => "*?".into(),
        RNode::Scalar { value, style, tag, .. } => format!("{}{:?}{}", tag.as_deref().unwrap_or(""), value, style_char(*style)),
        RNode::Seq { items, tag, .. } => {
            let v: Vec<String> = items.iter().map(rnode_shape_anon).collect();
            format!("{}[{}]", tag.as_deref().unwrap_or(""), v.join(","))
        }
        RNode::Map { entries, tag, .. } => {
            let v: Vec<String> = entries.iter().map(|(k, x)| format!("{}:{}", rnode_shape_anon(k), rnode_shape_anon(x))).collect();
            format!("{}{{{}}}", tag.as_deref().unwrap_or(""), v.join(","))
        }
    }
}

/// Render a generator tree and confirm with the raw parser that the text means
/// that tree (one document, same shape). Returns the text and the parser's tree.
pub fn render_checked(n: &Node, o: &crate::ydoc::RenderOpts) -> Option<(String, RNode)> {
    let text = crate::ydoc::render(n, o).text;
    let r = parse_one(&text)?;
    if rnode_shape_anon(&r) != node_shape(n) {
        return None;
    }
    Some((text, r))
}
