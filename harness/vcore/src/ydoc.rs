//! Abstract YAML node tree used by the generators, with block and flow renderers.
//!
//! The renderer is *not* trusted: every rendered document is re-parsed with the
//! raw parser (see `reftree`) and compared with the intended tree; a mismatch
//! makes the case generator-invalid (inconclusive), never an alarm.

#[derive(Clone, Copy, Debug, PartialEq, Eq, Hash)]
pub enum Style {
    Plain,
    Single,
    Double,
    Literal,
    Folded,
}

#[derive(Clone, Debug, PartialEq, Eq, Hash)]
pub enum Node {
    Scalar {
        text: String,
        style: Style,
        tag: Option<String>,
        anchor: Option<String>,
    },
    Seq {
        items: Vec<Node>,
        flow: bool,
        tag: Option<String>,
        anchor: Option<String>,
    },
    Map {
        entries: Vec<(Node, Node)>,
        flow: bool,
        tag: Option<String>,
        anchor: Option<String>,
    },
    Alias(String),
}

impl Node {
    pub fn plain(t: &str) -> Node {
        Node::Scalar { text: t.into(), style: Style::Plain, tag: None, anchor: None }
    }
    pub fn dq(t: &str) -> Node {
        Node::Scalar { text: t.into(), style: Style::Double, tag: None, anchor: None }
    }
    pub fn sq(t: &str) -> Node {
        Node::Scalar { text: t.into(), style: Style::Single, tag: None, anchor: None }
    }
    pub fn styled(t: &str, style: Style) -> Node {
        Node::Scalar { text: t.into(), style, tag: None, anchor: None }
    }
    pub fn seq(items: Vec<Node>) -> Node {
        Node::Seq { items, flow: false, tag: None, anchor: None }
    }
    pub fn fseq(items: Vec<Node>) -> Node {
        Node::Seq { items, flow: true, tag: None, anchor: None }
    }
    pub fn map(entries: Vec<(Node, Node)>) -> Node {
        Node::Map { entries, flow: false, tag: None, anchor: None }
    }
    pub fn fmap(entries: Vec<(Node, Node)>) -> Node {
        Node::Map { entries, flow: true, tag: None, anchor: None }
    }
    pub fn alias(n: &str) -> Node {
        Node::Alias(n.into())
    }
    pub fn with_anchor(mut self, a: &str) -> Node {
        match &mut self {
            Node::Scalar { anchor, .. } | Node::Seq { anchor, .. } | Node::Map { anchor, .. } => {
                *anchor = Some(a.into())
            }
            Node::Alias(_) => {}
        }
        self
    }
    pub fn with_tag(mut self, t: &str) -> Node {
        match &mut self {
            Node::Scalar { tag, .. } | Node::Seq { tag, .. } | Node::Map { tag, .. } => *tag = Some(t.into()),
            Node::Alias(_) => {}
        }
        self
    }
    pub fn anchor(&self) -> Option<&str> {
        match self {
            Node::Scalar { anchor, .. } | Node::Seq { anchor, .. } | Node::Map { anchor, .. } => anchor.as_deref(),
            Node::Alias(_) => None,
        }
    }
    pub fn set_flow(&mut self, f: bool) {
        match self {
            Node::Seq { flow, items, .. } => {
                *flow = f;
                for i in items {
                    i.set_flow(f);
                }
            }
            Node::Map { flow, entries, .. } => {
                *flow = f;
                for (k, v) in entries {
                    k.set_flow(f);
                    v.set_flow(f);
                }
            }
            _ => {}
        }
    }
    pub fn node_count(&self) -> usize {
        match self {
            Node::Seq { items, .. } => 1 + items.iter().map(|n| n.node_count()).sum::<usize>(),
            Node::Map { entries, .. } => {
                1 + entries.iter().map(|(k, v)| k.node_count() + v.node_count()).sum::<usize>()
            }
            _ => 1,
        }
    }
    pub fn has_alias(&self) -> bool {
        match self {
            Node::Alias(_) => true,
            Node::Seq { items, .. } => items.iter().any(|n| n.has_alias()),
            Node::Map { entries, .. } => entries.iter().any(|(k, v)| k.has_alias() || v.has_alias()),
            _ => false,
        }
    }
    pub fn has_anchor(&self) -> bool {
        if self.anchor().is_some() {
            return true;
        }
        match self {
            Node::Seq { items, .. } => items.iter().any(|n| n.has_anchor()),
            Node::Map { entries, .. } => entries.iter().any(|(k, v)| k.has_anchor() || v.has_anchor()),
            _ => false,
        }
    }
    /// Remove all anchor marks (aliases are left alone).
    pub fn strip_anchors(&self) -> Node {
        match self {
            Node::Scalar { text, style, tag, .. } => {
                Node::Scalar { text: text.clone(), style: *style, tag: tag.clone(), anchor: None }
            }
            Node::Seq { items, flow, tag, .. } => Node::Seq {
                items: items.iter().map(|n| n.strip_anchors()).collect(),
                flow: *flow,
                tag: tag.clone(),
                anchor: None,
            },
            Node::Map { entries, flow, tag, .. } => Node::Map {
                entries: entries.iter().map(|(k, v)| (k.strip_anchors(), v.strip_anchors())).collect(),
                flow: *flow,
                tag: tag.clone(),
                anchor: None,
            },
            Node::Alias(a) => Node::Alias(a.clone()),
        }
    }
    fn is_collection(&self) -> bool {
        matches!(self, Node::Seq { .. } | Node::Map { .. })
    }
    fn is_empty_collection(&self) -> bool {
        match self {
            Node::Seq { items, .. } => items.is_empty(),
            Node::Map { entries, .. } => entries.is_empty(),
            _ => false,
        }
    }
    fn is_flow_or_leaf(&self) -> bool {
        match self {
            Node::Seq { flow, items, .. } => *flow || items.is_empty(),
            Node::Map { flow, entries, .. } => *flow || entries.is_empty(),
            Node::Scalar { style, .. } => !matches!(style, Style::Literal | Style::Folded),
            Node::Alias(_) => true,
        }
    }
}

/// Alias-free expansion by the property's own rule: every alias is replaced by a
/// copy of the node most recently anchored under that name (document order,
/// a node's anchor is registered before its children), all anchor marks
/// removed. Returns `None` if some alias has no earlier anchor or refers to a
/// node that is still open (self reference).
pub fn expand(root: &Node) -> Option<Node> {
    use std::collections::HashMap;
    // name -> Some(expanded copy) once closed; None while still open
    fn go(n: &Node, env: &mut HashMap<String, Option<Node>>) -> Option<Node> {
        match n {
            Node::Alias(a) => env.get(a)?.clone(),
            Node::Scalar { text, style, tag, anchor } => {
                let out = Node::Scalar { text: text.clone(), style: *style, tag: tag.clone(), anchor: None };
                if let Some(a) = anchor {
                    env.insert(a.clone(), Some(out.clone()));
                }
                Some(out)
            }
            Node::Seq { items, flow, tag, anchor } => {
                if let Some(a) = anchor {
                    env.insert(a.clone(), None);
                }
                let mut v = Vec::new();
                for i in items {
                    v.push(go(i, env)?);
                }
                let out = Node::Seq { items: v, flow: *flow, tag: tag.clone(), anchor: None };
                if let Some(a) = anchor {
                    // only (re)bind if the name still refers to this open node
                    if let Some(None) = env.get(a) {
                        env.insert(a.clone(), Some(out.clone()));
                    }
                }
                Some(out)
            }
            Node::Map { entries, flow, tag, anchor } => {
                if let Some(a) = anchor {
                    env.insert(a.clone(), None);
                }
                let mut v = Vec::new();
                for (k, x) in entries {
                    let k2 = go(k, env)?;
                    let x2 = go(x, env)?;
                    v.push((k2, x2));
                }
                let out = Node::Map { entries: v, flow: *flow, tag: tag.clone(), anchor: None };
                if let Some(a) = anchor {
                    if let Some(None) = env.get(a) {
                        env.insert(a.clone(), Some(out.clone()));
                    }
                }
                Some(out)
            }
        }
    }
    let mut env = HashMap::new();
    go(root, &mut env)
}

// ------------------------------------------------------------------ scalars

/// Conservative: can `t` be written as a plain scalar in any context (block or
/// flow, key or value) and read back as the same text by a YAML parser?
pub fn plain_safe(t: &str) -> bool {
    if t.is_empty() {
        return false;
    }
    let first = t.chars().next().unwrap();
    let last = t.chars().last().unwrap();
    if first == ' ' || last == ' ' || first == '\t' || last == '\t' {
        return false;
    }
    if "-?:,[]{}#&*!|>'\"%@`".contains(first) {
        // allow a leading '-' / '?' / ':' only when followed by a non-space, non-indicator
        let second = t.chars().nth(1);
        let ok = matches!(first, '-' | '?' | ':')
            && second.is_some_and(|c| !c.is_whitespace() && !",[]{}".contains(c));
        if !ok {
            return false;
        }
    }
    if t == "---" || t == "..." || t.starts_with("--- ") || t.starts_with("... ") {
        return false;
    }
    let cs: Vec<char> = t.chars().collect();
    for (i, c) in cs.iter().enumerate() {
        match c {
            '\n' | '\r' | '\t' | '\u{FEFF}' | '\u{85}' | '\u{2028}' | '\u{2029}' => return false,
            c if (*c as u32) < 0x20 || *c == '\u{7f}' => return false,
            ',' | '[' | ']' | '{' | '}' => return false,
            ':' => {
                if i + 1 == cs.len() || cs[i + 1] == ' ' {
                    return false;
                }
            }
            '#' => {
                if i > 0 && cs[i - 1] == ' ' {
                    return false;
                }
            }
            _ => {}
        }
    }
    true
}

pub fn dq_escape(t: &str) -> String {
    let mut s = String::with_capacity(t.len() + 2);
    s.push('"');
    for c in t.chars() {
        match c {
            '"' => s.push_str("\\\""),
            '\\' => s.push_str("\\\\"),
            '\n' => s.push_str("\\n"),
            '\r' => s.push_str("\\r"),
            '\t' => s.push_str("\\t"),
            '\0' => s.push_str("\\0"),
            '\u{7}' => s.push_str("\\a"),
            '\u{8}' => s.push_str("\\b"),
            '\u{b}' => s.push_str("\\v"),
            '\u{c}' => s.push_str("\\f"),
            '\u{1b}' => s.push_str("\\e"),
            '\u{85}' => s.push_str("\\N"),
            '\u{a0}' => s.push_str("\\_"),
            '\u{2028}' => s.push_str("\\L"),
            '\u{2029}' => s.push_str("\\P"),
            '\u{FEFF}' => s.push_str("\\uFEFF"),
            c if (c as u32) < 0x20 || c == '\u{7f}' || ((c as u32) >= 0x80 && (c as u32) < 0xa0) => {
                s.push_str(&format!("\\x{:02x}", c as u32))
            }
            c => s.push(c),
        }
    }
    s.push('"');
    s
}

/// Single-quoted form; only valid for single-line printable text.
pub fn sq_escape(t: &str) -> Option<String> {
    if t.chars().any(|c| (c as u32) < 0x20 || c == '\u{7f}' || c == '\u{85}' || c == '\u{2028}' || c == '\u{2029}' || c == '\u{FEFF}') {
        return None;
    }
    Some(format!("'{}'", t.replace('\'', "''")))
}

// ------------------------------------------------------------------ renderer

#[derive(Clone, Debug, Default)]
pub struct RenderOpts {
    /// indentation step for block collections
    pub indent: usize,
    /// line break to use
    pub brk: &'static str,
    /// Render nested block collections of a sequence item on the same line as
    /// the dash (`- k: v`) instead of on the following line.
    pub compact: bool,
}

impl RenderOpts {
    pub fn new() -> Self {
        RenderOpts { indent: 2, brk: "\n", compact: true }
    }
}

/// Token record: pre-order index of the node, char offset where its own token
/// (after properties) starts, and the token text for single-line scalars.
#[derive(Clone, Debug)]
pub struct Tok {
    pub node: usize,
    pub char_start: usize,
    pub token: Option<String>,
}

pub struct Rendered {
    pub text: String,
    pub toks: Vec<Tok>,
}

struct R<'a> {
    out: String,
    chars: usize,
    o: &'a RenderOpts,
    toks: Vec<Tok>,
    next_id: usize,
}

impl R<'_> {
    fn push(&mut self, s: &str) {
        self.chars += s.chars().count();
        self.out.push_str(s);
    }
    fn nl(&mut self) {
        let b = self.o.brk;
        self.push(b);
    }
    fn ind(&mut self, n: usize) {
        for _ in 0..n {
            self.push(" ");
        }
    }
    fn props(&mut self, n: &Node) -> bool {
        let (a, t) = match n {
            Node::Scalar { anchor, tag, .. } | Node::Seq { anchor, tag, .. } | Node::Map { anchor, tag, .. } => {
                (anchor.clone(), tag.clone())
            }
            Node::Alias(_) => (None, None),
        };
        let mut any = false;
        if let Some(a) = a {
            self.push("&");
            self.push(&a);
            any = true;
        }
        if let Some(t) = t {
            if any {
                self.push(" ");
            }
            self.push(&t);
            any = true;
        }
        any
    }
    fn scalar_token(text: &str, style: Style) -> String {
        match style {
            Style::Plain => text.to_string(),
            Style::Single => sq_escape(text).unwrap_or_else(|| dq_escape(text)),
            Style::Double => dq_escape(text),
            Style::Literal | Style::Folded => unreachable!(),
        }
    }
    /// Inline (single-line) rendering: scalars (non-block), aliases, flow collections.
    fn inline(&mut self, n: &Node) {
        let id = self.next_id;
        self.next_id += 1;
        match n {
            Node::Alias(a) => {
                self.toks.push(Tok { node: id, char_start: self.chars, token: Some(format!("*{a}")) });
                self.push("*");
                self.push(a);
            }
            Node::Scalar { text, style, .. } => {
                let has = self.props(n);
                let style = match style {
                    Style::Literal | Style::Folded => Style::Double,
                    s => *s,
                };
                let tok = Self::scalar_token(text, style);
                if has && !tok.is_empty() {
                    self.push(" ");
                }
                self.toks.push(Tok { node: id, char_start: self.chars, token: Some(tok.clone()) });
                self.push(&tok);
            }
            Node::Seq { items, .. } => {
                if self.props(n) {
                    self.push(" ");
                }
                self.toks.push(Tok { node: id, char_start: self.chars, token: None });
                self.push("[");
                for (i, it) in items.iter().enumerate() {
                    if i > 0 {
                        self.push(", ");
                    }
                    self.inline(it);
                }
                self.push("]");
            }
            Node::Map { entries, .. } => {
                if self.props(n) {
                    self.push(" ");
                }
                self.toks.push(Tok { node: id, char_start: self.chars, token: None });
                self.push("{");
                for (i, (k, v)) in entries.iter().enumerate() {
                    if i > 0 {
                        self.push(", ");
                    }
                    let complex = k.is_collection();
                    if complex {
                        self.push("? ");
                    }
                    self.inline(k);
                    // `*a : v` needs the blank; harmless elsewhere for complex keys
                    if complex || matches!(k, Node::Alias(_)) {
                        self.push(" ");
                    }
                    self.push(": ");
                    self.inline(v);
                }
                self.push("}");
            }
        }
    }
    fn block_scalar(&mut self, text: &str, style: Style, indent: usize) {
        // header
        self.push(if style == Style::Literal { "|" } else { ">" });
        let trailing = text.len() - text.trim_end_matches('\n').len();
        let needs_ind = text.starts_with(' ') || text.starts_with('\n') || text.starts_with('\t');
        if needs_ind {
            self.push(&format!("{}", self.o.indent.max(1)));
        }
        if trailing == 0 {
            self.push("-");
        } else if trailing > 1 {
            self.push("+");
        }
        self.nl();
        let body = text.trim_end_matches('\n');
        let ind = indent;
        for line in body.split('\n') {
            if !line.is_empty() {
                self.ind(ind);
                self.push(line);
            }
            self.nl();
        }
        for _ in 1..trailing {
            self.nl();
        }
    }
    /// Render `n` as the value following some introducer ("- ", "key: ", "? ", or
    /// nothing at the root). The cursor is right after the introducer. Ends with a
    /// line break. `indent` is the indentation of the *parent* collection's entries;
    /// `in_seq` tells whether the introducer was a dash (enables compact form).
    fn value(&mut self, n: &Node, indent: usize, root: bool, in_seq: bool) {
        if n.is_flow_or_leaf() {
            self.inline(n);
            self.nl();
            return;
        }
        let id = self.next_id;
        self.next_id += 1;
        let child_indent = if root { 0 } else { indent + self.o.indent.max(1) };
        match n {
            Node::Scalar { text, style, .. } => {
                if self.props(n) {
                    self.push(" ");
                }
                self.toks.push(Tok { node: id, char_start: self.chars, token: None });
                let ind = if root { self.o.indent.max(1) } else { indent + self.o.indent.max(1) };
                self.block_scalar(text, *style, ind);
            }
            Node::Seq { items, .. } => {
                let has = self.props(n);
                let compact = in_seq && self.o.compact && !has && !root;
                if !root && !compact {
                    self.nl();
                } else if root && has {
                    self.nl();
                }
                let my_indent = if compact { indent + 2 } else { child_indent };
                for (i, it) in items.iter().enumerate() {
                    if !(compact && i == 0) {
                        self.ind(my_indent);
                    }
                    if i == 0 {
                        self.toks.push(Tok { node: id, char_start: self.chars, token: None });
                    }
                    self.push("- ");
                    self.value(it, my_indent, false, true);
                }
            }
            Node::Map { entries, .. } => {
                let has = self.props(n);
                let compact = in_seq && self.o.compact && !has && !root;
                if !root && !compact {
                    self.nl();
                } else if root && has {
                    self.nl();
                }
                let my_indent = if compact { indent + 2 } else { child_indent };
                for (i, (k, v)) in entries.iter().enumerate() {
                    if !(compact && i == 0) {
                        self.ind(my_indent);
                    }
                    if i == 0 {
                        self.toks.push(Tok { node: id, char_start: self.chars, token: None });
                    }
                    let simple_key = match k {
                        Node::Scalar { style, text, .. } => {
                            !matches!(style, Style::Literal | Style::Folded) && !text.contains('\n')
                        }
                        Node::Alias(_) => true,
                        _ => false,
                    };
                    if simple_key {
                        self.inline(k);
                        if matches!(k, Node::Alias(_)) {
                            self.push(" ");
                        }
                        self.push(":");
                        if v.is_flow_or_leaf() {
                            self.push(" ");
                            self.inline(v);
                            self.nl();
                        } else {
                            self.push(" ");
                            self.value(v, my_indent, false, false);
                        }
                    } else {
                        self.push("? ");
                        self.value(k, my_indent, false, false);
                        self.ind(my_indent);
                        self.push(": ");
                        self.value(v, my_indent, false, false);
                    }
                }
            }
            Node::Alias(_) => unreachable!(),
        }
    }
}

/// Render one document (no `---`).
pub fn render(root: &Node, o: &RenderOpts) -> Rendered {
    let mut r = R { out: String::new(), chars: 0, o, toks: Vec::new(), next_id: 0 };
    r.value(root, 0, true, false);
    Rendered { text: r.out, toks: r.toks }
}

pub fn render_text(root: &Node) -> String {
    render(root, &RenderOpts::new()).text
}
