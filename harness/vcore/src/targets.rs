//! A family of target types. Each target deserializes a text through the public
//! API and returns the canonical `Debug` rendering of the value, so outcomes of
//! different documents / entry points can be compared as strings.

use crate::val::Val;
use serde::Deserialize;
use serde::de::DeserializeOwned;
use serde_saphyr::{Error, Options};
use std::collections::BTreeMap;
use std::fmt::Debug;

pub type Outcome = Result<String, Error>;

pub struct Target {
    pub name: &'static str,
    pub from_str: fn(&str, Options) -> Outcome,
    pub from_slice: fn(&[u8], Options) -> Outcome,
    pub from_reader: fn(&mut dyn std::io::Read, Options) -> Outcome,
    pub from_multiple: fn(&str, Options) -> Outcome,
    /// items of the streaming iterator, each rendered (Ok(..) / Err(kind@loc)), up to `max_items`
    pub read_iter: fn(&mut dyn std::io::Read, Options, usize) -> Vec<Outcome>,
    pub with_de_str: fn(&str, Options) -> Outcome,
    pub with_de_slice: fn(&[u8], Options) -> Outcome,
    pub with_de_reader: fn(&mut dyn std::io::Read, Options) -> Outcome,
}

fn fs<T: DeserializeOwned + Debug>(s: &str, o: Options) -> Outcome {
    serde_saphyr::from_str_with_options::<T>(s, o).map(|v| format!("{v:?}"))
}
fn fsl<T: DeserializeOwned + Debug>(s: &[u8], o: Options) -> Outcome {
    serde_saphyr::from_slice_with_options::<T>(s, o).map(|v| format!("{v:?}"))
}
fn fr<T: DeserializeOwned + Debug>(r: &mut dyn std::io::Read, o: Options) -> Outcome {
    serde_saphyr::from_reader_with_options::<_, T>(r, o).map(|v| format!("{v:?}"))
}
fn fm<T: DeserializeOwned + Debug>(s: &str, o: Options) -> Outcome {
    serde_saphyr::from_multiple_with_options::<T>(s, o).map(|v| format!("{v:?}"))
}
fn ri<T: DeserializeOwned + Debug>(r: &mut dyn std::io::Read, o: Options, max: usize) -> Vec<Outcome> {
    let mut r = r;
    let it = serde_saphyr::read_with_options::<_, T>(&mut r, o);
    let mut out = Vec::new();
    for item in it {
        out.push(item.map(|v| format!("{v:?}")));
        if out.len() >= max {
            break;
        }
    }
    out
}
fn wds<T: DeserializeOwned + Debug>(s: &str, o: Options) -> Outcome {
    serde_saphyr::with_deserializer_from_str_with_options(s, o, |de| T::deserialize(de)).map(|v| format!("{v:?}"))
}
fn wdsl<T: DeserializeOwned + Debug>(s: &[u8], o: Options) -> Outcome {
    serde_saphyr::with_deserializer_from_slice_with_options(s, o, |de| T::deserialize(de)).map(|v| format!("{v:?}"))
}
fn wdr<T: DeserializeOwned + Debug>(r: &mut dyn std::io::Read, o: Options) -> Outcome {
    serde_saphyr::with_deserializer_from_reader_with_options(r, o, |de| T::deserialize(de)).map(|v| format!("{v:?}"))
}

macro_rules! target {
    ($name:expr, $t:ty) => {
        Target {
            name: $name,
            from_str: fs::<$t>,
            from_slice: fsl::<$t>,
            from_reader: fr::<$t>,
            from_multiple: fm::<$t>,
            read_iter: ri::<$t>,
            with_de_str: wds::<$t>,
            with_de_slice: wdsl::<$t>,
            with_de_reader: wdr::<$t>,
        }
    };
}

#[derive(Debug, Deserialize, PartialEq)]
pub struct Rec {
    #[serde(default)]
    pub a: Option<Val>,
    #[serde(default)]
    pub b: Vec<Val>,
    #[serde(default)]
    pub k1: Option<Val>,
    #[serde(default)]
    pub k2: Option<Val>,
    #[serde(default)]
    pub k3: Option<Val>,
}

#[derive(Debug, Deserialize, PartialEq)]
#[serde(deny_unknown_fields)]
pub struct Strict {
    pub k1: String,
    #[serde(default)]
    pub k2: Option<i64>,
    #[serde(default)]
    pub k3: Vec<String>,
}

#[derive(Debug, Deserialize, PartialEq)]
pub enum En {
    Unit,
    New(Val),
    Tup(Val, Val),
    St { k1: Val, #[serde(default)] k2: Option<Val> },
    #[serde(rename = "x")]
    X,
    #[serde(rename = "k1")]
    K1(Val),
}

#[derive(Debug, Deserialize, PartialEq)]
pub struct Bytes(#[serde(with = "bytes_mod")] pub Vec<u8>);

mod bytes_mod {
    use serde::de::{Deserializer, Visitor};
    use std::fmt;
    pub fn deserialize<'de, D: Deserializer<'de>>(d: D) -> Result<Vec<u8>, D::Error> {
        struct V;
        impl<'de> Visitor<'de> for V {
            type Value = Vec<u8>;
            fn expecting(&self, f: &mut fmt::Formatter) -> fmt::Result {
                f.write_str("bytes")
            }
            fn visit_bytes<E>(self, v: &[u8]) -> Result<Vec<u8>, E> {
                Ok(v.to_vec())
            }
            fn visit_byte_buf<E>(self, v: Vec<u8>) -> Result<Vec<u8>, E> {
                Ok(v)
            }
        }
        d.deserialize_byte_buf(V)
    }
}

#[derive(Debug, Deserialize, PartialEq)]
pub struct Mixed {
    #[serde(default)]
    pub s: Option<String>,
    #[serde(default)]
    pub n: Option<i32>,
    #[serde(default)]
    pub f: Option<f64>,
    #[serde(default)]
    pub b: Option<bool>,
    #[serde(default)]
    pub c: Option<char>,
    #[serde(default)]
    pub v: Vec<i64>,
    #[serde(default)]
    pub e: Option<En>,
    #[serde(default)]
    pub m: BTreeMap<String, String>,
    #[serde(default)]
    pub t: Option<(u8, String)>,
    #[serde(default)]
    pub y: Option<Bytes>,
    #[serde(default)]
    pub u: (),
}

static TARGETS: &[Target] = &[
    target!("Val", Val),
    target!("json", serde_json::Value),
    target!("VecVal", Vec<Val>),
    target!("MapStrVal", BTreeMap<String, Val>),
    target!("VecString", Vec<String>),
    target!("VecOptI64", Vec<Option<i64>>),
    target!("MapStrVecString", BTreeMap<String, Vec<String>>),
    target!("Rec", Rec),
    target!("Strict", Strict),
    target!("En", En),
    target!("Mixed", Mixed),
    target!("OptVal", Option<Val>),
    target!("String", String),
    target!("TupU8Str", (u8, String)),
    target!("Ignored", serde::de::IgnoredAny),
    target!("MapValVal", BTreeMap<Val, Val>),
    target!("VecPairs", Vec<BTreeMap<String, Val>>),
];

pub fn all() -> &'static [Target] {
    TARGETS
}

pub fn by_name(n: &str) -> Option<&'static Target> {
    TARGETS.iter().find(|t| t.name == n)
}

/// Compare two outcomes under the "equal Ok values, or both Err" relation.
pub fn same_value_or_both_err(a: &Outcome, b: &Outcome) -> bool {
    match (a, b) {
        (Ok(x), Ok(y)) => x == y,
        (Err(_), Err(_)) => true,
        _ => false,
    }
}

pub fn show(o: &Outcome) -> String {
    match o {
        Ok(v) => format!("Ok({v})"),
        Err(e) => format!("Err({}: {})", crate::errs::kind(e), first_line(&e.to_string())),
    }
}

fn first_line(s: &str) -> String {
    s.lines().next().unwrap_or("").chars().take(160).collect()
}
