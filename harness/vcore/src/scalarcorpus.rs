//! Scalar token corpus of property C06 (also used by C19 for "plain literals
//! are unchanged"): deterministic, seed-independent, every token labelled with
//! the family whose grammar it is in or one edit away from.

use crate::refscalar::BigUint;
use crate::rng::Rng;
use std::collections::HashSet;

#[derive(Clone, Copy, Debug, PartialEq, Eq, Hash, PartialOrd, Ord)]
pub enum Family {
    Int,
    Float,
    Bool,
    Null,
    Char,
    Str,
    B64,
}

impl Family {
    pub fn name(self) -> &'static str {
        match self {
            Family::Int => "int",
            Family::Float => "float",
            Family::Bool => "bool",
            Family::Null => "null",
            Family::Char => "char",
            Family::Str => "str",
            Family::B64 => "b64",
        }
    }
}

#[derive(Clone, Debug, PartialEq, Eq)]
pub struct Token {
    pub text: String,
    pub family: Family,
}

/// Magnitudes whose neighbourhood matters: every width boundary ±1 for 8…128
/// bits (signed and unsigned), small values, and values ≥ 2^128 (which a
/// wrapping 128-bit accumulator would fold back into range).
pub fn int_magnitudes() -> Vec<BigUint> {
    let one = BigUint::from_u128(1);
    let two = BigUint::from_u128(2);
    let mut v: Vec<BigUint> = Vec::new();
    for s in [0u128, 1, 7, 8, 9, 10, 42, 100] {
        v.push(BigUint::from_u128(s));
    }
    for bits in [8u32, 16, 32, 64, 128] {
        let half = BigUint::pow2(bits - 1);
        let full = BigUint::pow2(bits);
        for base in [half, full] {
            v.push(base.checked_sub(&two).unwrap());
            v.push(base.checked_sub(&one).unwrap());
            v.push(base.clone());
            v.push(base.add(&one));
        }
    }
    let p128 = BigUint::pow2(128);
    v.push(p128.add(&BigUint::from_u128(5)));
    v.push(p128.add(&BigUint::from_u128(127)));
    v.push(p128.add(&BigUint::from_u128(255)));
    v.push(p128.add(&p128)); // 2^129
    v.push(BigUint::pow2(127).add(&p128)); // 2^128 + 2^127 (wraps to i128::MIN magnitude)
    v.push(BigUint::pow2(136).add(&one));
    v.push(p128.add(&p128).add(&p128).add(&BigUint::from_u128(7)));
    v.push(BigUint::pow2(192));
    v.push(BigUint::pow2(256).add(&BigUint::from_u128(42)));
    // powers of ten around 2^128
    let mut t = BigUint::from_u128(1);
    for _ in 0..39 {
        t.mul_small_add(10, 0);
    }
    v.push(t.clone()); // 10^39
    t.mul_small_add(10, 3); // 10^40 + 3
    v.push(t);
    let mut seen = HashSet::new();
    v.retain(|b| seen.insert(b.clone()));
    v
}

fn insert_at(s: &str, pos: usize, what: &str) -> String {
    let mut o = String::with_capacity(s.len() + what.len());
    o.push_str(&s[..pos]);
    o.push_str(what);
    o.push_str(&s[pos..]);
    o
}

/// Spellings of one magnitude: radix forms × decorations (separators in several
/// places, leading zeros, prefix/digit case), without sign.
pub fn int_spellings(m: &BigUint) -> Vec<String> {
    let mut out = Vec::new();
    // (prefix, digits, alt upper prefix)
    let forms: Vec<(&str, String, Option<&str>)> = vec![
        ("", m.to_radix(10, false), None),
        ("0x", m.to_radix(16, false), Some("0X")),
        ("0x", m.to_radix(16, true), None),
        ("0o", m.to_radix(8, false), Some("0O")),
        ("0b", m.to_radix(2, false), Some("0B")),
        ("00", m.to_radix(8, false), None), // legacy octal spelling
    ];
    for (p, d, up) in &forms {
        let n = d.len();
        out.push(format!("{p}{d}"));
        if let Some(up) = up {
            out.push(format!("{up}{d}"));
        }
        out.push(format!("{p}0{d}"));
        out.push(format!("{p}00{d}"));
        if n >= 2 {
            out.push(format!("{p}{}", insert_at(d, 1, "_")));
            out.push(format!("{p}{}", insert_at(d, n / 2, "_")));
            out.push(format!("{p}{}", insert_at(d, n - 1, "_")));
            out.push(format!("{p}{}", insert_at(d, n / 2, "__")));
            // grouped from the right every 3 (decimal) / 4 (others)
            let g = if p.is_empty() { 3 } else { 4 };
            let mut grouped = String::new();
            for (i, c) in d.chars().enumerate() {
                if i > 0 && (n - i) % g == 0 {
                    grouped.push('_');
                }
                grouped.push(c);
            }
            out.push(format!("{p}{grouped}"));
        }
        out.push(format!("{p}{d}_"));
        out.push(format!("{p}_{d}"));
    }
    out
}

fn casings(word: &str) -> Vec<String> {
    let cs: Vec<char> = word.chars().collect();
    let mut out = Vec::new();
    for mask in 0..(1u32 << cs.len()) {
        let s: String = cs
            .iter()
            .enumerate()
            .map(|(i, c)| if mask >> i & 1 == 1 { c.to_ascii_uppercase() } else { *c })
            .collect();
        out.push(s);
    }
    out
}

/// Float tokens: documented forms, boundaries of f32/f64, lenient spellings,
/// near misses, and double-rounding witnesses for f32.
pub fn float_tokens() -> Vec<String> {
    let mut v: Vec<String> = [
        "0", "0.0", "-0.0", "+0.0", "-0", "1.", "-1.", ".5", "-.5", "+.5", "1.5", "-1.5", "+1.5", "1e3", "1E3", "1e+3", "1e-3",
        "1.5e3", "1.5E-3", "1.e2", ".5e1", "12.50", "007.5", "1e400", "-1e400", "1e-400", "-1e-400", "1e39", "-1e39", "1e38",
        "3.4028235e38", "3.4028236e38", "3.4028235677973366e38", "3.4028235677973367e38", "1.7976931348623157e308",
        "1.7976931348623158e308", "1.7976931348623159e308", "1.8e308", "4.9e-324", "5e-324", "2e-324", "3e-324",
        "1.1754944e-38", "1.4e-45", "7e-46", "8e-46", "0.1", "0.2", "0.30000000000000004", "0.1000000000000000055511151231257827",
        "123456789012345678901234567890", "9007199254740993", "9007199254740992", "16777217", "16777216", "33554434", "33554435",
        "1.0000000596046447753906250", "1.0000000596046447753906251", "1.0000000596046447753906249",
        "1.00000017881393421514957253748434595763683319091796875", "1.00000017881393432617187500001", "8388608.5", "8388609.5",
        "0.000000000000000000000000000000000000000000001", "179769313486231580793728971405303415079934132710037826936173778980444968292764750946649017977587207096330286416692887910946555547851940402630657488671505820681908902000708383676273854845817711531764475730270069855571366959622842914819860834936475292719074168444365510704342711559699508093042880177904174497791.999",
        "1e", "e1", "1e+", "1e-", ".e1", ".", "-.", "+.", "+", "-", "1.2.3", "1..2", "1e2e3", "1e2.5", "--1.5", "+-1.5", "1,5", "1.5f", "1.5d",
        "1_000.5", "1_0e1_0", "_1.5", "1.5_", "1._5", "0x1p3", "0x1.8", "0x10", "0o17", "0b11", "1 .5", "１.５",
        "inf", "+inf", "-inf", "Inf", "INF", "iNf", "infinity", "Infinity", "-Infinity", "+INFINITY", "infinit", "nan", "NaN", "NAN", "-nan",
        "+nan", "nana", ".inf", ".Inf", ".INF", "+.inf", "+.Inf", "+.INF", "-.inf", "-.Inf", "-.INF", ".iNF", "-.iNf", ".nan", ".NaN",
        ".NAN", ".nAn", ".Nan", "+.nan", "-.nan", "-.NaN", ".infinity", ".in", ".na", "..inf", ".inf.", ". inf", ".nan0", "-.infx",
    ]
    .iter()
    .map(|s| s.to_string())
    .collect();
    // shortest representations of a few awkward f64/f32 values
    for bits in [1u64, 0x000F_FFFF_FFFF_FFFF, 0x0010_0000_0000_0000, 0x7FEF_FFFF_FFFF_FFFF, 0x3FB9_9999_9999_999A] {
        v.push(format!("{:e}", f64::from_bits(bits)));
        v.push(format!("{}", f64::from_bits(bits)));
    }
    for bits in [1u32, 0x007F_FFFF, 0x0080_0000, 0x7F7F_FFFF, 0x3DCC_CCCD] {
        v.push(format!("{:e}", f32::from_bits(bits)));
        v.push(format!("{}", f32::from_bits(bits)));
    }
    v
}

/// Decimal strings just above / below the midpoint of two adjacent f32 values
/// by less than half an f64 ulp: rounding once (text → f32) and twice (text →
/// f64 → f32) give different results. Generated from `rng`.
pub fn double_rounding_witnesses(rng: &mut Rng, n: usize) -> Vec<String> {
    let mut out = Vec::new();
    while out.len() < n {
        // an f32 with an even mantissa in the normal range, moderate exponent so the decimal is short
        let exp = 110 + rng.below(40) as u32; // 2^-17 .. 2^22
        let man = (rng.next_u64() as u32) & 0x007F_FFFE;
        let lo = f32::from_bits((exp << 23) | man);
        let hi = f32::from_bits(lo.to_bits() + 1);
        let mid = (lo as f64 + hi as f64) / 2.0; // exact in f64
        // exact decimal expansion of mid, then nudge the last digit position far below an f64 ulp
        let exact = format!("{:.80}", mid);
        let exact = exact.trim_end_matches('0').to_string();
        if !exact.contains('.') {
            continue;
        }
        out.push(format!("{exact}0000000001")); // just above the midpoint → must round up to hi
        // just below: decrement is awkward on a string; use the trick "…(d-1)9999999999"
        let bytes = exact.as_bytes();
        let last = *bytes.last().unwrap();
        if last.is_ascii_digit() && last > b'0' {
            let mut s = exact[..exact.len() - 1].to_string();
            s.push((last - 1) as char);
            s.push_str("9999999999");
            out.push(s);
        }
    }
    out
}

/// The whole deterministic corpus (≈ 12 k tokens), de-duplicated, in a stable order.
pub fn tokens() -> Vec<Token> {
    let mut out: Vec<Token> = Vec::new();
    let mut push = |text: String, family: Family| out.push(Token { text, family });

    // ---- integers
    for m in int_magnitudes() {
        for sp in int_spellings(&m) {
            push(sp.clone(), Family::Int);
            push(format!("+{sp}"), Family::Int);
            push(format!("-{sp}"), Family::Int);
        }
    }
    for t in [
        "12a", "a12", "1a2", "0x", "0o", "0b", "0X", "0xg1", "0x1g", "0b12", "0b2", "0o8", "0o18", "1 2", "--1", "++1", "+-1", "-+1", "1-", "1+",
        "0x-1", "0x+1", "-", "+", "_", "__", "-_", "0_x10", "0x_", "0x__", "1e3", "1.0", "１２", "٣", "0089", "0098", "-0089", "008", "00_8",
        "00", "000", "-00", "+00", "00_", "0_0", "0_07", "0_010", "052", "-052", "0052", "-0052", "+0052", "00052", "0o0052", "0x0052",
        "0b", "0B1", "0O7", "0XfF", "0xFf", "0xABCDEF", "0xabcdef", "0xAbCdEf", "1_2_3", "1__2", "12 ", " 12", " 12 ", "\t12", "12\t", "12\n",
        "\n12", " -12 ", " 0x1F ", "- 12", "+ 12", "-0", "+0", "-0x0", "-0b0", "-0o0", "-00",
    ] {
        push(t.to_string(), Family::Int);
    }

    // ---- booleans and nulls, all casings + near misses
    for w in ["y", "n", "yes", "no", "on", "off", "true", "false"] {
        for c in casings(w) {
            push(c, Family::Bool);
        }
    }
    for t in [
        "t", "f", "T", "F", "tru", "truee", "ttrue", "fals", "falsee", "yess", "ye", "noo", "o", "of", "offf", "onn", "1", "0", "yes ", " yes",
        " true ", "true\n", "\tfalse", "True.", "true1", "y.", "nope", "oui", "ja", "si", "enable", "enabled", "disabled",
    ] {
        push(t.to_string(), Family::Bool);
    }
    for c in casings("null") {
        push(c, Family::Null);
    }
    for t in ["", "~", "~~", "~ ", " ~", "nul", "nulll", "nnull", "nil", "Nil", "none", "None", "NONE", "null ", " null", "null\n", "(null)", "~null", "undefined", "-"] {
        push(t.to_string(), Family::Null);
    }

    // ---- floats
    for t in float_tokens() {
        push(t, Family::Float);
    }
    let mut rng = Rng::new(0xC06);
    for t in double_rounding_witnesses(&mut rng, 40) {
        push(t, Family::Float);
    }

    // ---- chars
    for t in [
        "a", "Z", "é", "ß", "日", "😀", "\u{10FFFF}", "\u{0}", "\u{7f}", "\u{85}", "\u{a0}", "\u{2028}", "\u{FFFD}", " ", "\t", "\n", "\r", "ab", "日本",
        "e\u{301}", "😀😀", "a ", " a", "a\n", "  ", "5", "7", "y", "Y", "n", "N", "~", "-", "+", ".", "_", "'", "\"", "\\", "#", ":", "?", "!", "&", "*", "|",
        ">", "%", "@", "`", "[", "]", "{", "}", ",",
    ] {
        push(t.to_string(), Family::Char);
    }

    // ---- ordinary and awkward strings
    for t in [
        "abc", "hello world", "a:b", "x#y", "a, b", "key: value", "- item", "# comment", "a # b", "trailing ", " leading", "two\nlines", "two\nlines\n",
        "tab\there", "quote'single", "quote\"double", "back\\slash", "<<", "=", "---", "...", "!!str", "!tag", "&anchor", "*alias", "|", ">", "@at", "`tick",
        "%dir", "[a]", "{a: b}", "1 2 3", "12:30", "12:30:45", "2001-12-14", "2001-12-14t21:59:43.10-05:00", "1.2.3.4", "0.0.0.0", "v1.0", "1e", "e", "E5",
        "0x", "0xZZ", "x0x1", "one", "NaN.", "inf.", "naïve", "Ünïcödé", "日本語", "emoji 😀", "\u{FEFF}bom", "very long string ".repeat(8).as_str(),
    ] {
        push(t.to_string(), Family::Str);
    }

    // ---- base64-like payloads (used with every tag, interesting with !!binary)
    for t in [
        "aGk=", "aGVsbG8=", "aGVsbG8", "aGVsbG8==", "aGVs bG8=", "aGVs\nbG8=", "aGVs\tbG8=", "aGVs\r\nbG8=", " aGk= ", "aGk=\n", "AA==", "AB==", "AQ==", "AAA=",
        "AAB=", "AAE=", "AAAA", "/w==", "//8=", "////", "++++", "+/+/", "w6k=", "5pel", "8J+YgA==", "wyg=", "4oKs", "a", "aG", "aGk", "aGk==", "a===",
        "====", "=", "==", "aGk=aGk=", "TQ==TQ==", "aG=k", "a=Gk", "=aGk", "aGk-", "aGk_", "aG.k", "aGk?", "aGk!", "MTI=", "MTIz", "1234", "12345678", "null",
        "NULL", "Null", "true", "True", "yes+", "0x10", "aGk\u{0b}=", "aGk\u{0c}=", "aGk\u{a0}=", "aGk\u{85}=", "YWJj ZGVm Z2hp", "YWJjZGVmZ2hpamtsbW5vcHFyc3R1dnd4eXo=",
    ] {
        push(t.to_string(), Family::B64);
    }

    let mut seen: HashSet<String> = HashSet::new();
    out.retain(|t| seen.insert(t.text.clone()));
    out
}

/// Seeded tokens beyond the fixed corpus: random magnitudes up to 140 bits in a
/// random radix with random sign / prefix case / separators / leading zeros,
/// random decimal floats, each optionally hit by one random single-character
/// edit (insert / delete / replace from a small alphabet).
pub fn random_token(rng: &mut Rng) -> Token {
    const EDIT: &[char] = &['0', '1', '7', '8', '9', 'a', 'f', 'g', 'x', 'o', 'b', '_', '+', '-', '.', 'e', 'E', ' ', 'n', 'y', '~'];
    let (mut text, family) = if rng.chance(2, 3) {
        let bits = *rng.pick(&[3usize, 7, 8, 9, 15, 16, 17, 31, 32, 33, 63, 64, 65, 100, 127, 128, 129, 140]);
        let mut m = BigUint::zero();
        for i in 0..bits {
            let bit = if i == 0 { 1 } else { (rng.next_u64() & 1) as u32 };
            m.mul_small_add(2, bit);
        }
        if rng.chance(1, 3) {
            // snap to a boundary neighbourhood
            let p = BigUint::pow2(bits as u32);
            let d = BigUint::from_u128(rng.below(3) as u128);
            m = if rng.bool() { p.add(&d) } else { p.checked_sub(&d).unwrap_or(p) };
        }
        let (p, mut d) = match rng.below(6) {
            0 | 1 => ("", m.to_radix(10, false)),
            2 => (*rng.pick(&["0x", "0X"]), m.to_radix(16, rng.bool())),
            3 => (*rng.pick(&["0o", "0O"]), m.to_radix(8, false)),
            4 => (*rng.pick(&["0b", "0B"]), m.to_radix(2, false)),
            _ => ("00", m.to_radix(8, false)),
        };
        for _ in 0..rng.below(3) {
            let pos = rng.below(d.len() + 1);
            d = insert_at(&d, pos, "_");
        }
        if rng.chance(1, 6) {
            d = format!("0{d}");
        }
        let sign = *rng.pick(&["", "", "+", "-", "-"]);
        (format!("{sign}{p}{d}"), Family::Int)
    } else {
        let mant = rng.next_u64() % 10u64.pow(rng.range(1, 18) as u32);
        let frac = rng.below(12);
        let mut s = mant.to_string();
        if frac > 0 {
            while s.len() <= frac {
                s.insert(0, '0');
            }
            let at = s.len() - frac;
            s.insert(at, '.');
        }
        if rng.chance(1, 2) {
            let e = rng.below(700) as i64 - 350;
            s.push_str(&format!("{}{}", rng.pick(&["e", "E"]), e));
        }
        let sign = *rng.pick(&["", "", "+", "-"]);
        (format!("{sign}{s}"), Family::Float)
    };
    if rng.chance(1, 3) && !text.is_empty() {
        let cs: Vec<char> = text.chars().collect();
        let pos = rng.below(cs.len());
        let c = *rng.pick(EDIT);
        let mut n: Vec<char> = cs.clone();
        match rng.below(3) {
            0 => n.insert(pos, c),
            1 => {
                n.remove(pos);
            }
            _ => n[pos] = c,
        }
        text = n.into_iter().collect();
    }
    Token { text, family }
}

// ===================================================================== deepening families

/// 64- and 128-bit boundary magnitudes written in every radix form with one `_`
/// at **every** position of the digit string (0 = right after the prefix, n = at
/// the end), and with two `_` at every adjacent pair of positions for the
/// shorter forms. Sign none and `-`.
pub fn int_separator_tokens() -> Vec<Token> {
    let one = BigUint::from_u128(1);
    let mut mags = Vec::new();
    for bits in [64u32, 128] {
        let half = BigUint::pow2(bits - 1);
        let full = BigUint::pow2(bits);
        mags.push(half.checked_sub(&one).unwrap());
        mags.push(half.clone());
        mags.push(half.add(&one));
        mags.push(full.checked_sub(&one).unwrap());
        mags.push(full);
    }
    let mut out = Vec::new();
    for m in &mags {
        let forms: Vec<(&str, String)> = vec![
            ("", m.to_radix(10, false)),
            ("0x", m.to_radix(16, false)),
            ("0o", m.to_radix(8, false)),
            ("0b", m.to_radix(2, false)),
            ("00", m.to_radix(8, false)),
        ];
        for (p, d) in forms {
            for pos in 0..=d.len() {
                let t = insert_at(&d, pos, "_");
                for sign in ["", "-"] {
                    out.push(Token { text: format!("{sign}{p}{t}"), family: Family::Int });
                }
                if d.len() <= 44 && pos < d.len() {
                    let t2 = insert_at(&t, pos + 2, "_");
                    out.push(Token { text: format!("{p}{t2}"), family: Family::Int });
                }
            }
        }
    }
    let mut seen = HashSet::new();
    out.retain(|t| seen.insert(t.text.clone()));
    out
}

/// Float literals with extreme exponents and very long mantissas:
/// * ten mantissas × every decimal exponent −400..=400;
/// * digit strings of 60…800 digits with the point at a random place and a
///   random exponent (from `rng`);
/// * exact decimal expansions of half-way points between adjacent f64 / f32
///   values (up to ~770 digits), the same nudged just above and just below —
///   from fixed bit patterns around every format boundary plus patterns from `rng`.
pub fn long_float_tokens(rng: &mut Rng, n_random_mantissas: usize, n_random_midpoints: usize) -> Vec<Token> {
    use crate::refscalar::{F32_FORMAT, F64_FORMAT, midpoint_above};
    let mut out: Vec<String> = Vec::new();
    for m in [
        "1", "5", "2.5", "9.99999999999999999999", "1.7976931348623157", "4.9406564584124654", "2.2250738585072014", "1.1754943508222875",
        "3.4028234663852886", "1.401298464324817",
    ] {
        for e in -400..=400 {
            out.push(format!("{m}e{e}"));
        }
    }
    for i in 0..n_random_mantissas {
        let len = *rng.pick(&[60usize, 100, 200, 400, 767, 800]);
        let mut d = String::with_capacity(len + 8);
        for j in 0..len {
            let c = if j == 0 { b'1' + rng.below(9) as u8 } else { b'0' + rng.below(10) as u8 };
            d.push(c as char);
        }
        let point = rng.below(len + 1);
        let mut s = match point {
            0 => format!(".{d}"),
            p if p == len => d.clone(),
            p => format!("{}.{}", &d[..p], &d[p..]),
        };
        match i % 4 {
            0 => {}
            1 => s.push_str(&format!("e{}", rng.below(700) as i64 - 350 - point as i64)),
            2 => s.push_str(&format!("E-{}", point + rng.below(340))),
            _ => s.push_str(&format!("e+{}", rng.below(320))),
        }
        out.push(if rng.chance(1, 4) { format!("-{s}") } else { s });
    }
    let nudge = |out: &mut Vec<String>, mid: String| {
        out.push(format!("{mid}0000000000000000000001"));
        let last = *mid.as_bytes().last().unwrap();
        if last.is_ascii_digit() && last > b'0' {
            let mut s = mid[..mid.len() - 1].to_string();
            s.push((last - 1) as char);
            s.push_str("9999999999999999999999");
            out.push(s);
        }
        out.push(mid);
    };
    let mut f64_bits: Vec<u64> = vec![
        0, 1, 2, 3, 0x000F_FFFF_FFFF_FFFE, 0x000F_FFFF_FFFF_FFFF, 0x0010_0000_0000_0000, 0x0010_0000_0000_0001, 0x001F_FFFF_FFFF_FFFF,
        0x3FEF_FFFF_FFFF_FFFF, 0x3FF0_0000_0000_0000, 0x3FF0_0000_0000_0001, 0x433F_FFFF_FFFF_FFFF, 0x4340_0000_0000_0000, 0x7FEF_FFFF_FFFF_FFFE,
        0x7FEF_FFFF_FFFF_FFFF,
    ];
    let mut f32_bits: Vec<u32> = vec![0, 1, 2, 0x007F_FFFE, 0x007F_FFFF, 0x0080_0000, 0x0080_0001, 0x3F7F_FFFF, 0x3F80_0000, 0x3F80_0001, 0x4B7F_FFFF, 0x7F7F_FFFE, 0x7F7F_FFFF];
    for _ in 0..n_random_midpoints {
        let be = match rng.below(4) {
            0 => rng.below(3) as u64,
            1 => 2044 + rng.below(3) as u64,
            _ => rng.below(2047) as u64,
        };
        f64_bits.push((be << 52) | (rng.next_u64() & ((1 << 52) - 1)));
        let be32 = match rng.below(4) {
            0 => rng.below(3) as u32,
            1 => 252 + rng.below(3) as u32,
            _ => rng.below(255) as u32,
        };
        f32_bits.push((be32 << 23) | (rng.next_u64() as u32 & ((1 << 23) - 1)));
    }
    for b in f64_bits {
        if let Some(mid) = midpoint_above(b, F64_FORMAT) {
            nudge(&mut out, mid);
        }
    }
    for b in f32_bits {
        if let Some(mid) = midpoint_above(b as u64, F32_FORMAT) {
            nudge(&mut out, mid);
        }
    }
    let mut seen = HashSet::new();
    out.retain(|t| seen.insert(t.clone()));
    out.into_iter().map(|text| Token { text, family: Family::Float }).collect()
}
