//! Enumeration and random generation of generator trees (`ydoc::Node`).

use crate::rng::Rng;
use crate::ydoc::{Node, Style};

/// Leaf alphabet entry.
#[derive(Clone, Debug)]
pub struct Leaf {
    pub text: &'static str,
    pub style: Style,
    /// append a unique index to the text (keeps every leaf distinguishable)
    pub unique: bool,
}

pub const LEAVES_BASIC: &[Leaf] = &[
    Leaf { text: "x", style: Style::Plain, unique: true },
    Leaf { text: "1", style: Style::Plain, unique: false },
    Leaf { text: "", style: Style::Double, unique: false },
    Leaf { text: "~", style: Style::Plain, unique: false },
    Leaf { text: "q q", style: Style::Single, unique: false },
];

/// All alias-free, anchor-free trees with exactly `n` nodes. Map keys are plain
/// scalars `k1`, `k2`, … (they count as nodes); map values and sequence items
/// are arbitrary sub-trees. Empty collections count as one node.
pub fn base_trees(n: usize, leaves: &[Leaf]) -> Vec<Node> {
    let mut memo: Vec<Vec<Node>> = vec![Vec::new(); n + 1];
    for k in 1..=n {
        let mut out = Vec::new();
        if k == 1 {
            for l in leaves {
                out.push(Node::Scalar { text: l.text.to_string(), style: l.style, tag: None, anchor: None });
            }
            out.push(Node::seq(vec![]));
            out.push(Node::map(vec![]));
        } else {
            // sequences: k-1 nodes split over >=1 items
            for parts in compositions(k - 1) {
                let mut acc: Vec<Vec<Node>> = vec![vec![]];
                for p in &parts {
                    let mut next = Vec::new();
                    for pre in &acc {
                        for t in &memo[*p] {
                            let mut v = pre.clone();
                            v.push(t.clone());
                            next.push(v);
                        }
                    }
                    acc = next;
                }
                for items in acc {
                    out.push(Node::seq(items));
                }
            }
            // mappings: entries (key = 1 node + value sub-tree), k-1 nodes split over entries, each part >= 2
            for parts in compositions(k - 1) {
                if parts.iter().any(|p| *p < 2) {
                    continue;
                }
                let mut acc: Vec<Vec<(Node, Node)>> = vec![vec![]];
                for (ei, p) in parts.iter().enumerate() {
                    let mut next = Vec::new();
                    for pre in &acc {
                        for t in &memo[*p - 1] {
                            let mut v = pre.clone();
                            v.push((Node::plain(&format!("k{}", ei + 1)), t.clone()));
                            next.push(v);
                        }
                    }
                    acc = next;
                }
                for entries in acc {
                    out.push(Node::map(entries));
                }
            }
        }
        memo[k] = out;
    }
    let mut res = std::mem::take(&mut memo[n]);
    for t in &mut res {
        let mut c = 0;
        uniquify(t, leaves, &mut c);
    }
    res
}

fn uniquify(n: &mut Node, leaves: &[Leaf], c: &mut usize) {
    match n {
        Node::Scalar { text, style, .. } => {
            if leaves.iter().any(|l| l.unique && l.text == text && l.style == *style) {
                text.push_str(&c.to_string());
                *c += 1;
            }
        }
        Node::Seq { items, .. } => {
            for i in items {
                uniquify(i, leaves, c);
            }
        }
        Node::Map { entries, .. } => {
            for (_, v) in entries {
                uniquify(v, leaves, c);
            }
        }
        Node::Alias(_) => {}
    }
}

/// All ordered compositions of n into positive parts.
pub fn compositions(n: usize) -> Vec<Vec<usize>> {
    if n == 0 {
        return vec![vec![]];
    }
    let mut out = Vec::new();
    for first in 1..=n {
        for mut rest in compositions(n - first) {
            let mut v = vec![first];
            v.append(&mut rest);
            out.push(v);
        }
    }
    out
}

/// Pre-order paths to every node (keys and values of maps, items of seqs).
pub fn node_paths(n: &Node) -> Vec<Vec<usize>> {
    fn go(n: &Node, cur: &mut Vec<usize>, out: &mut Vec<Vec<usize>>) {
        out.push(cur.clone());
        match n {
            Node::Seq { items, .. } => {
                for (i, it) in items.iter().enumerate() {
                    cur.push(i);
                    go(it, cur, out);
                    cur.pop();
                }
            }
            Node::Map { entries, .. } => {
                for (i, (k, v)) in entries.iter().enumerate() {
                    cur.push(2 * i);
                    go(k, cur, out);
                    cur.pop();
                    cur.push(2 * i + 1);
                    go(v, cur, out);
                    cur.pop();
                }
            }
            _ => {}
        }
    }
    let mut out = Vec::new();
    go(n, &mut Vec::new(), &mut out);
    out
}

pub fn node_at<'a>(n: &'a Node, path: &[usize]) -> &'a Node {
    let mut cur = n;
    for p in path {
        cur = match cur {
            Node::Seq { items, .. } => &items[*p],
            Node::Map { entries, .. } => {
                if p % 2 == 0 {
                    &entries[p / 2].0
                } else {
                    &entries[p / 2].1
                }
            }
            _ => unreachable!(),
        };
    }
    cur
}

pub fn node_at_mut<'a>(n: &'a mut Node, path: &[usize]) -> &'a mut Node {
    let mut cur = n;
    for p in path {
        cur = match cur {
            Node::Seq { items, .. } => &mut items[*p],
            Node::Map { entries, .. } => {
                if p % 2 == 0 {
                    &mut entries[p / 2].0
                } else {
                    &mut entries[p / 2].1
                }
            }
            _ => unreachable!(),
        };
    }
    cur
}

/// Random tree with about `budget` nodes; `depth` limits nesting.
pub fn random_tree(rng: &mut Rng, budget: usize, depth: usize, leaves: &[Leaf], counter: &mut usize) -> Node {
    if budget <= 1 || depth == 0 || rng.chance(1, 4) {
        if rng.chance(1, 12) {
            return if rng.bool() { Node::seq(vec![]) } else { Node::map(vec![]) };
        }
        let l = rng.pick(leaves);
        let mut text = l.text.to_string();
        if l.unique {
            text.push_str(&counter.to_string());
            *counter += 1;
        }
        return Node::Scalar { text, style: l.style, tag: None, anchor: None };
    }
    let flow = rng.chance(1, 4);
    if rng.bool() {
        let k = rng.range(1, 4.min(budget - 1).max(1));
        let mut items = Vec::new();
        let each = ((budget - 1) / k).max(1);
        for _ in 0..k {
            items.push(random_tree(rng, each, depth - 1, leaves, counter));
        }
        let mut n = Node::seq(items);
        if flow {
            n.set_flow(true);
        }
        n
    } else {
        let k = rng.range(1, 4.min((budget - 1) / 2).max(1));
        let mut entries = Vec::new();
        let each = ((budget - 1) / k).saturating_sub(1).max(1);
        for i in 0..k {
            entries.push((Node::plain(&format!("k{}", i + 1)), random_tree(rng, each, depth - 1, leaves, counter)));
        }
        let mut n = Node::map(entries);
        if flow {
            n.set_flow(true);
        }
        n
    }
}
