//! Observers: panic capture, counting allocator, instrumented reader/writer,
//! subprocess runner with rlimits and rusage.

use std::alloc::{GlobalAlloc, Layout, System};
use std::cell::{Cell, RefCell};
use std::io::{self, Read, Write};
use std::panic::{AssertUnwindSafe, catch_unwind};
use std::sync::Once;

// ---------------------------------------------------------------- panics

thread_local! {
    static LAST_PANIC: RefCell<Option<String>> = const { RefCell::new(None) };
    static QUIET: Cell<bool> = const { Cell::new(false) };
}

static HOOK: Once = Once::new();

/// Install a panic hook that records message + location in a thread-local and
/// prints nothing while a `catch` is active on this thread.
pub fn install_quiet_panic_hook() {
    HOOK.call_once(|| {
        let prev = std::panic::take_hook();
        std::panic::set_hook(Box::new(move |info| {
            let msg = if let Some(s) = info.payload().downcast_ref::<&str>() {
                (*s).to_string()
            } else if let Some(s) = info.payload().downcast_ref::<String>() {
                s.clone()
            } else {
                "<non-string panic payload>".to_string()
            };
            let loc = info
                .location()
                .map(|l| format!("{}:{}:{}", l.file(), l.line(), l.column()))
                .unwrap_or_default();
            let quiet = QUIET.with(|q| q.get());
            LAST_PANIC.with(|p| *p.borrow_mut() = Some(format!("{msg} @ {loc}")));
            if !quiet {
                prev(info);
            }
        }));
    });
}

/// Run `f`, turning an unwinding panic into `Err("message @ file:line:col")`.
pub fn catch<T>(f: impl FnOnce() -> T) -> Result<T, String> {
    install_quiet_panic_hook();
    let was = QUIET.with(|q| q.replace(true));
    LAST_PANIC.with(|p| *p.borrow_mut() = None);
    let r = catch_unwind(AssertUnwindSafe(f));
    QUIET.with(|q| q.set(was));
    match r {
        Ok(v) => Ok(v),
        Err(_) => Err(LAST_PANIC
            .with(|p| p.borrow_mut().take())
            .unwrap_or_else(|| "<panic>".into())),
    }
}

/// Strip the line/column from a panic description so it can serve as a signature.
pub fn panic_site(desc: &str) -> String {
    // "msg @ file:line:col" -> "file:line"
    match desc.rsplit_once(" @ ") {
        Some((_, loc)) => {
            let mut parts = loc.rsplitn(2, ':');
            let _col = parts.next();
            parts.next().unwrap_or(loc).to_string()
        }
        None => desc.chars().take(60).collect(),
    }
}

// ---------------------------------------------------------------- allocator

/// Counting allocator: per-thread current / peak / total bytes. A binary opts in
/// with `#[global_allocator] static A: vcore::obs::CountingAlloc = vcore::obs::CountingAlloc;`
pub struct CountingAlloc;

thread_local! {
    static CUR: Cell<isize> = const { Cell::new(0) };
    static PEAK: Cell<isize> = const { Cell::new(0) };
    static TOTAL: Cell<usize> = const { Cell::new(0) };
    static NALLOC: Cell<usize> = const { Cell::new(0) };
}

#[inline]
fn on_alloc(n: usize) {
    let _ = CUR.try_with(|c| {
        let v = c.get() + n as isize;
        c.set(v);
        let _ = PEAK.try_with(|p| {
            if v > p.get() {
                p.set(v)
            }
        });
    });
    let _ = TOTAL.try_with(|t| t.set(t.get().wrapping_add(n)));
    let _ = NALLOC.try_with(|t| t.set(t.get().wrapping_add(1)));
}
#[inline]
fn on_free(n: usize) {
    let _ = CUR.try_with(|c| c.set(c.get() - n as isize));
}

unsafe impl GlobalAlloc for CountingAlloc {
    unsafe fn alloc(&self, l: Layout) -> *mut u8 {
        let p = unsafe { System.alloc(l) };
        if !p.is_null() {
            on_alloc(l.size());
        }
        p
    }
    unsafe fn dealloc(&self, p: *mut u8, l: Layout) {
        unsafe { System.dealloc(p, l) };
        on_free(l.size());
    }
    unsafe fn alloc_zeroed(&self, l: Layout) -> *mut u8 {
        let p = unsafe { System.alloc_zeroed(l) };
        if !p.is_null() {
            on_alloc(l.size());
        }
        p
    }
    unsafe fn realloc(&self, p: *mut u8, l: Layout, new: usize) -> *mut u8 {
        let q = unsafe { System.realloc(p, l, new) };
        if !q.is_null() {
            on_free(l.size());
            on_alloc(new);
        }
        q
    }
}

#[derive(Clone, Copy, Debug, Default)]
pub struct AllocStats {
    /// Peak of (live bytes − live bytes at reset) on this thread.
    pub peak: usize,
    pub total: usize,
    pub allocs: usize,
    /// live bytes now − live bytes at reset
    pub live: isize,
}

/// Reset this thread's peak/total to "now".
pub fn alloc_reset() -> isize {
    let cur = CUR.with(|c| c.get());
    PEAK.with(|p| p.set(cur));
    TOTAL.with(|t| t.set(0));
    NALLOC.with(|t| t.set(0));
    cur
}
pub fn alloc_stats(base: isize) -> AllocStats {
    let cur = CUR.with(|c| c.get());
    let peak = PEAK.with(|p| p.get());
    AllocStats {
        peak: (peak - base).max(0) as usize,
        total: TOTAL.with(|t| t.get()),
        allocs: NALLOC.with(|t| t.get()),
        live: cur - base,
    }
}

// ---------------------------------------------------------------- reader

#[derive(Clone, Debug, PartialEq, Eq)]
pub enum Fault {
    None,
    /// Hard error on the k-th read call (0-based).
    ErrOnCall(usize),
    /// Hard error once `k` bytes have been handed out (the read that would
    /// deliver byte k returns the bytes before it first, then fails).
    ErrAfterBytes(usize),
    /// Clean EOF after `k` bytes (truncation; interesting inside a code point).
    EofAfterBytes(usize),
}

/// Chunk schedule: sizes cycle; a size of 0 is never produced.
#[derive(Clone, Debug)]
pub struct Schedule(pub Vec<usize>);

impl Schedule {
    pub fn fixed(k: usize) -> Self {
        Schedule(vec![k.max(1)])
    }
}

#[derive(Debug, Default, Clone)]
pub struct ReadStats {
    pub calls: usize,
    pub bytes_out: usize,
    pub fault_fired: bool,
    pub eof_seen: bool,
    pub calls_after_fault: usize,
}

pub struct FaultReader<'a> {
    data: &'a [u8],
    pos: usize,
    sched: Schedule,
    sched_i: usize,
    fault: Fault,
    pub stats: std::rc::Rc<RefCell<ReadStats>>,
}

impl<'a> FaultReader<'a> {
    pub fn new(data: &'a [u8], sched: Schedule, fault: Fault) -> Self {
        FaultReader {
            data,
            pos: 0,
            sched,
            sched_i: 0,
            fault,
            stats: Default::default(),
        }
    }
    pub fn stats_handle(&self) -> std::rc::Rc<RefCell<ReadStats>> {
        self.stats.clone()
    }
}

impl Read for FaultReader<'_> {
    fn read(&mut self, buf: &mut [u8]) -> io::Result<usize> {
        let mut st = self.stats.borrow_mut();
        let call = st.calls;
        st.calls += 1;
        if st.fault_fired {
            st.calls_after_fault += 1;
        }
        if buf.is_empty() {
            return Ok(0);
        }
        if let Fault::ErrOnCall(k) = self.fault
            && call >= k
        {
            st.fault_fired = true;
            return Err(io::Error::other("injected read fault (call)"));
        }
        let mut limit = self.data.len();
        match self.fault {
            Fault::ErrAfterBytes(k) => {
                if self.pos >= k {
                    st.fault_fired = true;
                    return Err(io::Error::other("injected read fault (bytes)"));
                }
                limit = limit.min(k);
            }
            Fault::EofAfterBytes(k) => {
                limit = limit.min(k);
                if self.pos >= limit && k < self.data.len() {
                    st.fault_fired = true;
                }
            }
            _ => {}
        }
        if self.pos >= limit {
            st.eof_seen = true;
            return Ok(0);
        }
        let want = self.sched.0[self.sched_i % self.sched.0.len()].max(1);
        self.sched_i += 1;
        let n = want.min(buf.len()).min(limit - self.pos);
        buf[..n].copy_from_slice(&self.data[self.pos..self.pos + n]);
        self.pos += n;
        st.bytes_out += n;
        Ok(n)
    }
}

// ---------------------------------------------------------------- writer

#[derive(Clone, Debug, PartialEq, Eq)]
pub enum WFault {
    None,
    ErrOnCall(usize),
    ErrAfterBytes(usize),
}

#[derive(Debug, Default, Clone)]
pub struct WriteStats {
    pub calls: usize,
    pub accepted: Vec<u8>,
    pub fault_fired: bool,
    pub flushes: usize,
}

pub struct FaultWriter {
    fault: WFault,
    /// maximum bytes accepted per call (short writes); 0 = unlimited
    short: usize,
    pub stats: std::rc::Rc<RefCell<WriteStats>>,
}

impl FaultWriter {
    pub fn new(fault: WFault, short: usize) -> Self {
        FaultWriter {
            fault,
            short,
            stats: Default::default(),
        }
    }
    pub fn stats_handle(&self) -> std::rc::Rc<RefCell<WriteStats>> {
        self.stats.clone()
    }
}

pub const WFAULT_MSG: &str = "injected write fault";

impl Write for FaultWriter {
    fn write(&mut self, buf: &[u8]) -> io::Result<usize> {
        let mut st = self.stats.borrow_mut();
        let call = st.calls;
        st.calls += 1;
        if buf.is_empty() {
            return Ok(0);
        }
        match self.fault {
            WFault::ErrOnCall(k) if call >= k => {
                st.fault_fired = true;
                return Err(io::Error::other(WFAULT_MSG));
            }
            WFault::ErrAfterBytes(k) => {
                if st.accepted.len() >= k {
                    st.fault_fired = true;
                    return Err(io::Error::other(WFAULT_MSG));
                }
                let room = k - st.accepted.len();
                let mut n = buf.len().min(room);
                if self.short > 0 {
                    n = n.min(self.short);
                }
                st.accepted.extend_from_slice(&buf[..n]);
                return Ok(n);
            }
            _ => {}
        }
        let n = if self.short > 0 { buf.len().min(self.short) } else { buf.len() };
        st.accepted.extend_from_slice(&buf[..n]);
        Ok(n)
    }
    fn flush(&mut self) -> io::Result<()> {
        self.stats.borrow_mut().flushes += 1;
        Ok(())
    }
}

// ---------------------------------------------------------------- subprocess

#[derive(Debug, Clone)]
pub struct ChildOutcome {
    pub exit_code: Option<i32>,
    pub signal: Option<i32>,
    pub stdout: String,
    pub stderr: String,
    pub user_s: f64,
    pub sys_s: f64,
    pub max_rss_kb: i64,
    pub timed_out: bool,
    pub wall_s: f64,
}

/// Run `exe args…` as a child with the given limits. `stack_bytes` sets
/// RLIMIT_STACK (main-thread stack), `as_bytes` RLIMIT_AS, `cpu_s` RLIMIT_CPU.
/// `wall_s` is a watchdog only: if it fires the outcome is marked `timed_out`
/// (the caller must treat that as inconclusive).
pub fn run_child(
    exe: &std::path::Path,
    args: &[String],
    stdin_data: Option<&[u8]>,
    stack_bytes: Option<u64>,
    as_bytes: Option<u64>,
    cpu_s: Option<u64>,
    wall_s: u64,
) -> io::Result<ChildOutcome> {
    use std::os::unix::process::{CommandExt, ExitStatusExt};
    use std::process::{Command, Stdio};
    let mut cmd = Command::new(exe);
    cmd.args(args)
        .stdin(if stdin_data.is_some() { Stdio::piped() } else { Stdio::null() })
        .stdout(Stdio::piped())
        .stderr(Stdio::piped());
    unsafe {
        cmd.pre_exec(move || {
            let set = |res, v: u64| {
                let lim = libc::rlimit {
                    rlim_cur: v as libc::rlim_t,
                    rlim_max: v as libc::rlim_t,
                };
                libc::setrlimit(res, &lim);
            };
            if let Some(s) = stack_bytes {
                set(libc::RLIMIT_STACK, s);
            }
            if let Some(a) = as_bytes {
                set(libc::RLIMIT_AS, a);
            }
            if let Some(c) = cpu_s {
                set(libc::RLIMIT_CPU, c);
            }
            // no core files
            set(libc::RLIMIT_CORE, 0);
            Ok(())
        });
    }
    let t0 = std::time::Instant::now();
    let mut child = cmd.spawn()?;
    let pid = child.id() as libc::pid_t;
    if let Some(d) = stdin_data {
        let mut si = child.stdin.take().unwrap();
        let d = d.to_vec();
        std::thread::spawn(move || {
            let _ = si.write_all(&d);
        });
    }
    let mut so = child.stdout.take().unwrap();
    let mut se = child.stderr.take().unwrap();
    let h1 = std::thread::spawn(move || {
        let mut s = Vec::new();
        let _ = so.read_to_end(&mut s);
        s
    });
    let h2 = std::thread::spawn(move || {
        let mut s = Vec::new();
        let _ = se.read_to_end(&mut s);
        s
    });
    // wait4 with polling for the watchdog
    let mut status: libc::c_int = 0;
    let mut ru: libc::rusage = unsafe { std::mem::zeroed() };
    let mut timed_out = false;
    loop {
        let r = unsafe { libc::wait4(pid, &mut status, libc::WNOHANG, &mut ru) };
        if r == pid {
            break;
        }
        if r < 0 {
            break;
        }
        if t0.elapsed().as_secs() >= wall_s {
            timed_out = true;
            unsafe { libc::kill(pid, libc::SIGKILL) };
            unsafe { libc::wait4(pid, &mut status, 0, &mut ru) };
            break;
        }
        std::thread::sleep(std::time::Duration::from_millis(2));
    }
    let st = std::process::ExitStatus::from_raw(status);
    let out = h1.join().unwrap_or_default();
    let err = h2.join().unwrap_or_default();
    let tv = |t: libc::timeval| t.tv_sec as f64 + t.tv_usec as f64 / 1e6;
    // `child` must not be waited again
    std::mem::forget(child);
    Ok(ChildOutcome {
        exit_code: st.code(),
        signal: st.signal(),
        stdout: String::from_utf8_lossy(&out).into_owned(),
        stderr: String::from_utf8_lossy(&err).into_owned(),
        user_s: tv(ru.ru_utime),
        sys_s: tv(ru.ru_stime),
        max_rss_kb: ru.ru_maxrss,
        timed_out,
        wall_s: t0.elapsed().as_secs_f64(),
    })
}

/// Thread CPU time in seconds (for in-process bounded-progress checks).
pub fn thread_cpu_s() -> f64 {
    let mut ts = libc::timespec { tv_sec: 0, tv_nsec: 0 };
    unsafe { libc::clock_gettime(libc::CLOCK_THREAD_CPUTIME_ID, &mut ts) };
    ts.tv_sec as f64 + ts.tv_nsec as f64 / 1e9
}
