//! Generators for documents with anchors and aliases whose aliases all resolve
//! (used by C07 / C08): exhaustive decoration of sequence-only trees with up to
//! `max_anchors` anchors and `max_aliases` aliases (nested anchors, an inner
//! anchor aliased while the outer one is still open, aliases inside anchored
//! containers followed by aliases to those containers, re-defined names), and a
//! sized random generator.

use crate::rng::Rng;
use crate::treegen::{self, LEAVES_BASIC, Leaf};
use crate::ydoc::{self, Node, Style};

const LEAF_X: &[Leaf] = &[Leaf { text: "x", style: Style::Plain, unique: true }];

fn has_map(n: &Node) -> bool {
    match n {
        Node::Map { .. } => true,
        Node::Seq { items, .. } => items.iter().any(has_map),
        _ => false,
    }
}

/// All trees with exactly `n` nodes built from sequences, the scalar leaf `x<i>` and the empty sequence.
pub fn seq_trees(n: usize) -> Vec<Node> {
    treegen::base_trees(n, LEAF_X).into_iter().filter(|t| !has_map(t)).collect()
}

fn subsets_up_to(n: usize, k: usize) -> Vec<Vec<usize>> {
    let mut out = vec![vec![]];
    fn go(start: usize, n: usize, k: usize, cur: &mut Vec<usize>, out: &mut Vec<Vec<usize>>) {
        if cur.len() == k {
            return;
        }
        for i in start..n {
            cur.push(i);
            out.push(cur.clone());
            go(i + 1, n, k, cur, out);
            cur.pop();
        }
    }
    go(0, n, k, &mut Vec::new(), &mut out);
    out
}

fn name_vectors(len: usize, names: &[&'static str]) -> Vec<Vec<&'static str>> {
    let mut out: Vec<Vec<&'static str>> = vec![vec![]];
    for _ in 0..len {
        let mut next = Vec::new();
        for v in &out {
            for n in names {
                let mut w = v.clone();
                w.push(*n);
                next.push(w);
            }
        }
        out = next;
    }
    out
}

/// Every placement of <= `max_anchors` anchors (on any node) and 1..=`max_aliases` aliases (replacing
/// leaves), names drawn from `names` independently, such that every alias resolves by the
/// "most recent closed anchor of that name" rule.
pub fn decorate(base: &Node, max_anchors: usize, max_aliases: usize, names: &[&'static str]) -> Vec<Node> {
    let paths = treegen::node_paths(base);
    let leaf_idx: Vec<usize> = (0..paths.len())
        .filter(|&i| match treegen::node_at(base, &paths[i]) {
            Node::Scalar { .. } => true,
            Node::Seq { items, .. } => items.is_empty(),
            Node::Map { entries, .. } => entries.is_empty(),
            Node::Alias(_) => false,
        })
        .collect();
    let mut out = Vec::new();
    for al in subsets_up_to(leaf_idx.len(), max_aliases) {
        if al.is_empty() {
            continue;
        }
        let al_paths: Vec<usize> = al.iter().map(|&i| leaf_idx[i]).collect();
        // the root cannot be an alias and an alias needs an earlier anchor
        if al_paths.contains(&0) {
            continue;
        }
        for an in subsets_up_to(paths.len(), max_anchors) {
            if an.is_empty() || an.iter().any(|i| al_paths.contains(i)) {
                continue;
            }
            // an anchor must precede the first alias in document order
            if an[0] > al_paths[0] {
                continue;
            }
            for an_names in name_vectors(an.len(), names) {
                for al_names in name_vectors(al.len(), names) {
                    if !al_names.iter().all(|n| an_names.contains(n)) {
                        continue;
                    }
                    let mut t = base.clone();
                    for (i, name) in an.iter().zip(&an_names) {
                        let n = treegen::node_at_mut(&mut t, &paths[*i]);
                        *n = n.clone().with_anchor(name);
                    }
                    for (i, name) in al_paths.iter().zip(&al_names) {
                        *treegen::node_at_mut(&mut t, &paths[*i]) = Node::alias(name);
                    }
                    if ydoc::expand(&t).is_some() {
                        out.push(t);
                    }
                }
            }
        }
    }
    out
}

/// Random tree of about `size` nodes (<= `depth` deep) with up to `marks` anchors and up to `marks`
/// aliases (kept only while everything resolves); some aliased map values get a `<<` key.
pub fn random_resolvable(rng: &mut Rng, size: usize, depth: usize, marks: usize) -> Node {
    let mut counter = 0;
    let mut t = treegen::random_tree(rng, size, depth, LEAVES_BASIC, &mut counter);
    let paths = treegen::node_paths(&t);
    let names = ["a", "b", "c", "d"];
    let n_anchor = rng.range(1, marks.min(paths.len()).max(1));
    for _ in 0..n_anchor {
        let p = rng.pick(&paths).clone();
        let name = *rng.pick(&names);
        let n = treegen::node_at_mut(&mut t, &p);
        if !matches!(n, Node::Alias(_)) {
            *n = n.clone().with_anchor(name);
        }
    }
    let n_alias = rng.range(1, marks.max(1));
    for _ in 0..n_alias {
        let paths = treegen::node_paths(&t);
        let p = rng.pick(&paths).clone();
        if p.is_empty() {
            continue;
        }
        let name = *rng.pick(&names);
        let mut t2 = t.clone();
        *treegen::node_at_mut(&mut t2, &p) = Node::alias(name);
        if let Some((&last, parent)) = p.split_last()
            && last % 2 == 1
            && matches!(treegen::node_at(&t2, parent), Node::Map { .. })
            && rng.chance(1, 3)
        {
            let mut kp = parent.to_vec();
            kp.push(last - 1);
            *treegen::node_at_mut(&mut t2, &kp) = Node::plain("<<");
        }
        if ydoc::expand(&t2).is_some() {
            t = t2;
        }
    }
    t
}
