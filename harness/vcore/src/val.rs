//! `Val`: untyped, order-preserving value tree. Maps keep every delivered pair in
//! delivery order, so LastWins delivery, merge order and duplicates are visible.

use serde::de::{self, Deserialize, Deserializer, MapAccess, SeqAccess, Visitor};
use serde::ser::{Serialize, SerializeMap, SerializeSeq, Serializer};
use std::fmt;

#[derive(Clone, Debug, PartialEq, Eq, Hash, PartialOrd, Ord)]
pub enum Val {
    Null,
    Bool(bool),
    Int(i128),
    /// f64 bits (all NaNs are normalised to one pattern on construction)
    F(u64),
    Str(String),
    Bytes(Vec<u8>),
    Seq(Vec<Val>),
    Map(Vec<(Val, Val)>),
}

pub fn norm_f64_bits(f: f64) -> u64 {
    if f.is_nan() { f64::NAN.to_bits() } else { f.to_bits() }
}

impl Val {
    pub fn f(f: f64) -> Val {
        Val::F(norm_f64_bits(f))
    }
    pub fn s(s: &str) -> Val {
        Val::Str(s.to_string())
    }
    pub fn node_count(&self) -> usize {
        match self {
            Val::Seq(v) => 1 + v.iter().map(|x| x.node_count()).sum::<usize>(),
            Val::Map(m) => 1 + m.iter().map(|(k, v)| k.node_count() + v.node_count()).sum::<usize>(),
            _ => 1,
        }
    }
    /// Overwriting-map view: for every map keep only the last pair per key, at the
    /// position of its first occurrence (what a `BTreeMap`/`HashMap`/struct sees).
    pub fn last_wins(&self) -> Val {
        match self {
            Val::Seq(v) => Val::Seq(v.iter().map(|x| x.last_wins()).collect()),
            Val::Map(m) => {
                let mut out: Vec<(Val, Val)> = Vec::new();
                for (k, v) in m {
                    let k2 = k.last_wins();
                    let v2 = v.last_wins();
                    if let Some(e) = out.iter_mut().find(|(kk, _)| *kk == k2) {
                        e.1 = v2;
                    } else {
                        out.push((k2, v2));
                    }
                }
                Val::Map(out)
            }
            other => other.clone(),
        }
    }
    /// Maps compared as unordered sets of pairs (for targets like BTreeMap).
    pub fn sorted(&self) -> Val {
        match self {
            Val::Seq(v) => Val::Seq(v.iter().map(|x| x.sorted()).collect()),
            Val::Map(m) => {
                let mut out: Vec<(Val, Val)> = m.iter().map(|(k, v)| (k.sorted(), v.sorted())).collect();
                out.sort();
                Val::Map(out)
            }
            other => other.clone(),
        }
    }
    pub fn to_json(&self) -> serde_json::Value {
        use serde_json::json;
        match self {
            Val::Null => serde_json::Value::Null,
            Val::Bool(b) => json!(b),
            Val::Int(i) => json!(i.to_string()),
            Val::F(b) => json!(format!("f64:{:?}", f64::from_bits(*b))),
            Val::Str(s) => json!(s),
            Val::Bytes(b) => json!({ "bytes": b }),
            Val::Seq(v) => serde_json::Value::Array(v.iter().map(|x| x.to_json()).collect()),
            Val::Map(m) => serde_json::Value::Array(
                m.iter().map(|(k, v)| json!({"k": k.to_json(), "v": v.to_json()})).collect(),
            ),
        }
    }
}

impl fmt::Display for Val {
    fn fmt(&self, f: &mut fmt::Formatter<'_>) -> fmt::Result {
        match self {
            Val::Null => write!(f, "~"),
            Val::Bool(b) => write!(f, "{b}"),
            Val::Int(i) => write!(f, "{i}"),
            Val::F(b) => write!(f, "{:?}f", f64::from_bits(*b)),
            Val::Str(s) => write!(f, "{s:?}"),
            Val::Bytes(b) => write!(f, "b{b:?}"),
            Val::Seq(v) => {
                write!(f, "[")?;
                for (i, x) in v.iter().enumerate() {
                    if i > 0 {
                        write!(f, ", ")?;
                    }
                    write!(f, "{x}")?;
                }
                write!(f, "]")
            }
            Val::Map(m) => {
                write!(f, "{{")?;
                for (i, (k, v)) in m.iter().enumerate() {
                    if i > 0 {
                        write!(f, ", ")?;
                    }
                    write!(f, "{k}: {v}")?;
                }
                write!(f, "}}")
            }
        }
    }
}

struct ValVisitor;

impl<'de> Visitor<'de> for ValVisitor {
    type Value = Val;
    fn expecting(&self, f: &mut fmt::Formatter) -> fmt::Result {
        f.write_str("any YAML value")
    }
    fn visit_unit<E>(self) -> Result<Val, E> {
        Ok(Val::Null)
    }
    fn visit_none<E>(self) -> Result<Val, E> {
        Ok(Val::Null)
    }
    fn visit_some<D: Deserializer<'de>>(self, d: D) -> Result<Val, D::Error> {
        Val::deserialize(d)
    }
    fn visit_newtype_struct<D: Deserializer<'de>>(self, d: D) -> Result<Val, D::Error> {
        Val::deserialize(d)
    }
    fn visit_bool<E>(self, v: bool) -> Result<Val, E> {
        Ok(Val::Bool(v))
    }
    fn visit_i64<E>(self, v: i64) -> Result<Val, E> {
        Ok(Val::Int(v as i128))
    }
    fn visit_u64<E>(self, v: u64) -> Result<Val, E> {
        Ok(Val::Int(v as i128))
    }
    fn visit_i128<E>(self, v: i128) -> Result<Val, E> {
        Ok(Val::Int(v))
    }
    fn visit_u128<E: de::Error>(self, v: u128) -> Result<Val, E> {
        i128::try_from(v).map(Val::Int).map_err(|_| E::custom("u128 out of Val range"))
    }
    fn visit_f64<E>(self, v: f64) -> Result<Val, E> {
        Ok(Val::f(v))
    }
    fn visit_char<E>(self, v: char) -> Result<Val, E> {
        Ok(Val::Str(v.to_string()))
    }
    fn visit_str<E>(self, v: &str) -> Result<Val, E> {
        Ok(Val::Str(v.to_string()))
    }
    fn visit_string<E>(self, v: String) -> Result<Val, E> {
        Ok(Val::Str(v))
    }
    fn visit_bytes<E>(self, v: &[u8]) -> Result<Val, E> {
        Ok(Val::Bytes(v.to_vec()))
    }
    fn visit_byte_buf<E>(self, v: Vec<u8>) -> Result<Val, E> {
        Ok(Val::Bytes(v))
    }
    fn visit_seq<A: SeqAccess<'de>>(self, mut a: A) -> Result<Val, A::Error> {
        let mut v = Vec::new();
        while let Some(x) = a.next_element::<Val>()? {
            v.push(x);
        }
        Ok(Val::Seq(v))
    }
    fn visit_map<A: MapAccess<'de>>(self, mut a: A) -> Result<Val, A::Error> {
        let mut v = Vec::new();
        while let Some(k) = a.next_key::<Val>()? {
            let x = a.next_value::<Val>()?;
            v.push((k, x));
        }
        Ok(Val::Map(v))
    }
}

impl<'de> Deserialize<'de> for Val {
    fn deserialize<D: Deserializer<'de>>(d: D) -> Result<Val, D::Error> {
        d.deserialize_any(ValVisitor)
    }
}

impl Serialize for Val {
    fn serialize<S: Serializer>(&self, s: S) -> Result<S::Ok, S::Error> {
        match self {
            Val::Null => s.serialize_unit(),
            Val::Bool(b) => s.serialize_bool(*b),
            Val::Int(i) => {
                if let Ok(v) = i64::try_from(*i) {
                    s.serialize_i64(v)
                } else if let Ok(v) = u64::try_from(*i) {
                    s.serialize_u64(v)
                } else {
                    s.serialize_i128(*i)
                }
            }
            Val::F(b) => s.serialize_f64(f64::from_bits(*b)),
            Val::Str(x) => s.serialize_str(x),
            Val::Bytes(b) => s.serialize_bytes(b),
            Val::Seq(v) => {
                let mut q = s.serialize_seq(Some(v.len()))?;
                for x in v {
                    q.serialize_element(x)?;
                }
                q.end()
            }
            Val::Map(m) => {
                let mut q = s.serialize_map(Some(m.len()))?;
                for (k, v) in m {
                    q.serialize_entry(k, v)?;
                }
                q.end()
            }
        }
    }
}

/// Counting wrapper: deserializes like `Val` but counts visitor callbacks
/// (nodes delivered to the target) in a thread-local, and allocates nothing
/// itself (used for C08's work and memory observers).
pub mod counting {
    use super::*;
    use std::cell::Cell;
    thread_local! {
        pub static CALLBACKS: Cell<u64> = const { Cell::new(0) };
    }
    pub fn reset() {
        CALLBACKS.with(|c| c.set(0));
    }
    pub fn get() -> u64 {
        CALLBACKS.with(|c| c.get())
    }
    #[inline]
    fn bump() {
        CALLBACKS.with(|c| c.set(c.get() + 1));
    }

    /// Zero-allocation target that walks everything.
    pub struct Sink;
    struct SinkVisitor;
    impl<'de> Visitor<'de> for SinkVisitor {
        type Value = Sink;
        fn expecting(&self, f: &mut fmt::Formatter) -> fmt::Result {
            f.write_str("anything")
        }
        fn visit_unit<E>(self) -> Result<Sink, E> {
            bump();
            Ok(Sink)
        }
        fn visit_bool<E>(self, _: bool) -> Result<Sink, E> {
            bump();
            Ok(Sink)
        }
        fn visit_i64<E>(self, _: i64) -> Result<Sink, E> {
            bump();
            Ok(Sink)
        }
        fn visit_u64<E>(self, _: u64) -> Result<Sink, E> {
            bump();
            Ok(Sink)
        }
        fn visit_f64<E>(self, _: f64) -> Result<Sink, E> {
            bump();
            Ok(Sink)
        }
        fn visit_str<E>(self, _: &str) -> Result<Sink, E> {
            bump();
            Ok(Sink)
        }
        fn visit_string<E>(self, _: String) -> Result<Sink, E> {
            bump();
            Ok(Sink)
        }
        fn visit_bytes<E>(self, _: &[u8]) -> Result<Sink, E> {
            bump();
            Ok(Sink)
        }
        fn visit_byte_buf<E>(self, _: Vec<u8>) -> Result<Sink, E> {
            bump();
            Ok(Sink)
        }
        fn visit_seq<A: SeqAccess<'de>>(self, mut a: A) -> Result<Sink, A::Error> {
            bump();
            while a.next_element::<Sink>()?.is_some() {}
            Ok(Sink)
        }
        fn visit_map<A: MapAccess<'de>>(self, mut a: A) -> Result<Sink, A::Error> {
            bump();
            while a.next_key::<Sink>()?.is_some() {
                a.next_value::<Sink>()?;
            }
            Ok(Sink)
        }
    }
    impl<'de> Deserialize<'de> for Sink {
        fn deserialize<D: Deserializer<'de>>(d: D) -> Result<Sink, D::Error> {
            d.deserialize_any(SinkVisitor)
        }
    }
}
