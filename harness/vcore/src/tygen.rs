//! Shared machinery of the serializer checks C13 / C20 (on top of `ty.rs`):
//!
//! * `Opt` — a serializer option vector (valid sets only: `indent_step >= 1`),
//!   convertible to `SerializerOptions` and to/from JSON (for replay files);
//! * `roundtrip` — the C13 oracle on one `(Ty, TVal, Opt)`: serialize, raw parser
//!   sees exactly one document, `from_multiple::<IgnoredAny>` yields one item,
//!   `SchemaSeed(ty)` gives the value back;
//! * structural helpers on `(Ty, TVal)` pairs: node kinds, parent/child contexts,
//!   typed one-step reductions (`shrink_steps`) and a greedy shrinker.

use crate::reftree;
use crate::ty::{EnumTy, FieldTy, Fields, SchemaSeed, StructTy, TSer, TVal, Ty, VariantTy};
use serde::Serialize;
use serde::de::{DeserializeSeed, IgnoredAny};
use serde_json::{Value, json};
use serde_saphyr::SerializerOptions;

// ------------------------------------------------------------------ options

/// Anchor-name generator used when `anchor_gen` is set (plain fn: the option takes a fn pointer).
pub fn custom_anchor_name(id: usize) -> String {
    format!("anc{id}x")
}

#[derive(Clone, Copy, Debug, PartialEq, Eq, Hash)]
pub struct Opt {
    pub indent: usize,
    pub empty_as_braces: bool,
    pub compact_list_indent: bool,
    pub tagged_enums: bool,
    pub prefer_block_scalars: bool,
    pub quote_all: bool,
    pub yaml_12: bool,
    pub anchor_gen: bool,
    pub min_fold_chars: usize,
    pub folded_wrap_chars: usize,
}

pub const OPT_BOOL_NAMES: [&str; 7] =
    ["empty_as_braces", "compact_list_indent", "tagged_enums", "prefer_block_scalars", "quote_all", "yaml_12", "anchor_generator"];

impl Default for Opt {
    fn default() -> Self {
        Opt {
            indent: 2,
            empty_as_braces: true,
            compact_list_indent: false,
            tagged_enums: false,
            prefer_block_scalars: true,
            quote_all: false,
            yaml_12: false,
            anchor_gen: false,
            min_fold_chars: 32,
            folded_wrap_chars: 80,
        }
    }
}

impl Opt {
    /// Bit i set = the i-th boolean (order of `OPT_BOOL_NAMES`) is toggled away from its default.
    pub fn from_bits(bits: u8, indent: usize) -> Opt {
        let d = Opt::default();
        let t = |i: u8, dv: bool| if bits & (1 << i) != 0 { !dv } else { dv };
        Opt {
            indent,
            empty_as_braces: t(0, d.empty_as_braces),
            compact_list_indent: t(1, d.compact_list_indent),
            tagged_enums: t(2, d.tagged_enums),
            prefer_block_scalars: t(3, d.prefer_block_scalars),
            quote_all: t(4, d.quote_all),
            yaml_12: t(5, d.yaml_12),
            anchor_gen: t(6, d.anchor_gen),
            ..d
        }
    }
    pub fn bits(&self) -> u8 {
        let d = Opt::default();
        let b = |i: u8, x: bool, dv: bool| if x != dv { 1u8 << i } else { 0 };
        b(0, self.empty_as_braces, d.empty_as_braces)
            | b(1, self.compact_list_indent, d.compact_list_indent)
            | b(2, self.tagged_enums, d.tagged_enums)
            | b(3, self.prefer_block_scalars, d.prefer_block_scalars)
            | b(4, self.quote_all, d.quote_all)
            | b(5, self.yaml_12, d.yaml_12)
            | b(6, self.anchor_gen, d.anchor_gen)
    }
    pub fn to_ser(&self) -> SerializerOptions {
        let mut o = SerializerOptions::default();
        #[allow(deprecated)]
        {
            o.indent_step = self.indent;
            o.empty_as_braces = self.empty_as_braces;
            o.compact_list_indent = self.compact_list_indent;
            o.tagged_enums = self.tagged_enums;
            o.prefer_block_scalars = self.prefer_block_scalars;
            o.quote_all = self.quote_all;
            o.yaml_12 = self.yaml_12;
            o.anchor_generator = if self.anchor_gen { Some(custom_anchor_name) } else { None };
            o.min_fold_chars = self.min_fold_chars;
            o.folded_wrap_chars = self.folded_wrap_chars;
        }
        o
    }
    pub fn to_json(&self) -> Value {
        json!({
            "indent_step": self.indent,
            "empty_as_braces": self.empty_as_braces,
            "compact_list_indent": self.compact_list_indent,
            "tagged_enums": self.tagged_enums,
            "prefer_block_scalars": self.prefer_block_scalars,
            "quote_all": self.quote_all,
            "yaml_12": self.yaml_12,
            "anchor_generator": self.anchor_gen,
            "min_fold_chars": self.min_fold_chars,
            "folded_wrap_chars": self.folded_wrap_chars,
        })
    }
    pub fn from_json(v: &Value) -> Opt {
        let d = Opt::default();
        let b = |k: &str, dv: bool| v.get(k).and_then(|x| x.as_bool()).unwrap_or(dv);
        let u = |k: &str, dv: usize| v.get(k).and_then(|x| x.as_u64()).map(|x| x as usize).unwrap_or(dv);
        Opt {
            indent: u("indent_step", d.indent).max(1),
            empty_as_braces: b("empty_as_braces", d.empty_as_braces),
            compact_list_indent: b("compact_list_indent", d.compact_list_indent),
            tagged_enums: b("tagged_enums", d.tagged_enums),
            prefer_block_scalars: b("prefer_block_scalars", d.prefer_block_scalars),
            quote_all: b("quote_all", d.quote_all),
            yaml_12: b("yaml_12", d.yaml_12),
            anchor_gen: b("anchor_generator", d.anchor_gen),
            min_fold_chars: u("min_fold_chars", d.min_fold_chars),
            folded_wrap_chars: u("folded_wrap_chars", d.folded_wrap_chars),
        }
    }
    /// Names of the fields that differ from the default, e.g. `["indent_step=4", "yaml_12"]`.
    pub fn non_default(&self) -> Vec<String> {
        let d = Opt::default();
        let mut out = Vec::new();
        if self.indent != d.indent {
            out.push(format!("indent_step={}", self.indent));
        }
        let bits = self.bits();
        for (i, n) in OPT_BOOL_NAMES.iter().enumerate() {
            if bits & (1 << i) != 0 {
                out.push(format!("{}{}", if i == 0 || i == 3 { "no_" } else { "" }, n));
            }
        }
        if self.min_fold_chars != d.min_fold_chars {
            out.push(format!("min_fold_chars={}", self.min_fold_chars));
        }
        if self.folded_wrap_chars != d.folded_wrap_chars {
            out.push(format!("folded_wrap_chars={}", self.folded_wrap_chars));
        }
        out
    }
    /// Option vectors that are one field closer to the default (for shrinking).
    pub fn toward_default(&self) -> Vec<Opt> {
        let d = Opt::default();
        let mut out = Vec::new();
        if self.indent != d.indent {
            out.push(Opt { indent: d.indent, ..*self });
        }
        let bits = self.bits();
        for i in 0..7u8 {
            if bits & (1 << i) != 0 {
                let mut o = Opt::from_bits(bits & !(1 << i), self.indent);
                o.min_fold_chars = self.min_fold_chars;
                o.folded_wrap_chars = self.folded_wrap_chars;
                out.push(o);
            }
        }
        if self.min_fold_chars != d.min_fold_chars {
            out.push(Opt { min_fold_chars: d.min_fold_chars, ..*self });
        }
        if self.folded_wrap_chars != d.folded_wrap_chars {
            out.push(Opt { folded_wrap_chars: d.folded_wrap_chars, ..*self });
        }
        out
    }
    pub fn hash_bytes(&self) -> Vec<u8> {
        let mut v = vec![self.bits()];
        v.extend((self.indent as u32).to_le_bytes());
        v.extend((self.min_fold_chars as u32).to_le_bytes());
        v.extend((self.folded_wrap_chars as u32).to_le_bytes());
        v
    }
}

// ------------------------------------------------------------------ the C13 oracle

/// Where the round trip of one case stopped.
#[derive(Clone, Debug, PartialEq)]
pub enum Stage {
    /// the serializer (or a deserializer) panicked: message @ site
    Panic(String),
    /// `to_string_with_options` returned `Err`
    SerErr(String),
    /// the raw parser rejects the emitted text
    RawErr(String),
    /// the raw parser sees this many documents (not 1)
    DocCount(usize),
    /// `from_multiple::<IgnoredAny>` fails
    MultiErr(String),
    /// `from_multiple::<IgnoredAny>` yields this many items (not 1)
    MultiCount(usize),
    /// typed read-back fails
    DeErr(String),
    /// typed read-back gives another value
    Mismatch(Box<TVal>),
}

impl Stage {
    pub fn kind(&self) -> &'static str {
        match self {
            Stage::Panic(_) => "panic",
            Stage::SerErr(_) => "ser-error",
            Stage::RawErr(_) => "not-well-formed",
            Stage::DocCount(_) => "document-count",
            Stage::MultiErr(_) => "from_multiple-error",
            Stage::MultiCount(_) => "from_multiple-count",
            Stage::DeErr(_) => "read-back-error",
            Stage::Mismatch(_) => "read-back-differs",
        }
    }
    pub fn detail(&self) -> String {
        match self {
            Stage::Panic(m) | Stage::SerErr(m) | Stage::RawErr(m) | Stage::MultiErr(m) | Stage::DeErr(m) => m.clone(),
            Stage::DocCount(n) | Stage::MultiCount(n) => format!("{n}"),
            Stage::Mismatch(v) => format!("{v:?}"),
        }
    }
}

pub fn de_options() -> serde_saphyr::Options {
    serde_saphyr::options! { with_snippet: false }
}

fn first_line(s: String) -> String {
    s.lines().next().unwrap_or("").to_string()
}

pub const YAML12_DIRECTIVE: &str = "%YAML 1.2\n";

/// The emitted text starts with the `%YAML 1.2` directive line but no `---` follows it.
pub fn directive_without_doc_start(text: &str) -> bool {
    text.starts_with(YAML12_DIRECTIVE) && !text[YAML12_DIRECTIVE.len()..].starts_with("---")
}

/// The same text with the missing `---` line inserted after the directive (used only to keep
/// looking at the rest of the document once the directive defect has been reported).
pub fn insert_doc_start(text: &str) -> String {
    format!("{YAML12_DIRECTIVE}---\n{}", &text[YAML12_DIRECTIVE.len()..])
}

/// Serialize any value under an option vector; panics are caught.
pub fn emit<T: Serialize>(value: &T, o: &Opt) -> Result<String, Stage> {
    match crate::obs::catch(|| serde_saphyr::to_string_with_options(value, o.to_ser())) {
        Err(p) => Err(Stage::Panic(p)),
        Ok(Err(e)) => Err(Stage::SerErr(first_line(e.to_string()))),
        Ok(Ok(s)) => Ok(s),
    }
}

/// Is the (single) document of `text` a null-like plain scalar (`null`, `~`, empty)?
fn root_is_nullish(docs: &[reftree::RDoc]) -> bool {
    match docs.first().and_then(|d| d.root.as_ref()) {
        None => true,
        Some(reftree::RNode::Scalar { value, style, .. }) => {
            matches!(style, saphyr_parser::ScalarStyle::Plain) && matches!(value.as_str(), "" | "~" | "null" | "Null" | "NULL")
        }
        _ => false,
    }
}

/// Well-formedness part: raw parser accepts, exactly one document, `from_multiple` yields one item.
/// `from_multiple` documents that it ignores empty documents (it skips null-like root scalars): for a
/// null-like root 0 items are tolerated and reported through `null_doc_skipped`.
pub fn check_one_document(text: &str, null_doc_skipped: &mut bool) -> Option<Stage> {
    let nullish = match reftree::parse_stream(text) {
        Err(e) => return Some(Stage::RawErr(format!("{} @ line {} col {}", e.info, e.line, e.col))),
        Ok(docs) if docs.len() != 1 => return Some(Stage::DocCount(docs.len())),
        Ok(docs) => root_is_nullish(&docs),
    };
    match crate::obs::catch(|| serde_saphyr::from_multiple_with_options::<IgnoredAny>(text, de_options())) {
        Err(p) => Some(Stage::Panic(p)),
        Ok(Err(e)) => Some(Stage::MultiErr(first_line(e.to_string()))),
        Ok(Ok(items)) if items.is_empty() && nullish => {
            *null_doc_skipped = true;
            None
        }
        Ok(Ok(items)) if items.len() != 1 => Some(Stage::MultiCount(items.len())),
        Ok(Ok(_)) => None,
    }
}

/// Typed read-back through `SchemaSeed`.
pub fn read_typed(ty: &Ty, text: &str) -> Result<TVal, Stage> {
    match crate::obs::catch(|| {
        serde_saphyr::with_deserializer_from_str_with_options(text, de_options(), |de| SchemaSeed(ty).deserialize(de))
    }) {
        Err(p) => Err(Stage::Panic(p)),
        Ok(Err(e)) => Err(Stage::DeErr(first_line(e.to_string()))),
        Ok(Ok(v)) => Ok(v),
    }
}

/// Steps 2..4 of the oracle on an emitted text.
pub fn check_text(ty: &Ty, v: &TVal, text: &str, null_doc_skipped: &mut bool) -> Option<Stage> {
    if let Some(s) = check_one_document(text, null_doc_skipped) {
        return Some(s);
    }
    match read_typed(ty, text) {
        Err(s) => Some(s),
        Ok(back) => {
            if back.sorted_maps() == v.sorted_maps() {
                None
            } else {
                Some(Stage::Mismatch(Box::new(back)))
            }
        }
    }
}

#[derive(Clone, Debug)]
pub struct Rt {
    pub text: Option<String>,
    /// the directive defect was seen (and reported by the caller); `fail` then refers to the
    /// text with the `---` line inserted
    pub directive_defect: bool,
    /// class the statement / documentation does not pin down: no verdict for this case
    pub unspecified: Option<&'static str>,
    /// `from_multiple` skipped the (null-like) document, as documented
    pub null_doc_skipped: bool,
    pub fail: Option<Stage>,
}

/// `empty_as_braces: false` is documented as not telling empty collections from null.
pub fn has_empty_collection(ty: &Ty, v: &TVal) -> bool {
    any_node(ty, v, &|_, x| {
        matches!(x, TVal::Seq(xs) if xs.is_empty()) || matches!(x, TVal::Map(ps) if ps.is_empty()) || matches!(x, TVal::Bytes(b) if b.is_empty())
    })
}

/// The whole C13 oracle for one case.
pub fn roundtrip(ty: &Ty, v: &TVal, o: &Opt) -> Rt {
    let mut rt = Rt { text: None, directive_defect: false, unspecified: None, null_doc_skipped: false, fail: None };
    let text = match emit(&TSer(ty, v), o) {
        Err(s) => {
            rt.fail = Some(s);
            return rt;
        }
        Ok(t) => t,
    };
    if !o.empty_as_braces && has_empty_collection(ty, v) {
        rt.unspecified = Some("empty-collection-without-braces");
        rt.text = Some(text);
        return rt;
    }
    rt.fail = check_text(ty, v, &text, &mut rt.null_doc_skipped);
    if rt.fail.is_some() && directive_without_doc_start(&text) {
        rt.directive_defect = true;
        rt.fail = check_text(ty, v, &insert_doc_start(&text), &mut rt.null_doc_skipped);
    }
    rt.text = Some(text);
    rt
}

// ------------------------------------------------------------------ structure of (Ty, TVal) pairs

/// Kind label of a value node (what the emitter has to lay out).
pub fn kind(ty: &Ty, v: &TVal) -> &'static str {
    match (ty, v) {
        (Ty::Newtype(_, t), x) => kind(t, x),
        (Ty::Option(_), TVal::None) => "none",
        (Ty::Option(t), TVal::Some(x)) => kind(t, x),
        (Ty::Str, TVal::Str(s)) => {
            if s.is_empty() {
                "str-empty"
            } else if s.contains('\n') {
                "str-multiline"
            } else {
                "str"
            }
        }
        (Ty::Char, _) => "char",
        (Ty::Bool, _) => "bool",
        (Ty::F32, _) | (Ty::F64, _) => "float",
        (Ty::Bytes, _) => "bytes",
        (Ty::Unit, _) | (Ty::UnitStruct(_), _) => "unit",
        (t, _) if t.is_int() => "int",
        (Ty::Seq(_), TVal::Seq(xs)) => {
            if xs.is_empty() {
                "seq-empty"
            } else {
                "seq"
            }
        }
        (Ty::Tuple(_), _) => "tuple",
        (Ty::TupleStruct(..), _) => "tuple-struct",
        (Ty::Map(..), TVal::Map(ps)) => {
            if ps.is_empty() {
                "map-empty"
            } else {
                "map"
            }
        }
        (Ty::Struct(_), _) => "struct",
        (Ty::Enum(e), TVal::Variant(i, _)) => match e.variants.get(*i as usize) {
            Some(VariantTy::Unit) => "unit-variant",
            Some(VariantTy::Newtype(_)) => "newtype-variant",
            Some(VariantTy::Tuple(_)) => "tuple-variant",
            Some(VariantTy::Struct(_)) => "struct-variant",
            None => "?",
        },
        _ => "?",
    }
}

/// Immediate child pairs with the position label they occupy in the parent.
pub fn children<'a>(ty: &'a Ty, v: &'a TVal) -> Vec<(&'static str, &'a Ty, &'a TVal)> {
    let mut out = Vec::new();
    match (ty, v) {
        (Ty::Newtype(_, t), x) => return children(t, x),
        (Ty::Option(t), TVal::Some(x)) => return children(t, x),
        (Ty::Seq(t), TVal::Seq(xs)) => {
            for x in xs {
                out.push(("item", &**t, x));
            }
        }
        (Ty::Tuple(ts), TVal::Tuple(xs)) | (Ty::TupleStruct(_, ts), TVal::Tuple(xs)) => {
            for (t, x) in ts.iter().zip(xs) {
                out.push(("item", t, x));
            }
        }
        (Ty::Map(k, w), TVal::Map(ps)) => {
            for (a, b) in ps {
                out.push(("key", &**k, a));
                out.push(("value", &**w, b));
            }
        }
        (Ty::Struct(s), TVal::Struct(xs)) => {
            for (f, x) in s.body.fields.iter().zip(xs) {
                out.push(("value", &f.ty, x));
            }
        }
        (Ty::Enum(e), TVal::Variant(i, p)) => match (e.variants.get(*i as usize), &**p) {
            (Some(VariantTy::Newtype(t)), x) => out.push(("payload", t, x)),
            (Some(VariantTy::Tuple(ts)), TVal::Tuple(xs)) => {
                for (t, x) in ts.iter().zip(xs) {
                    out.push(("payload-item", t, x));
                }
            }
            (Some(VariantTy::Struct(f)), TVal::Struct(xs)) => {
                for (f, x) in f.fields.iter().zip(xs) {
                    out.push(("payload-value", &f.ty, x));
                }
            }
            _ => {}
        },
        _ => {}
    }
    out
}

/// Visit every (parent kind, position, child kind) triple of the tree, root first (`root` position).
pub fn contexts(ty: &Ty, v: &TVal, f: &mut dyn FnMut(&'static str, &'static str, &'static str)) {
    fn rec(pk: &'static str, ty: &Ty, v: &TVal, f: &mut dyn FnMut(&'static str, &'static str, &'static str)) {
        for (pos, ct, cv) in children(ty, v) {
            let ck = kind(ct, cv);
            f(pk, pos, ck);
            rec(ck, ct, cv, f);
        }
    }
    let k = kind(ty, v);
    f("-", "root", k);
    rec(k, ty, v, f);
}

/// Does any node of the tree satisfy `p(ty, v)`?
pub fn any_node(ty: &Ty, v: &TVal, p: &dyn Fn(&Ty, &TVal) -> bool) -> bool {
    if p(ty, v) {
        return true;
    }
    match (ty, v) {
        (Ty::Newtype(_, t), x) => any_node(t, x, p),
        (Ty::Option(t), TVal::Some(x)) => any_node(t, x, p),
        _ => children(ty, v).into_iter().any(|(_, t, x)| any_node(t, x, p)),
    }
}

/// Rebuild the tree bottom-up: `f` is applied to every node after its children were rewritten.
pub fn map_nodes(ty: &Ty, v: &TVal, f: &dyn Fn(Ty, TVal) -> (Ty, TVal)) -> (Ty, TVal) {
    // types are rewritten per value; for homogeneous containers (Seq, Map) the rewritten
    // element types must agree, otherwise the node is left as it was.
    let rebuilt: (Ty, TVal) = match (ty, v) {
        (Ty::Option(t), TVal::Some(x)) => {
            let (t2, x2) = map_nodes(t, x, f);
            if t2.absorbs_null() { (ty.clone(), v.clone()) } else { (Ty::opt(t2), TVal::some(x2)) }
        }
        (Ty::Newtype(n, t), x) => {
            let (t2, x2) = map_nodes(t, x, f);
            (Ty::newtype(*n, t2), x2)
        }
        (Ty::Seq(t), TVal::Seq(xs)) if !xs.is_empty() => {
            let rs: Vec<(Ty, TVal)> = xs.iter().map(|x| map_nodes(t, x, f)).collect();
            if rs.iter().all(|(t2, _)| *t2 == rs[0].0) {
                (Ty::seq(rs[0].0.clone()), TVal::Seq(rs.into_iter().map(|(_, x)| x).collect()))
            } else {
                (ty.clone(), v.clone())
            }
        }
        (Ty::Tuple(ts), TVal::Tuple(xs)) => {
            let rs: Vec<(Ty, TVal)> = ts.iter().zip(xs).map(|(t, x)| map_nodes(t, x, f)).collect();
            (Ty::Tuple(rs.iter().map(|r| r.0.clone()).collect()), TVal::Tuple(rs.into_iter().map(|r| r.1).collect()))
        }
        (Ty::TupleStruct(n, ts), TVal::Tuple(xs)) => {
            let rs: Vec<(Ty, TVal)> = ts.iter().zip(xs).map(|(t, x)| map_nodes(t, x, f)).collect();
            (Ty::TupleStruct(*n, rs.iter().map(|r| r.0.clone()).collect()), TVal::Tuple(rs.into_iter().map(|r| r.1).collect()))
        }
        (Ty::Map(k, w), TVal::Map(ps)) if !ps.is_empty() => {
            let rs: Vec<((Ty, TVal), (Ty, TVal))> = ps.iter().map(|(a, b)| (map_nodes(k, a, f), map_nodes(w, b, f))).collect();
            if rs.iter().all(|(a, b)| a.0 == rs[0].0.0 && b.0 == rs[0].1.0) {
                (
                    Ty::map(rs[0].0.0.clone(), rs[0].1.0.clone()),
                    TVal::Map(rs.into_iter().map(|(a, b)| (a.1, b.1)).collect()),
                )
            } else {
                (ty.clone(), v.clone())
            }
        }
        (Ty::Struct(s), TVal::Struct(xs)) => {
            let rs: Vec<(Ty, TVal)> = s.body.fields.iter().zip(xs).map(|(fl, x)| map_nodes(&fl.ty, x, f)).collect();
            let fields = rs.iter().zip(&s.body.fields).map(|(r, old)| FieldTy { ty: r.0.clone(), default: old.default }).collect();
            (
                Ty::Struct(StructTy { name: s.name, body: Fields { fields, deny_unknown: s.body.deny_unknown } }),
                TVal::Struct(rs.into_iter().map(|r| r.1).collect()),
            )
        }
        (Ty::Enum(e), TVal::Variant(i, p)) => {
            let idx = *i as usize;
            let mut variants = e.variants.clone();
            let payload = match (&e.variants[idx], &**p) {
                (VariantTy::Newtype(t), x) => {
                    let (t2, x2) = map_nodes(t, x, f);
                    variants[idx] = VariantTy::Newtype(t2);
                    x2
                }
                (VariantTy::Tuple(ts), TVal::Tuple(xs)) => {
                    let rs: Vec<(Ty, TVal)> = ts.iter().zip(xs).map(|(t, x)| map_nodes(t, x, f)).collect();
                    variants[idx] = VariantTy::Tuple(rs.iter().map(|r| r.0.clone()).collect());
                    TVal::Tuple(rs.into_iter().map(|r| r.1).collect())
                }
                (VariantTy::Struct(fs), TVal::Struct(xs)) => {
                    let rs: Vec<(Ty, TVal)> = fs.fields.iter().zip(xs).map(|(fl, x)| map_nodes(&fl.ty, x, f)).collect();
                    let fields = rs.iter().zip(&fs.fields).map(|(r, old)| FieldTy { ty: r.0.clone(), default: old.default }).collect();
                    variants[idx] = VariantTy::Struct(Fields { fields, deny_unknown: fs.deny_unknown });
                    TVal::Struct(rs.into_iter().map(|r| r.1).collect())
                }
                (_, x) => x.clone(),
            };
            (Ty::Enum(EnumTy { name: e.name, voff: e.voff, variants }), TVal::Variant(*i, Box::new(payload)))
        }
        _ => (ty.clone(), v.clone()),
    };
    f(rebuilt.0, rebuilt.1)
}

// ------------------------------------------------------------------ typed one-step reductions

fn canonical_leaf(t: &Ty) -> Option<TVal> {
    Some(match t {
        Ty::Bool => TVal::Bool(false),
        t if t.is_signed() => TVal::I(0),
        t if t.is_unsigned() => TVal::U(0),
        Ty::F32 => TVal::F32(0),
        Ty::F64 => TVal::F64(0),
        Ty::Char => TVal::Char('a'),
        Ty::Str => TVal::Str("a".into()),
        Ty::Bytes => TVal::Bytes(vec![]),
        Ty::Unit | Ty::UnitStruct(_) => TVal::Unit,
        _ => return None,
    })
}

fn measure(ty: &Ty, v: &TVal) -> (usize, usize) {
    // (value nodes, weight of kinds and non-canonical leaves)
    fn w(ty: &Ty, v: &TVal) -> usize {
        let own = match ty {
            Ty::I32 => {
                if *v == TVal::I(0) { 0 } else { 1 }
            }
            t if t.is_scalar() => 1 + usize::from(canonical_leaf(t).as_ref() != Some(v)),
            Ty::Tuple(_) | Ty::Seq(_) => 1,
            Ty::Map(..) | Ty::Struct(_) => 2,
            Ty::Option(_) | Ty::Newtype(..) => 3,
            Ty::TupleStruct(..) => 4,
            Ty::Enum(e) => 4 + e.variants.len(),
            _ => 1,
        };
        let inner = match (ty, v) {
            (Ty::Newtype(_, t), x) => w(t, x),
            (Ty::Option(t), TVal::Some(x)) => w(t, x),
            _ => children(ty, v).into_iter().map(|(_, t, x)| w(t, x)).sum(),
        };
        own + inner
    }
    (v.node_count() + ty.node_count(), w(ty, v))
}

/// No map of the tree has two equal keys (equal keys are outside the grammar).
pub fn keys_distinct(ty: &Ty, v: &TVal) -> bool {
    !any_node(ty, v, &|_, x| match x {
        TVal::Map(ps) => (0..ps.len()).any(|i| (0..i).any(|j| ps[i].0 == ps[j].0)),
        _ => false,
    })
}

type Conv = std::rc::Rc<dyn Fn(&TVal) -> TVal>;

fn conv(f: impl Fn(&TVal) -> TVal + 'static) -> Conv {
    std::rc::Rc::new(f)
}

fn enum_single(e: &EnumTy, var: VariantTy) -> Ty {
    Ty::enumeration(e.name, 0, vec![var])
}

fn variant_default(v: &VariantTy) -> TVal {
    match v {
        VariantTy::Unit => TVal::Unit,
        VariantTy::Newtype(t) => t.default_val(),
        VariantTy::Tuple(ts) => TVal::Tuple(ts.iter().map(|t| t.default_val()).collect()),
        VariantTy::Struct(f) => TVal::Struct(f.fields.iter().map(|f| f.ty.default_val()).collect()),
    }
}

/// Type-level rewrites of `ty` — at this node first, then inside its children — each with the
/// conversion that carries *every* value of the old type to a value of the new type (so the
/// elements of a homogeneous container are rewritten together).
fn type_steps(ty: &Ty, emit: &mut dyn FnMut(Ty, Conv) -> bool) -> bool {
    // `emit` returns true to stop; the function returns true if it was stopped
    macro_rules! out_push {
        ($e:expr) => {{
            let (t, c) = $e;
            if emit(t, c) {
                return true;
            }
        }};
    }
    // ---- rewrites of this node
    match ty {
        Ty::Option(t) => {
            let d = t.default_val();
            out_push!((
                (**t).clone(),
                conv(move |v| match v {
                    TVal::Some(x) => (**x).clone(),
                    _ => d.clone(),
                }),
            ));
        }
        Ty::Newtype(_, t) => out_push!(((**t).clone(), conv(|v| v.clone()))),
        Ty::Seq(t) => {
            let d = t.default_val();
            let d2 = d.clone();
            out_push!((
                (**t).clone(),
                conv(move |v| match v {
                    TVal::Seq(xs) => xs.first().cloned().unwrap_or_else(|| d.clone()),
                    _ => d.clone(),
                }),
            ));
            out_push!((
                (**t).clone(),
                conv(move |v| match v {
                    TVal::Seq(xs) => xs.last().cloned().unwrap_or_else(|| d2.clone()),
                    _ => d2.clone(),
                }),
            ));
        }
        Ty::Tuple(ts) | Ty::TupleStruct(_, ts) => {
            let is_ts = matches!(ty, Ty::TupleStruct(..));
            for (i, t) in ts.iter().enumerate() {
                let d = t.default_val();
                out_push!((
                    t.clone(),
                    conv(move |v| match v {
                        TVal::Tuple(xs) => xs.get(i).cloned().unwrap_or_else(|| d.clone()),
                        _ => d.clone(),
                    }),
                ));
            }
            if is_ts {
                out_push!((Ty::Tuple(ts.clone()), conv(|v| v.clone())));
            }
            let min = if is_ts { 2 } else { 1 };
            if ts.len() > min {
                for i in 0..ts.len() {
                    let mut t2 = ts.clone();
                    t2.remove(i);
                    let nt = match ty {
                        Ty::TupleStruct(n, _) => Ty::TupleStruct(*n, t2),
                        _ => Ty::Tuple(t2),
                    };
                    out_push!((
                        nt,
                        conv(move |v| match v {
                            TVal::Tuple(xs) => {
                                let mut ys = xs.clone();
                                if i < ys.len() {
                                    ys.remove(i);
                                }
                                TVal::Tuple(ys)
                            }
                            other => other.clone(),
                        }),
                    ));
                }
            }
        }
        Ty::Map(k, w) => {
            let (dk, dw) = (k.default_val(), w.default_val());
            out_push!((
                (**w).clone(),
                conv(move |v| match v {
                    TVal::Map(ps) => ps.first().map(|p| p.1.clone()).unwrap_or_else(|| dw.clone()),
                    _ => dw.clone(),
                }),
            ));
            out_push!((
                (**k).clone(),
                conv(move |v| match v {
                    TVal::Map(ps) => ps.first().map(|p| p.0.clone()).unwrap_or_else(|| dk.clone()),
                    _ => dk.clone(),
                }),
            ));
            if !k.is_scalar() {
                out_push!((
                    Ty::map(Ty::Str, (**w).clone()),
                    conv(|v| match v {
                        TVal::Map(ps) => TVal::Map(ps.iter().enumerate().map(|(i, (_, b))| (TVal::Str(format!("k{i}")), b.clone())).collect()),
                        other => other.clone(),
                    }),
                ));
                let canon = Ty::strukt(5, vec![Ty::I32], false);
                if **k != canon {
                    out_push!((
                        Ty::map(canon, (**w).clone()),
                        conv(|v| match v {
                            TVal::Map(ps) => {
                                TVal::Map(ps.iter().enumerate().map(|(i, (_, b))| (TVal::Struct(vec![TVal::I(i as i128)]), b.clone())).collect())
                            }
                            other => other.clone(),
                        }),
                    ));
                }
            }
        }
        Ty::Struct(s) => {
            for (i, f) in s.body.fields.iter().enumerate() {
                let d = f.ty.default_val();
                out_push!((
                    f.ty.clone(),
                    conv(move |v| match v {
                        TVal::Struct(xs) => xs.get(i).cloned().unwrap_or_else(|| d.clone()),
                        _ => d.clone(),
                    }),
                ));
            }
            if s.body.fields.len() > 1 {
                for i in 0..s.body.fields.len() {
                    let mut ts: Vec<Ty> = s.body.fields.iter().map(|f| f.ty.clone()).collect();
                    ts.remove(i);
                    out_push!((
                        Ty::strukt(s.name, ts, false),
                        conv(move |v| match v {
                            TVal::Struct(xs) => {
                                let mut ys = xs.clone();
                                if i < ys.len() {
                                    ys.remove(i);
                                }
                                TVal::Struct(ys)
                            }
                            other => other.clone(),
                        }),
                    ));
                }
            }
        }
        Ty::Enum(e) => {
            for (j, var) in e.variants.iter().enumerate() {
                let dflt = variant_default(var);
                // keep only variant j
                if e.variants.len() > 1 || e.voff != 0 {
                    let d = dflt.clone();
                    out_push!((
                        enum_single(e, var.clone()),
                        conv(move |v| match v {
                            TVal::Variant(i, p) if *i as usize == j => TVal::variant(0, (**p).clone()),
                            _ => TVal::variant(0, d.clone()),
                        }),
                    ));
                }
                let payload = move |d: TVal| {
                    conv(move |v: &TVal| match v {
                        TVal::Variant(i, p) if *i as usize == j => (**p).clone(),
                        _ => d.clone(),
                    })
                };
                let rewrap = move |d: TVal| {
                    conv(move |v: &TVal| match v {
                        TVal::Variant(i, p) if *i as usize == j => TVal::variant(0, (**p).clone()),
                        _ => TVal::variant(0, d.clone()),
                    })
                };
                match var {
                    VariantTy::Unit => {}
                    VariantTy::Newtype(t) => out_push!((t.clone(), payload(dflt.clone()))),
                    VariantTy::Tuple(ts) => {
                        out_push!((Ty::Tuple(ts.clone()), payload(dflt.clone())));
                        out_push!((enum_single(e, VariantTy::Newtype(Ty::Tuple(ts.clone()))), rewrap(dflt.clone())));
                    }
                    VariantTy::Struct(fs) => {
                        let st = Ty::strukt(6, fs.fields.iter().map(|f| f.ty.clone()).collect(), false);
                        out_push!((st.clone(), payload(dflt.clone())));
                        out_push!((enum_single(e, VariantTy::Newtype(st)), rewrap(dflt.clone())));
                    }
                }
            }
        }
        _ => {}
    }
    if *ty != Ty::I32 {
        out_push!((Ty::I32, conv(|_| TVal::I(0))));
    }
    // ---- rewrites inside the children, lifted
    match ty {
        Ty::Option(t) => {
            if type_steps(t, &mut |t2, c| {
                if !t2.absorbs_null() {
                    out_push!((
                        Ty::opt(t2),
                        conv(move |v| match v {
                            TVal::Some(x) => TVal::some(c(x)),
                            other => other.clone(),
                        }),
                    ));
                }
                false
            }) {
                return true;
            }
        }
        Ty::Newtype(n, t) => {
            if type_steps(t, &mut |t2, c| {
                out_push!((Ty::newtype(*n, t2), c));
                false
            }) {
                return true;
            }
        }
        Ty::Seq(t) => {
            if type_steps(t, &mut |t2, c| {
                out_push!((
                    Ty::seq(t2),
                    conv(move |v| match v {
                        TVal::Seq(xs) => TVal::Seq(xs.iter().map(|x| c(x)).collect()),
                        other => other.clone(),
                    }),
                ));
                false
            }) {
                return true;
            }
        }
        Ty::Tuple(ts) | Ty::TupleStruct(_, ts) => {
            for i in 0..ts.len() {
                if type_steps(&ts[i], &mut |t2, c| {
                    let mut tt = ts.clone();
                    tt[i] = t2;
                    let nt = match ty {
                        Ty::TupleStruct(n, _) => Ty::TupleStruct(*n, tt),
                        _ => Ty::Tuple(tt),
                    };
                    out_push!((
                        nt,
                        conv(move |v| match v {
                            TVal::Tuple(xs) => TVal::Tuple(xs.iter().enumerate().map(|(j, x)| if j == i { c(x) } else { x.clone() }).collect()),
                            other => other.clone(),
                        }),
                    ));
                    false
                }) {
                    return true;
                }
            }
        }
        Ty::Map(k, w) => {
            if type_steps(w, &mut |t2, c| {
                out_push!((
                    Ty::map((**k).clone(), t2),
                    conv(move |v| match v {
                        TVal::Map(ps) => TVal::Map(ps.iter().map(|(a, b)| (a.clone(), c(b))).collect()),
                        other => other.clone(),
                    }),
                ));
                false
            }) {
                return true;
            }
            if type_steps(k, &mut |t2, c| {
                out_push!((
                    Ty::map(t2, (**w).clone()),
                    conv(move |v| match v {
                        TVal::Map(ps) => TVal::Map(ps.iter().map(|(a, b)| (c(a), b.clone())).collect()),
                        other => other.clone(),
                    }),
                ));
                false
            }) {
                return true;
            }
        }
        Ty::Struct(s) => {
            for i in 0..s.body.fields.len() {
                if type_steps(&s.body.fields[i].ty, &mut |t2, c| {
                    let mut ts: Vec<Ty> = s.body.fields.iter().map(|f| f.ty.clone()).collect();
                    ts[i] = t2;
                    out_push!((
                        Ty::strukt(s.name, ts, false),
                        conv(move |v| match v {
                            TVal::Struct(xs) => TVal::Struct(xs.iter().enumerate().map(|(j, x)| if j == i { c(x) } else { x.clone() }).collect()),
                            other => other.clone(),
                        }),
                    ));
                    false
                }) {
                    return true;
                }
            }
        }
        Ty::Enum(e) => {
            for (j, var) in e.variants.iter().enumerate() {
                let lift = |nv: VariantTy, f: Conv| -> (Ty, Conv) {
                    let mut vs = e.variants.clone();
                    vs[j] = nv;
                    (
                        Ty::Enum(EnumTy { name: e.name, voff: e.voff, variants: vs }),
                        conv(move |v| match v {
                            TVal::Variant(i, p) if *i as usize == j => TVal::Variant(*i, Box::new(f(p))),
                            other => other.clone(),
                        }),
                    )
                };
                match var {
                    VariantTy::Unit => {}
                    VariantTy::Newtype(t) => {
                        if type_steps(t, &mut |t2, c| {
                            out_push!(lift(VariantTy::Newtype(t2), c));
                            false
                        }) {
                            return true;
                        }
                    }
                    VariantTy::Tuple(ts) => {
                        if type_steps(&Ty::Tuple(ts.clone()), &mut |t2, c| {
                            if let Ty::Tuple(t3) = t2
                                && t3.len() >= 2
                            {
                                out_push!(lift(VariantTy::Tuple(t3), c));
                            }
                            false
                        }) {
                            return true;
                        }
                    }
                    VariantTy::Struct(fs) => {
                        let st = Ty::strukt(6, fs.fields.iter().map(|f| f.ty.clone()).collect(), false);
                        if type_steps(&st, &mut |t2, c| {
                            if let Ty::Struct(s3) = t2 {
                                out_push!(lift(VariantTy::Struct(s3.body), c));
                            }
                            false
                        }) {
                            return true;
                        }
                    }
                }
            }
        }
        _ => {}
    }
    false
}

/// Value-level reductions (the type is kept): drop elements, `Some -> None`, canonical leaves.
fn value_steps(ty: &Ty, v: &TVal) -> Vec<TVal> {
    let mut out = Vec::new();
    match (ty, v) {
        (t, x) if t.is_scalar() => {
            if let Some(c) = canonical_leaf(t)
                && c != *x
            {
                out.push(c);
            }
        }
        (Ty::Option(t), TVal::Some(x)) => {
            out.push(TVal::None);
            for x2 in value_steps(t, x) {
                out.push(TVal::some(x2));
            }
        }
        (Ty::Newtype(_, t), x) => out.extend(value_steps(t, x)),
        (Ty::Seq(t), TVal::Seq(xs)) => {
            for i in 0..xs.len() {
                let mut ys = xs.clone();
                ys.remove(i);
                out.push(TVal::Seq(ys));
            }
            for i in 0..xs.len() {
                for x2 in value_steps(t, &xs[i]) {
                    let mut ys = xs.clone();
                    ys[i] = x2;
                    out.push(TVal::Seq(ys));
                }
            }
        }
        (Ty::Tuple(ts), TVal::Tuple(xs)) | (Ty::TupleStruct(_, ts), TVal::Tuple(xs)) => {
            for i in 0..xs.len().min(ts.len()) {
                for x2 in value_steps(&ts[i], &xs[i]) {
                    let mut ys = xs.clone();
                    ys[i] = x2;
                    out.push(TVal::Tuple(ys));
                }
            }
        }
        (Ty::Map(k, w), TVal::Map(ps)) => {
            for i in 0..ps.len() {
                let mut qs = ps.clone();
                qs.remove(i);
                out.push(TVal::Map(qs));
            }
            for i in 0..ps.len() {
                for x2 in value_steps(w, &ps[i].1) {
                    let mut qs = ps.clone();
                    qs[i].1 = x2;
                    out.push(TVal::Map(qs));
                }
                for x2 in value_steps(k, &ps[i].0) {
                    let mut qs = ps.clone();
                    qs[i].0 = x2;
                    out.push(TVal::Map(qs));
                }
            }
        }
        (Ty::Struct(s), TVal::Struct(xs)) => {
            for i in 0..xs.len().min(s.body.fields.len()) {
                for x2 in value_steps(&s.body.fields[i].ty, &xs[i]) {
                    let mut ys = xs.clone();
                    ys[i] = x2;
                    out.push(TVal::Struct(ys));
                }
            }
        }
        (Ty::Enum(e), TVal::Variant(i, p)) => {
            let idx = *i as usize;
            if idx != 0 {
                out.push(TVal::variant(0, variant_default(&e.variants[0])));
            }
            match (&e.variants[idx], &**p) {
                (VariantTy::Newtype(t), x) => {
                    for x2 in value_steps(t, x) {
                        out.push(TVal::Variant(*i, Box::new(x2)));
                    }
                }
                (VariantTy::Tuple(ts), x @ TVal::Tuple(_)) => {
                    for x2 in value_steps(&Ty::Tuple(ts.clone()), x) {
                        out.push(TVal::Variant(*i, Box::new(x2)));
                    }
                }
                (VariantTy::Struct(fs), x @ TVal::Struct(_)) => {
                    let st = Ty::strukt(6, fs.fields.iter().map(|f| f.ty.clone()).collect(), false);
                    for x2 in value_steps(&st, x) {
                        out.push(TVal::Variant(*i, Box::new(x2)));
                    }
                }
                _ => {}
            }
        }
        _ => {}
    }
    out
}

/// Typed one-step reductions of a pair: value-level first, then type-level (outermost first).
/// Every result is a well-formed pair with pairwise distinct map keys.
pub fn shrink_steps(ty: &Ty, v: &TVal) -> Vec<(Ty, TVal)> {
    let mut out: Vec<(Ty, TVal)> = Vec::new();
    for v2 in value_steps(ty, v) {
        out.push((ty.clone(), v2));
    }
    type_steps(ty, &mut |t2, c| {
        let v2 = c(v);
        out.push((t2, v2));
        false
    });
    out.retain(|(t, x)| t.check(x) && keys_distinct(t, x));
    out
}

/// Lazy variant of `shrink_steps`: candidates are produced one at a time, in the same order, and
/// `visit` returns true to stop.
pub fn for_each_shrink_step(ty: &Ty, v: &TVal, visit: &mut dyn FnMut(Ty, TVal) -> bool) {
    for v2 in value_steps(ty, v) {
        if ty.check(&v2) && keys_distinct(ty, &v2) && visit(ty.clone(), v2) {
            return;
        }
    }
    type_steps(ty, &mut |t2, c| {
        let v2 = c(v);
        t2.check(&v2) && keys_distinct(&t2, &v2) && visit(t2, v2)
    });
}

/// Stable hash of a value (TVal has no `Hash`).
pub fn hash_tval(v: &TVal, h: &mut u64) {
    fn mix(h: &mut u64, bytes: &[u8]) {
        for b in bytes {
            *h ^= *b as u64;
            *h = h.wrapping_mul(0x100000001b3);
        }
    }
    match v {
        TVal::Bool(b) => mix(h, &[1, *b as u8]),
        TVal::I(i) => {
            mix(h, &[2]);
            mix(h, &i.to_le_bytes())
        }
        TVal::U(u) => {
            mix(h, &[3]);
            mix(h, &u.to_le_bytes())
        }
        TVal::F32(b) => {
            mix(h, &[4]);
            mix(h, &b.to_le_bytes())
        }
        TVal::F64(b) => {
            mix(h, &[5]);
            mix(h, &b.to_le_bytes())
        }
        TVal::Char(c) => {
            mix(h, &[6]);
            mix(h, &(*c as u32).to_le_bytes())
        }
        TVal::Str(s) => {
            mix(h, &[7]);
            mix(h, &(s.len() as u32).to_le_bytes());
            mix(h, s.as_bytes())
        }
        TVal::Bytes(b) => {
            mix(h, &[8]);
            mix(h, &(b.len() as u32).to_le_bytes());
            mix(h, b)
        }
        TVal::Unit => mix(h, &[9]),
        TVal::None => mix(h, &[10]),
        TVal::Some(x) => {
            mix(h, &[11]);
            hash_tval(x, h)
        }
        TVal::Seq(xs) | TVal::Tuple(xs) | TVal::Struct(xs) => {
            mix(h, &[12, xs.len() as u8]);
            for x in xs {
                hash_tval(x, h);
            }
        }
        TVal::Map(ps) => {
            mix(h, &[13, ps.len() as u8]);
            for (a, b) in ps {
                hash_tval(a, h);
                hash_tval(b, h);
            }
        }
        TVal::Variant(i, p) => {
            mix(h, &[14, *i]);
            hash_tval(p, h)
        }
    }
}

struct Fnv(u64);
impl std::hash::Hasher for Fnv {
    fn finish(&self) -> u64 {
        self.0
    }
    fn write(&mut self, bytes: &[u8]) {
        for b in bytes {
            self.0 ^= *b as u64;
            self.0 = self.0.wrapping_mul(0x100000001b3);
        }
    }
}

/// Stable hash of a whole case (FNV over the derived `Hash` of the type, the value and the options).
pub fn hash_case(ty: &Ty, v: &TVal, o: &Opt) -> u64 {
    use std::hash::{Hash, Hasher};
    let mut h = Fnv(0xcbf29ce484222325);
    ty.hash(&mut h);
    o.hash(&mut h);
    let mut x = h.finish();
    hash_tval(v, &mut x);
    x
}

/// A locally minimal failing case.
#[derive(Clone, Debug)]
pub struct Minimal {
    pub ty: Ty,
    pub v: TVal,
    pub o: Opt,
}

/// Deterministic greedy shrinker with memoisation. `minimal(case)` is, by definition, the case
/// itself if no one-step reduction (of the tree first, then of the option vector) still fails, and
/// otherwise `minimal(first reduction that still fails)` — so the memo never changes a result.
pub struct Shrinker {
    fails: fn(&Ty, &TVal, &Opt) -> bool,
    memo_fail: std::collections::HashMap<u64, bool>,
    memo_min: std::collections::HashMap<u64, std::rc::Rc<Minimal>>,
    pub oracle_calls: u64,
}

impl Shrinker {
    pub fn new(fails: fn(&Ty, &TVal, &Opt) -> bool) -> Self {
        Shrinker { fails, memo_fail: Default::default(), memo_min: Default::default(), oracle_calls: 0 }
    }
    fn fails(&mut self, ty: &Ty, v: &TVal, o: &Opt) -> bool {
        let k = hash_case(ty, v, o);
        if let Some(r) = self.memo_fail.get(&k) {
            return *r;
        }
        if self.memo_fail.len() > 3_000_000 {
            self.memo_fail.clear();
        }
        self.oracle_calls += 1;
        let r = (self.fails)(ty, v, o);
        self.memo_fail.insert(k, r);
        r
    }
    /// `ty, v, o` must be a failing case.
    pub fn minimal(&mut self, ty: &Ty, v: &TVal, o: &Opt) -> std::rc::Rc<Minimal> {
        let k = hash_case(ty, v, o);
        if let Some(m) = self.memo_min.get(&k) {
            return m.clone();
        }
        if self.memo_min.len() > 1_000_000 {
            self.memo_min.clear();
        }
        let m0 = measure(ty, v);
        let mut first: Option<(Ty, TVal)> = None;
        for_each_shrink_step(ty, v, &mut |t2, v2| {
            if measure(&t2, &v2) >= m0 {
                return false;
            }
            if self.fails(&t2, &v2, o) {
                first = Some((t2, v2));
                true
            } else {
                false
            }
        });
        let mut found: Option<std::rc::Rc<Minimal>> = first.map(|(t2, v2)| self.minimal(&t2, &v2, o));
        if found.is_none() {
            for o2 in o.toward_default() {
                if self.fails(ty, v, &o2) {
                    found = Some(self.minimal(ty, v, &o2));
                    break;
                }
            }
        }
        let m = found.unwrap_or_else(|| std::rc::Rc::new(Minimal { ty: ty.clone(), v: v.clone(), o: *o }));
        self.memo_min.insert(k, m.clone());
        m
    }
}

/// Chain of kinds from the root to the deepest node (first deepest child), e.g. `seq>seq>int`.
pub fn spine(ty: &Ty, v: &TVal) -> String {
    fn depth(ty: &Ty, v: &TVal) -> usize {
        1 + children(ty, v).into_iter().map(|(_, t, x)| depth(t, x)).max().unwrap_or(0)
    }
    let mut out = vec![kind(ty, v).to_string()];
    let (mut t, mut x) = (ty, v);
    loop {
        let cs = children(t, x);
        let Some(best) = cs.iter().max_by_key(|(_, ct, cv)| depth(ct, cv)) else { break };
        // first among equals: max_by_key returns the last maximum; pick the first explicitly
        let d = depth(best.1, best.2);
        let first = cs.iter().find(|(_, ct, cv)| depth(ct, cv) == d).unwrap();
        out.push(format!("{}:{}", first.0, kind(first.1, first.2)));
        t = first.1;
        x = first.2;
    }
    out.join(">")
}

/// Coarse leaf class used in normalised forms: what kind of token the emitter has to write.
fn leaf_class(ty: &Ty, v: &TVal) -> Option<&'static str> {
    match (ty.peel_newtypes(), v) {
        (Ty::Option(_), TVal::None) => Some("null"),
        (Ty::Option(t), TVal::Some(x)) => leaf_class(t, x),
        (Ty::Unit, _) | (Ty::UnitStruct(_), _) => Some("null"),
        (Ty::Str, TVal::Str(s)) => Some(if s.contains('\n') { "block-str" } else { "scalar" }),
        (Ty::Char, TVal::Char(c)) => Some(if *c == '\n' { "block-str" } else { "scalar" }),
        (Ty::Bytes, _) => Some("bytes"),
        (t, _) if t.is_scalar() => Some("scalar"),
        (Ty::Enum(e), TVal::Variant(i, _)) if matches!(e.variants.get(*i as usize), Some(VariantTy::Unit)) => Some("scalar"),
        _ => None,
    }
}

/// Normalised structural description of a (small) case: kinds and positions, leaves reduced to
/// `scalar` / `null` / `block-str` / `bytes`, runs of equal siblings collapsed (`x*2`).
pub fn form(ty: &Ty, v: &TVal) -> String {
    if let Some(l) = leaf_class(ty, v) {
        return l.to_string();
    }
    let k = kind(ty, v);
    let cs: Vec<String> = children(ty, v).into_iter().map(|(pos, t, x)| format!("{pos}:{}", form(t, x))).collect();
    if cs.is_empty() {
        return k.to_string();
    }
    let mut parts: Vec<(String, usize)> = Vec::new();
    for c in cs {
        match parts.last_mut() {
            Some((p, n)) if *p == c => *n += 1,
            _ => parts.push((c, 1)),
        }
    }
    let body: Vec<String> = parts.into_iter().map(|(p, n)| if n > 1 { format!("{p}*{n}") } else { p }).collect();
    format!("{k}({})", body.join(","))
}

/// Normalised non-default options: indent step as `<2` / `>2`, numeric thresholds by name only.
pub fn opt_class(o: &Opt) -> String {
    let d = Opt::default();
    let mut out = Vec::new();
    if o.indent < d.indent {
        out.push("indent_step<2".to_string());
    } else if o.indent > d.indent {
        out.push("indent_step>2".to_string());
    }
    let bits = o.bits();
    for (i, n) in OPT_BOOL_NAMES.iter().enumerate() {
        if bits & (1 << i) != 0 {
            out.push(format!("{}{}", if i == 0 || i == 3 { "no_" } else { "" }, n));
        }
    }
    if o.min_fold_chars != d.min_fold_chars {
        out.push("min_fold_chars".into());
    }
    if o.folded_wrap_chars != d.folded_wrap_chars {
        out.push("folded_wrap_chars".into());
    }
    out.join(",")
}

// ------------------------------------------------------------------ structural triggers (signatures of C13, reused by C20)

fn seq_like(k: &str) -> bool {
    matches!(k, "seq" | "tuple" | "tuple-struct")
}
fn map_like(k: &str) -> bool {
    matches!(k, "map" | "struct" | "newtype-variant" | "struct-variant" | "tuple-variant")
}

fn is_complex_key_ty(t: &Ty) -> bool {
    match t.peel_newtypes() {
        Ty::Option(inner) => is_complex_key_ty(inner),
        Ty::Enum(e) => e.variants.iter().any(|v| !matches!(v, VariantTy::Unit)),
        t => !t.is_scalar(),
    }
}

/// First structural trigger present in the minimal case (fixed priority).
pub fn shape_trigger(ty: &Ty, v: &TVal) -> String {
    if any_node(ty, v, &|t, _| matches!(t, Ty::TupleStruct(..))) {
        return "tuple-struct".into();
    }
    if any_node(ty, v, &|t, x| kind(t, x) == "tuple-variant") {
        return "tuple-variant".into();
    }
    if any_node(ty, v, &|_, x| matches!(x, TVal::Str(s) if s.contains('\r'))) {
        return "string-with-carriage-return".into();
    }
    if any_node(ty, v, &|_, x| {
        matches!(x, TVal::Str(s) if s.contains('\n') && s.split('\n').find(|l| !l.is_empty()).map(|l| l.starts_with(' ')).unwrap_or(false))
    }) {
        return "block-scalar-with-leading-space".into();
    }
    if any_node(ty, v, &|t, x| match (t, x) {
        (Ty::Map(..), TVal::Map(ps)) => ps.iter().any(|(k, _)| matches!(k, TVal::Str(s) if s.chars().count() > 1024)),
        _ => false,
    }) {
        return "key-longer-than-1024".into();
    }
    // complex keys
    let mut ck: Option<&'static str> = None;
    let mut note = |s: &'static str| {
        // priority inside the class: seq-value > seq-key > map-key
        let rank = |x: &str| match x {
            "complex-key:sequence-value" => 3,
            "complex-key:sequence-key" => 2,
            _ => 1,
        };
        if ck.map(|c| rank(c) < rank(s)).unwrap_or(true) {
            ck = Some(s);
        }
    };
    fn walk(ty: &Ty, v: &TVal, note: &mut dyn FnMut(&'static str)) {
        if let (Ty::Map(k, w), TVal::Map(ps)) = (ty.peel_newtypes(), v)
            && is_complex_key_ty(k)
        {
            for (a, b) in ps {
                let vk = kind(w, b);
                let kk = kind(k, a);
                if seq_like(vk) {
                    note("complex-key:sequence-value");
                } else if seq_like(kk) {
                    note("complex-key:sequence-key");
                } else {
                    note("complex-key:mapping-key");
                }
            }
        }
        match (ty, v) {
            (Ty::Newtype(_, t), x) => walk(t, x, note),
            (Ty::Option(t), TVal::Some(x)) => walk(t, x, note),
            _ => {
                for (_, t, x) in children(ty, v) {
                    walk(t, x, note);
                }
            }
        }
    }
    walk(ty, v, &mut note);
    if let Some(c) = ck {
        return c.into();
    }
    let mut empty = false;
    let mut nested_seq = false;
    let mut map_in_seq = false;
    let mut block = false;
    contexts(ty, v, &mut |p, pos, c| {
        if c == "seq-empty" || c == "map-empty" {
            empty = true;
        }
        if seq_like(p) && pos == "item" && seq_like(c) {
            nested_seq = true;
        }
        if seq_like(p) && pos == "item" && map_like(c) {
            map_in_seq = true;
        }
        if c == "str-multiline" {
            block = true;
        }
    });
    if empty {
        return "empty-collection".into();
    }
    if nested_seq {
        return "sequence-in-sequence".into();
    }
    if map_in_seq {
        return "mapping-in-sequence".into();
    }
    if block {
        return "block-scalar".into();
    }
    format!("other:{}", form(ty, v))
}


/// Does the tree contain a map whose key type is not a scalar (a `? ` key)?
pub fn has_complex_key(ty: &Ty, v: &TVal) -> bool {
    any_node(ty, v, &|t, x| matches!((t, x), (Ty::Map(k, _), TVal::Map(ps)) if !ps.is_empty() && is_complex_key_ty(k)))
}

/// Features of a tree that belong to C13's shape findings whatever the options are.
pub fn c13_shape_class(ty: &Ty, v: &TVal) -> Option<&'static str> {
    if any_node(ty, v, &|t, _| matches!(t, Ty::TupleStruct(..))) {
        Some("tuple-struct")
    } else if any_node(ty, v, &|t, x| kind(t, x) == "tuple-variant") {
        Some("tuple-variant")
    } else if has_complex_key(ty, v) {
        Some("complex-key")
    } else if any_node(ty, v, &|t, x| match (t, x) {
        (Ty::Map(..), TVal::Map(ps)) => ps.iter().any(|(k, _)| matches!(k, TVal::Str(s) if s.chars().count() > 1024)),
        _ => false,
    }) {
        Some("key-longer-than-1024")
    } else {
        None
    }
}

// ------------------------------------------------------------------ length-erasing adapter

/// Serializes like the wrapped value but announces no length for sequences and maps
/// (`serialize_seq(None)` / `serialize_map(None)`), as iterator-backed and `#[serde(flatten)]`
/// values do. The emitter has separate code paths for unknown lengths.
pub struct NoLen<T>(pub T);

struct Eraser<S>(S);
struct ErasedCompound<C>(C);

impl<T: Serialize> Serialize for NoLen<T> {
    fn serialize<S: serde::Serializer>(&self, s: S) -> Result<S::Ok, S::Error> {
        self.0.serialize(Eraser(s))
    }
}

struct Wrap<'a, T: ?Sized>(&'a T);
impl<T: ?Sized + Serialize> Serialize for Wrap<'_, T> {
    fn serialize<S: serde::Serializer>(&self, s: S) -> Result<S::Ok, S::Error> {
        self.0.serialize(Eraser(s))
    }
}

macro_rules! fwd {
    ($($name:ident($t:ty)),*) => { $( fn $name(self, v: $t) -> Result<S::Ok, S::Error> { self.0.$name(v) } )* };
}

impl<S: serde::Serializer> serde::Serializer for Eraser<S> {
    type Ok = S::Ok;
    type Error = S::Error;
    type SerializeSeq = ErasedCompound<S::SerializeSeq>;
    type SerializeTuple = ErasedCompound<S::SerializeTuple>;
    type SerializeTupleStruct = ErasedCompound<S::SerializeTupleStruct>;
    type SerializeTupleVariant = ErasedCompound<S::SerializeTupleVariant>;
    type SerializeMap = ErasedCompound<S::SerializeMap>;
    type SerializeStruct = ErasedCompound<S::SerializeStruct>;
    type SerializeStructVariant = ErasedCompound<S::SerializeStructVariant>;
    fwd!(serialize_bool(bool), serialize_i8(i8), serialize_i16(i16), serialize_i32(i32), serialize_i64(i64), serialize_i128(i128), serialize_u8(u8), serialize_u16(u16), serialize_u32(u32), serialize_u64(u64), serialize_u128(u128), serialize_f32(f32), serialize_f64(f64), serialize_char(char), serialize_str(&str), serialize_bytes(&[u8]));
    fn serialize_none(self) -> Result<S::Ok, S::Error> {
        self.0.serialize_none()
    }
    fn serialize_some<T: ?Sized + Serialize>(self, v: &T) -> Result<S::Ok, S::Error> {
        self.0.serialize_some(&Wrap(v))
    }
    fn serialize_unit(self) -> Result<S::Ok, S::Error> {
        self.0.serialize_unit()
    }
    fn serialize_unit_struct(self, n: &'static str) -> Result<S::Ok, S::Error> {
        self.0.serialize_unit_struct(n)
    }
    fn serialize_unit_variant(self, n: &'static str, i: u32, v: &'static str) -> Result<S::Ok, S::Error> {
        self.0.serialize_unit_variant(n, i, v)
    }
    fn serialize_newtype_struct<T: ?Sized + Serialize>(self, n: &'static str, v: &T) -> Result<S::Ok, S::Error> {
        self.0.serialize_newtype_struct(n, &Wrap(v))
    }
    fn serialize_newtype_variant<T: ?Sized + Serialize>(self, n: &'static str, i: u32, var: &'static str, v: &T) -> Result<S::Ok, S::Error> {
        self.0.serialize_newtype_variant(n, i, var, &Wrap(v))
    }
    fn serialize_seq(self, _len: Option<usize>) -> Result<Self::SerializeSeq, S::Error> {
        self.0.serialize_seq(None).map(ErasedCompound)
    }
    fn serialize_tuple(self, len: usize) -> Result<Self::SerializeTuple, S::Error> {
        self.0.serialize_tuple(len).map(ErasedCompound)
    }
    fn serialize_tuple_struct(self, n: &'static str, len: usize) -> Result<Self::SerializeTupleStruct, S::Error> {
        self.0.serialize_tuple_struct(n, len).map(ErasedCompound)
    }
    fn serialize_tuple_variant(self, n: &'static str, i: u32, v: &'static str, len: usize) -> Result<Self::SerializeTupleVariant, S::Error> {
        self.0.serialize_tuple_variant(n, i, v, len).map(ErasedCompound)
    }
    fn serialize_map(self, _len: Option<usize>) -> Result<Self::SerializeMap, S::Error> {
        self.0.serialize_map(None).map(ErasedCompound)
    }
    fn serialize_struct(self, n: &'static str, len: usize) -> Result<Self::SerializeStruct, S::Error> {
        self.0.serialize_struct(n, len).map(ErasedCompound)
    }
    fn serialize_struct_variant(self, n: &'static str, i: u32, v: &'static str, len: usize) -> Result<Self::SerializeStructVariant, S::Error> {
        self.0.serialize_struct_variant(n, i, v, len).map(ErasedCompound)
    }
}

impl<C: serde::ser::SerializeSeq> serde::ser::SerializeSeq for ErasedCompound<C> {
    type Ok = C::Ok;
    type Error = C::Error;
    fn serialize_element<T: ?Sized + Serialize>(&mut self, v: &T) -> Result<(), C::Error> {
        self.0.serialize_element(&Wrap(v))
    }
    fn end(self) -> Result<C::Ok, C::Error> {
        self.0.end()
    }
}
impl<C: serde::ser::SerializeTuple> serde::ser::SerializeTuple for ErasedCompound<C> {
    type Ok = C::Ok;
    type Error = C::Error;
    fn serialize_element<T: ?Sized + Serialize>(&mut self, v: &T) -> Result<(), C::Error> {
        self.0.serialize_element(&Wrap(v))
    }
    fn end(self) -> Result<C::Ok, C::Error> {
        self.0.end()
    }
}
impl<C: serde::ser::SerializeTupleStruct> serde::ser::SerializeTupleStruct for ErasedCompound<C> {
    type Ok = C::Ok;
    type Error = C::Error;
    fn serialize_field<T: ?Sized + Serialize>(&mut self, v: &T) -> Result<(), C::Error> {
        self.0.serialize_field(&Wrap(v))
    }
    fn end(self) -> Result<C::Ok, C::Error> {
        self.0.end()
    }
}
impl<C: serde::ser::SerializeTupleVariant> serde::ser::SerializeTupleVariant for ErasedCompound<C> {
    type Ok = C::Ok;
    type Error = C::Error;
    fn serialize_field<T: ?Sized + Serialize>(&mut self, v: &T) -> Result<(), C::Error> {
        self.0.serialize_field(&Wrap(v))
    }
    fn end(self) -> Result<C::Ok, C::Error> {
        self.0.end()
    }
}
impl<C: serde::ser::SerializeMap> serde::ser::SerializeMap for ErasedCompound<C> {
    type Ok = C::Ok;
    type Error = C::Error;
    fn serialize_key<T: ?Sized + Serialize>(&mut self, k: &T) -> Result<(), C::Error> {
        self.0.serialize_key(&Wrap(k))
    }
    fn serialize_value<T: ?Sized + Serialize>(&mut self, v: &T) -> Result<(), C::Error> {
        self.0.serialize_value(&Wrap(v))
    }
    fn end(self) -> Result<C::Ok, C::Error> {
        self.0.end()
    }
}
impl<C: serde::ser::SerializeStruct> serde::ser::SerializeStruct for ErasedCompound<C> {
    type Ok = C::Ok;
    type Error = C::Error;
    fn serialize_field<T: ?Sized + Serialize>(&mut self, k: &'static str, v: &T) -> Result<(), C::Error> {
        self.0.serialize_field(k, &Wrap(v))
    }
    fn end(self) -> Result<C::Ok, C::Error> {
        self.0.end()
    }
}
impl<C: serde::ser::SerializeStructVariant> serde::ser::SerializeStructVariant for ErasedCompound<C> {
    type Ok = C::Ok;
    type Error = C::Error;
    fn serialize_field<T: ?Sized + Serialize>(&mut self, k: &'static str, v: &T) -> Result<(), C::Error> {
        self.0.serialize_field(k, &Wrap(v))
    }
    fn end(self) -> Result<C::Ok, C::Error> {
        self.0.end()
    }
}

/// `shape_trigger`, or the kind of the root when no trigger applies (for signatures that name a shape).
pub fn shape_trigger_or_kind(ty: &Ty, v: &TVal) -> String {
    let t = shape_trigger(ty, v);
    if t.starts_with("other:") { kind(ty, v).to_string() } else { t }
}
