//! Trace collection from the `serde_saphyr::verif` hook, with shadow counters
//! kept by the monitor itself (never read from the implementation).

use serde_saphyr::verif::{Kind, Source, VerifEvent, set_sink};
use std::cell::RefCell;
use std::collections::HashMap;
use std::rc::Rc;

#[derive(Clone, Debug, Default)]
pub struct Trace {
    pub events: Vec<VerifEvent>,
    /// set when the trace was truncated at `cap`
    pub truncated: bool,
}

#[derive(Clone, Debug, Default)]
pub struct Shadow {
    pub pumps_parser: u64,
    pub pumps_replay: u64,
    pub pumps_synth: u64,
    pub alias_pushes: u64,
    pub inject_pops: u64,
    pub doc_resets: u64,
    pub finishes: u64,
    /// max over time of replayed events since the last DocReset
    pub max_replayed_since_reset: u64,
    /// max live inject frames seen at any pump / push
    pub max_inject_depth: u64,
    pub max_rec_depth: u64,
    /// max expansions of one anchor between resets
    pub max_expansions_per_anchor: u64,
    /// distinct (inject_depth, rec_depth, source) states seen at pumps
    pub states: std::collections::BTreeSet<(usize, usize, u8)>,
    pub scalar_bytes_parser: u64,
    pub scalar_bytes_replay: u64,
}

impl Trace {
    pub fn shadow(&self) -> Shadow {
        let mut s = Shadow::default();
        let mut replayed = 0u64;
        let mut per_anchor: HashMap<usize, u64> = HashMap::new();
        for e in &self.events {
            match e {
                VerifEvent::Pump { kind, source, scalar_len, inject_depth, rec_depth, .. } => {
                    match source {
                        Source::Parser => {
                            s.pumps_parser += 1;
                            if *kind == Kind::Scalar {
                                s.scalar_bytes_parser += *scalar_len as u64;
                            }
                        }
                        Source::Replay => {
                            s.pumps_replay += 1;
                            replayed += 1;
                            s.max_replayed_since_reset = s.max_replayed_since_reset.max(replayed);
                            if *kind == Kind::Scalar {
                                s.scalar_bytes_replay += *scalar_len as u64;
                            }
                        }
                        Source::Synth => s.pumps_synth += 1,
                    }
                    s.max_inject_depth = s.max_inject_depth.max(*inject_depth as u64);
                    s.max_rec_depth = s.max_rec_depth.max(*rec_depth as u64);
                    if s.states.len() < 4096 {
                        s.states.insert((*inject_depth, *rec_depth, *source as u8));
                    }
                }
                VerifEvent::AliasPush { anchor_id, depth, .. } => {
                    s.alias_pushes += 1;
                    s.max_inject_depth = s.max_inject_depth.max(*depth as u64);
                    let c = per_anchor.entry(*anchor_id).or_insert(0);
                    *c += 1;
                    s.max_expansions_per_anchor = s.max_expansions_per_anchor.max(*c);
                }
                VerifEvent::InjectPop => s.inject_pops += 1,
                VerifEvent::DocReset => {
                    s.doc_resets += 1;
                    replayed = 0;
                    per_anchor.clear();
                }
                VerifEvent::Finish => s.finishes += 1,
            }
        }
        s
    }
}

/// Run `f` with a recording sink installed on this thread; returns the trace.
/// At most `cap` events are stored (counting continues in `truncated`).
pub fn traced<T>(cap: usize, f: impl FnOnce() -> T) -> (T, Trace) {
    let tr: Rc<RefCell<Trace>> = Rc::new(RefCell::new(Trace::default()));
    let tr2 = tr.clone();
    let prev = set_sink(Some(Box::new(move |e: &VerifEvent| {
        let mut t = tr2.borrow_mut();
        if t.events.len() < cap {
            t.events.push(*e);
        } else {
            t.truncated = true;
        }
    })));
    struct Restore(Option<Option<Box<dyn FnMut(&VerifEvent)>>>);
    impl Drop for Restore {
        fn drop(&mut self) {
            if let Some(p) = self.0.take() {
                set_sink(p);
            }
        }
    }
    let _g = Restore(Some(prev));
    let r = f();
    drop(_g);
    let t = tr.borrow().clone();
    (r, t)
}

/// Streaming variant: `on_event` sees every event as it happens (used to assert
/// "never exceeds" at every step without storing the trace).
pub fn monitored<T>(on_event: impl FnMut(&VerifEvent) + 'static, f: impl FnOnce() -> T) -> T {
    let prev = set_sink(Some(Box::new(on_event)));
    struct Restore(Option<Option<Box<dyn FnMut(&VerifEvent)>>>);
    impl Drop for Restore {
        fn drop(&mut self) {
            if let Some(p) = self.0.take() {
                set_sink(p);
            }
        }
    }
    let _g = Restore(Some(prev));
    f()
}
