//! Deterministic PRNG (SplitMix64 seeding xoshiro256**). No external crates so
//! results never depend on crate versions.

#[derive(Clone, Debug)]
pub struct Rng {
    s: [u64; 4],
}

fn splitmix(x: &mut u64) -> u64 {
    *x = x.wrapping_add(0x9E3779B97F4A7C15);
    let mut z = *x;
    z = (z ^ (z >> 30)).wrapping_mul(0xBF58476D1CE4E5B9);
    z = (z ^ (z >> 27)).wrapping_mul(0x94D049BB133111EB);
    z ^ (z >> 31)
}

impl Rng {
    pub fn new(seed: u64) -> Self {
        let mut x = seed;
        let s = [
            splitmix(&mut x),
            splitmix(&mut x),
            splitmix(&mut x),
            splitmix(&mut x),
        ];
        Rng { s }
    }
    /// Independent stream for (seed, stream index).
    pub fn stream(seed: u64, idx: u64) -> Self {
        let mut x = seed ^ idx.wrapping_mul(0xD1342543DE82EF95).rotate_left(17);
        let a = splitmix(&mut x);
        Rng::new(a ^ idx)
    }
    pub fn next_u64(&mut self) -> u64 {
        let r = self.s[1].wrapping_mul(5).rotate_left(7).wrapping_mul(9);
        let t = self.s[1] << 17;
        self.s[2] ^= self.s[0];
        self.s[3] ^= self.s[1];
        self.s[1] ^= self.s[2];
        self.s[0] ^= self.s[3];
        self.s[2] ^= t;
        self.s[3] = self.s[3].rotate_left(45);
        r
    }
    /// Uniform in 0..n (n > 0).
    pub fn below(&mut self, n: usize) -> usize {
        debug_assert!(n > 0);
        ((self.next_u64() as u128 * n as u128) >> 64) as usize
    }
    /// Uniform in lo..=hi.
    pub fn range(&mut self, lo: usize, hi: usize) -> usize {
        lo + self.below(hi - lo + 1)
    }
    pub fn bool(&mut self) -> bool {
        self.next_u64() & 1 == 1
    }
    /// true with probability num/den.
    pub fn chance(&mut self, num: usize, den: usize) -> bool {
        self.below(den) < num
    }
    pub fn pick<'a, T>(&mut self, xs: &'a [T]) -> &'a T {
        &xs[self.below(xs.len())]
    }
    pub fn shuffle<T>(&mut self, xs: &mut [T]) {
        for i in (1..xs.len()).rev() {
            let j = self.below(i + 1);
            xs.swap(i, j);
        }
    }
}

/// FNV-1a 64 — stable hash for case de-duplication (not `DefaultHasher`, whose
/// algorithm is unspecified across releases).
pub fn fnv(bytes: &[u8]) -> u64 {
    let mut h: u64 = 0xcbf29ce484222325;
    for b in bytes {
        h ^= *b as u64;
        h = h.wrapping_mul(0x100000001b3);
    }
    h
}

pub fn fnv_parts(parts: &[&[u8]]) -> u64 {
    let mut h: u64 = 0xcbf29ce484222325;
    for p in parts {
        for b in *p {
            h ^= *b as u64;
            h = h.wrapping_mul(0x100000001b3);
        }
        h ^= 0xff;
        h = h.wrapping_mul(0x100000001b3);
    }
    h
}
