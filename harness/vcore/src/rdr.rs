//! Position-exact instrumented reader (used by C09 / C10).
//!
//! `obs::FaultReader` cycles through chunk *sizes*, so the partition it really
//! produces depends on the buffer sizes the consumer happens to pass. `CutReader`
//! instead honours a set of absolute *cut positions*: a single `read` never
//! crosses a cut, whatever buffer it is given (a smaller buffer only adds cuts).
//! That makes "all 2^(n-1) partitions of the input" an exact statement.
//!
//! It never returns `Ok(0)` before the end of the data and never `Interrupted`.

use crate::obs::ReadStats;
use std::cell::RefCell;
use std::io::{self, Read};
use std::rc::Rc;

/// Where a `read` has to stop.
#[derive(Clone, Debug, PartialEq, Eq)]
pub enum Chunking {
    /// Cut at every multiple of k (k >= 1).
    Every(usize),
    /// Sorted absolute cut positions (0 < p < len); anything else is ignored.
    Cuts(Vec<usize>),
    /// Bit i set = cut between byte i and byte i+1 (inputs <= 64 bytes).
    Mask(u64),
    /// No cut: hand out whatever the buffer takes.
    Whole,
}

impl Chunking {
    /// First cut position strictly after `pos` (or `len`).
    fn next_cut(&self, pos: usize, len: usize) -> usize {
        match self {
            Chunking::Every(k) => {
                let k = (*k).max(1);
                ((pos / k + 1) * k).min(len)
            }
            Chunking::Cuts(v) => {
                let i = v.partition_point(|c| *c <= pos);
                v.get(i).copied().unwrap_or(len).min(len)
            }
            Chunking::Mask(m) => {
                let mut p = pos;
                while p < len {
                    // bit p = cut after byte p
                    if p < 64 && (m >> p) & 1 == 1 {
                        return (p + 1).min(len);
                    }
                    p += 1;
                }
                len
            }
            Chunking::Whole => len,
        }
    }
    pub fn to_json(&self) -> serde_json::Value {
        use serde_json::json;
        match self {
            Chunking::Every(k) => json!({"every": k}),
            Chunking::Cuts(v) => json!({"cuts": v}),
            Chunking::Mask(m) => json!({"mask": m.to_string()}),
            Chunking::Whole => json!("whole"),
        }
    }
    pub fn from_json(v: &serde_json::Value) -> Chunking {
        if let Some(k) = v.get("every").and_then(|k| k.as_u64()) {
            return Chunking::Every(k as usize);
        }
        if let Some(c) = v.get("cuts").and_then(|k| k.as_array()) {
            return Chunking::Cuts(c.iter().filter_map(|x| x.as_u64()).map(|x| x as usize).collect());
        }
        if let Some(m) = v.get("mask").and_then(|k| k.as_str()) {
            return Chunking::Mask(m.parse().unwrap_or(0));
        }
        Chunking::Whole
    }
}

/// Fault plan. "Once" variants fail a single `read` call and then carry on as if
/// nothing had happened (no data is lost) — a consumer that forgets the error
/// would go on to see the complete input.
#[derive(Clone, Debug, PartialEq, Eq)]
pub enum RFault {
    None,
    /// Every read call with index >= k fails (0-based).
    ErrOnCall(usize),
    /// Only read call k fails.
    ErrOnceOnCall(usize),
    /// Once k bytes have been handed out every further read fails (a read never crosses byte k).
    ErrAfterBytes(usize),
    /// Once k bytes have been handed out exactly one read fails.
    ErrOnceAfterBytes(usize),
    /// Clean end of file after k bytes.
    EofAfterBytes(usize),
}

impl RFault {
    pub fn to_json(&self) -> serde_json::Value {
        use serde_json::json;
        match self {
            RFault::None => json!("none"),
            RFault::ErrOnCall(k) => json!({"err_on_call": k}),
            RFault::ErrOnceOnCall(k) => json!({"err_once_on_call": k}),
            RFault::ErrAfterBytes(k) => json!({"err_after_bytes": k}),
            RFault::ErrOnceAfterBytes(k) => json!({"err_once_after_bytes": k}),
            RFault::EofAfterBytes(k) => json!({"eof_after_bytes": k}),
        }
    }
    pub fn from_json(v: &serde_json::Value) -> RFault {
        let g = |n: &str| v.get(n).and_then(|k| k.as_u64()).map(|k| k as usize);
        if let Some(k) = g("err_on_call") {
            return RFault::ErrOnCall(k);
        }
        if let Some(k) = g("err_once_on_call") {
            return RFault::ErrOnceOnCall(k);
        }
        if let Some(k) = g("err_after_bytes") {
            return RFault::ErrAfterBytes(k);
        }
        if let Some(k) = g("err_once_after_bytes") {
            return RFault::ErrOnceAfterBytes(k);
        }
        if let Some(k) = g("eof_after_bytes") {
            return RFault::EofAfterBytes(k);
        }
        RFault::None
    }
    pub fn label(&self) -> &'static str {
        match self {
            RFault::None => "none",
            RFault::ErrOnCall(_) => "err_on_call",
            RFault::ErrOnceOnCall(_) => "err_once_on_call",
            RFault::ErrAfterBytes(_) => "err_after_bytes",
            RFault::ErrOnceAfterBytes(_) => "err_once_after_bytes",
            RFault::EofAfterBytes(_) => "eof_after_bytes",
        }
    }
}

pub const RFAULT_MSG: &str = "injected read fault";
/// A finished reader polled more often than this is a runaway consumer.
pub const RUNAWAY_POLLS: usize = 200_000;
pub const RUNAWAY_MSG: &str = "runaway consumer";

pub struct CutReader<'a> {
    data: &'a [u8],
    pos: usize,
    chunking: Chunking,
    fault: RFault,
    once_done: bool,
    polls_after_end: usize,
    pub stats: Rc<RefCell<ReadStats>>,
    /// number of read calls that returned >= 1 byte
    pub data_calls: Rc<RefCell<usize>>,
    /// bytes handed out when the fault fired for the first time
    pub fired_at: Rc<RefCell<Option<usize>>>,
}

impl<'a> CutReader<'a> {
    pub fn new(data: &'a [u8], chunking: Chunking, fault: RFault) -> Self {
        CutReader {
            data,
            pos: 0,
            chunking,
            fault,
            once_done: false,
            polls_after_end: 0,
            stats: Default::default(),
            data_calls: Default::default(),
            fired_at: Default::default(),
        }
    }
    pub fn plain(data: &'a [u8], chunking: Chunking) -> Self {
        Self::new(data, chunking, RFault::None)
    }
    pub fn stats_handle(&self) -> Rc<RefCell<ReadStats>> {
        self.stats.clone()
    }
    /// Byte position beyond which a sticky fault lets nothing through.
    fn fault_limit(&self) -> usize {
        match self.fault {
            RFault::ErrAfterBytes(k) | RFault::EofAfterBytes(k) => k,
            RFault::ErrOnCall(_) => 0,
            _ => usize::MAX,
        }
    }
    pub fn data_calls_handle(&self) -> Rc<RefCell<usize>> {
        self.data_calls.clone()
    }
    pub fn fired_at_handle(&self) -> Rc<RefCell<Option<usize>>> {
        self.fired_at.clone()
    }
}

impl Read for CutReader<'_> {
    fn read(&mut self, buf: &mut [u8]) -> io::Result<usize> {
        let mut st = self.stats.borrow_mut();
        let call = st.calls;
        st.calls += 1;
        if st.fault_fired {
            st.calls_after_fault += 1;
            if st.calls_after_fault > RUNAWAY_POLLS && self.pos >= self.data.len().min(self.fault_limit()) {
                panic!("{RUNAWAY_MSG}: {} reads after the injected fault at byte {}", st.calls_after_fault, self.pos);
            }
        }
        if buf.is_empty() {
            return Ok(0);
        }
        let mut limit = self.data.len();
        match self.fault {
            RFault::ErrOnCall(k) if call >= k => {
                st.fault_fired = true;
                self.fired_at.borrow_mut().get_or_insert(self.pos);
                return Err(io::Error::other(RFAULT_MSG));
            }
            RFault::ErrOnceOnCall(k) if call == k && !self.once_done => {
                self.once_done = true;
                st.fault_fired = true;
                self.fired_at.borrow_mut().get_or_insert(self.pos);
                return Err(io::Error::other(RFAULT_MSG));
            }
            RFault::ErrAfterBytes(k) => {
                if self.pos >= k {
                    st.fault_fired = true;
                self.fired_at.borrow_mut().get_or_insert(self.pos);
                    return Err(io::Error::other(RFAULT_MSG));
                }
                limit = limit.min(k);
            }
            RFault::ErrOnceAfterBytes(k) if !self.once_done => {
                if self.pos >= k {
                    self.once_done = true;
                    st.fault_fired = true;
                self.fired_at.borrow_mut().get_or_insert(self.pos);
                    return Err(io::Error::other(RFAULT_MSG));
                }
                limit = limit.min(k);
            }
            RFault::EofAfterBytes(k) => {
                limit = limit.min(k);
                if self.pos >= limit && k < self.data.len() {
                    st.fault_fired = true;
                self.fired_at.borrow_mut().get_or_insert(self.pos);
                }
            }
            _ => {}
        }
        if self.pos >= limit {
            st.eof_seen = true;
            self.polls_after_end += 1;
            if self.polls_after_end > RUNAWAY_POLLS {
                // A consumer that keeps polling a finished reader forever would hang the
                // harness (and usually grows a buffer without bound); turn it into a panic
                // that the caller's `catch` reports.
                panic!("{RUNAWAY_MSG}: {} reads after end of input at byte {}", self.polls_after_end, self.pos);
            }
            return Ok(0);
        }
        let stop = self.chunking.next_cut(self.pos, self.data.len()).min(limit);
        let n = (stop - self.pos).min(buf.len()).max(1).min(limit - self.pos);
        buf[..n].copy_from_slice(&self.data[self.pos..self.pos + n]);
        self.pos += n;
        st.bytes_out += n;
        *self.data_calls.borrow_mut() += 1;
        Ok(n)
    }
}

/// Byte positions that are worth cutting at: before/inside/after every
/// multi-byte character, between CR and LF, between `-` and the following
/// blank, inside `---` / `...`, around `: `, quotes, backslashes and anchors.
pub fn adversarial_positions(data: &[u8]) -> Vec<usize> {
    let mut v = Vec::new();
    let n = data.len();
    for i in 0..n {
        let b = data[i];
        let mut add = |p: usize| {
            if p > 0 && p < n {
                v.push(p);
            }
        };
        if b >= 0x80 {
            // every boundary in and around a multi-byte sequence
            add(i);
            add(i + 1);
        }
        match b {
            b'\r' | b'\n' => {
                add(i);
                add(i + 1);
            }
            b'-' | b'.' | b':' | b'?' | b'\\' | b'"' | b'\'' | b'&' | b'*' | b'!' | b'#' | b'|' | b'>' | b'%' => {
                add(i);
                add(i + 1);
            }
            _ => {}
        }
    }
    v.sort_unstable();
    v.dedup();
    v
}
