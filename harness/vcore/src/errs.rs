//! Helpers over `serde_saphyr::Error`.

use serde_saphyr::Error;

/// Variant name of the error with any snippet wrapper removed.
pub fn kind(e: &Error) -> String {
    let d = format!("{:?}", e.without_snippet());
    d.chars().take_while(|c| c.is_ascii_alphanumeric() || *c == '_').collect()
}

/// (line, column) of the primary location, if any.
pub fn line_col(e: &Error) -> Option<(u64, u64)> {
    e.location().map(|l| (l.line(), l.column()))
}

/// Canonical outcome string of a `Result<T, Error>` for comparisons where only
/// kind + line/column of errors matter.
pub fn outcome<T: std::fmt::Debug>(r: &Result<T, Error>) -> String {
    match r {
        Ok(v) => format!("Ok({v:?})"),
        Err(e) => format!("Err({}@{:?})", kind(e), line_col(e)),
    }
}

/// Options with everything that limits size switched off.
pub fn unlimited_options() -> serde_saphyr::Options {
    let mut o = serde_saphyr::Options::default();
    #[allow(deprecated)]
    {
        o.budget = None;
        o.alias_limits.max_total_replayed_events = usize::MAX;
        o.alias_limits.max_replay_stack_depth = usize::MAX;
        o.alias_limits.max_alias_expansions_per_anchor = usize::MAX;
    }
    o
}
