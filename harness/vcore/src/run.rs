//! Run context shared by all checks: argument parsing, counters, three-valued
//! verdict bookkeeping, known findings, evidence file, exit code.
//!
//! Exit codes: 0 = held on everything explored (possibly with KNOWN-FINDING
//! lines), 1 = at least one unlisted violation (one `VIOLATION property=..
//! replay=..` line each), 2 = harness error / inconclusive run (observed too
//! little, watchdog fired) — never a verdict.

use crate::rng::fnv;
use serde_json::{Value, json};
use std::collections::{BTreeMap, HashSet};
use std::path::{Path, PathBuf};
use std::sync::Mutex;
use std::sync::atomic::{AtomicU64, AtomicUsize, Ordering};
use std::time::Instant;

#[derive(Clone, Copy, Debug, PartialEq, Eq)]
pub enum Tier {
    Quick,
    Thorough,
}

impl Tier {
    pub fn name(self) -> &'static str {
        match self {
            Tier::Quick => "quick",
            Tier::Thorough => "thorough",
        }
    }
    /// Pick a bound by tier.
    pub fn pick<T>(self, quick: T, thorough: T) -> T {
        match self {
            Tier::Quick => quick,
            Tier::Thorough => thorough,
        }
    }
}

pub fn verif_root() -> PathBuf {
    std::env::var_os("VERIF_DIR")
        .map(PathBuf::from)
        .unwrap_or_else(|| PathBuf::from("/verif"))
}

#[derive(Clone, Debug)]
pub struct KnownFinding {
    pub property: String,
    pub id: String,
    pub status: String,
    pub signature: String,
    pub text: String,
}

pub fn load_known_findings() -> Vec<KnownFinding> {
    let p = verif_root().join("known_findings.json");
    let Ok(txt) = std::fs::read_to_string(&p) else {
        return Vec::new();
    };
    let v: Value = match serde_json::from_str(&txt) {
        Ok(v) => v,
        Err(e) => {
            eprintln!("harness error: known_findings.json unreadable: {e}");
            std::process::exit(2);
        }
    };
    let mut out = Vec::new();
    if let Some(arr) = v.get("findings").and_then(|a| a.as_array()) {
        for f in arr {
            let g = |k: &str| f.get(k).and_then(|s| s.as_str()).unwrap_or("").to_string();
            out.push(KnownFinding {
                property: g("property"),
                id: g("id"),
                status: g("status"),
                signature: g("signature"),
                text: g("text"),
            });
        }
    }
    out
}

pub enum Mode {
    Run,
    Replay(Value),
}

pub struct Run {
    pub prop: &'static str,
    pub tier: Tier,
    pub seed: u64,
    pub mode: Mode,
    start: Instant,
    evaluations: AtomicU64,
    nontrivial: Vec<Mutex<HashSet<u64>>>,
    samples: Mutex<Vec<Value>>,
    sample_cap: usize,
    sample_seen: AtomicUsize,
    counters: Mutex<BTreeMap<String, u64>>,
    sets: Mutex<BTreeMap<String, HashSet<String>>>,
    violations: Mutex<Vec<(String, Value)>>, // (signature, record)
    violation_sigs: Mutex<HashSet<String>>,
    sig_counts: Mutex<BTreeMap<String, usize>>,
    known_hit: Mutex<BTreeMap<String, (String, u64)>>, // id -> (text, count)
    inconclusive: Mutex<BTreeMap<String, u64>>,
    known: Vec<KnownFinding>,
    notes: Mutex<Vec<String>>,
}

const NT_SHARDS: usize = 64;
const MAX_VIOLATION_FILES: usize = 25;

impl Run {
    /// Parse `<bin> <quick|thorough>` or `<bin> --replay <file>`; `VERIF_SEED`,
    /// `VERIF_TIER` from the environment.
    pub fn from_args(prop: &'static str) -> Run {
        let args: Vec<String> = std::env::args().collect();
        let mut tier = match std::env::var("VERIF_TIER").ok().as_deref() {
            Some("thorough") => Tier::Thorough,
            _ => Tier::Quick,
        };
        let mut mode = Mode::Run;
        let mut i = 1;
        while i < args.len() {
            match args[i].as_str() {
                "quick" => tier = Tier::Quick,
                "thorough" => tier = Tier::Thorough,
                "--replay" => {
                    i += 1;
                    let p = args.get(i).cloned().unwrap_or_default();
                    let txt = std::fs::read_to_string(&p).unwrap_or_else(|e| {
                        eprintln!("harness error: cannot read replay file {p}: {e}");
                        std::process::exit(2)
                    });
                    let v: Value = serde_json::from_str(&txt).unwrap_or_else(|e| {
                        eprintln!("harness error: bad replay file {p}: {e}");
                        std::process::exit(2)
                    });
                    mode = Mode::Replay(v);
                }
                _ => {}
            }
            i += 1;
        }
        let seed = std::env::var("VERIF_SEED")
            .ok()
            .and_then(|s| s.trim().parse::<i64>().ok())
            .map(|v| v as u64)
            .unwrap_or(1);
        crate::obs::install_quiet_panic_hook();
        let run = Run {
            prop,
            tier,
            seed,
            mode,
            start: Instant::now(),
            evaluations: AtomicU64::new(0),
            nontrivial: (0..NT_SHARDS).map(|_| Mutex::new(HashSet::new())).collect(),
            samples: Mutex::new(Vec::new()),
            sample_cap: 12,
            sample_seen: AtomicUsize::new(0),
            counters: Mutex::new(BTreeMap::new()),
            sets: Mutex::new(BTreeMap::new()),
            violations: Mutex::new(Vec::new()),
            violation_sigs: Mutex::new(HashSet::new()),
            sig_counts: Mutex::new(BTreeMap::new()),
            known_hit: Mutex::new(BTreeMap::new()),
            inconclusive: Mutex::new(BTreeMap::new()),
            known: load_known_findings(),
            notes: Mutex::new(Vec::new()),
        };
        run.start_watchdog();
        run
    }

    fn start_watchdog(&self) {
        let secs: u64 = std::env::var("VERIF_WATCHDOG_S")
            .ok()
            .and_then(|s| s.parse().ok())
            .unwrap_or(match self.tier {
                Tier::Quick => 3600,
                Tier::Thorough => 8 * 3600,
            });
        let prop = self.prop;
        std::thread::spawn(move || {
            std::thread::sleep(std::time::Duration::from_secs(secs));
            eprintln!(
                "harness: wall-clock watchdog ({secs}s) fired for {prop}: run is INCONCLUSIVE (not a violation)"
            );
            std::process::exit(2);
        });
    }

    pub fn is_replay(&self) -> Option<&Value> {
        match &self.mode {
            Mode::Replay(v) => Some(v),
            Mode::Run => None,
        }
    }

    pub fn elapsed_s(&self) -> f64 {
        self.start.elapsed().as_secs_f64()
    }

    #[inline]
    pub fn eval(&self) {
        self.evaluations.fetch_add(1, Ordering::Relaxed);
    }
    #[inline]
    pub fn evals(&self, n: u64) {
        self.evaluations.fetch_add(n, Ordering::Relaxed);
    }
    /// Record a distinct non-trivial case by its stable hash.
    #[inline]
    pub fn nontrivial(&self, hash: u64) {
        let shard = (hash as usize) % NT_SHARDS;
        self.nontrivial[shard].lock().unwrap().insert(hash);
    }
    pub fn nontrivial_count(&self) -> usize {
        self.nontrivial.iter().map(|m| m.lock().unwrap().len()).sum()
    }
    /// Keep a few actual cases for the evidence file (first `cap`, then a thin
    /// sample of later ones so the list is not only the smallest cases).
    pub fn sample(&self, f: impl FnOnce() -> Value) {
        let n = self.sample_seen.fetch_add(1, Ordering::Relaxed);
        let take = n < self.sample_cap / 2 || (n.is_power_of_two() && n >= 64);
        if take {
            let mut s = self.samples.lock().unwrap();
            if s.len() < self.sample_cap * 2 {
                s.push(f());
            }
        }
    }
    pub fn count(&self, key: &str, n: u64) {
        *self.counters.lock().unwrap().entry(key.to_string()).or_insert(0) += n;
    }
    /// Merge a locally accumulated counter map (cheap way to count in hot loops).
    pub fn count_map(&self, m: &BTreeMap<&'static str, u64>) {
        let mut c = self.counters.lock().unwrap();
        for (k, v) in m {
            *c.entry((*k).to_string()).or_insert(0) += *v;
        }
    }
    pub fn max(&self, key: &str, v: u64) {
        let mut c = self.counters.lock().unwrap();
        let e = c.entry(key.to_string()).or_insert(0);
        if v > *e {
            *e = v;
        }
    }
    /// Track distinct observed labels (error kinds, contexts, states …).
    pub fn observe(&self, set: &str, label: &str) {
        let mut s = self.sets.lock().unwrap();
        let e = s.entry(set.to_string()).or_default();
        if e.len() < 4096 && !e.contains(label) {
            e.insert(label.to_string());
        }
    }
    pub fn note(&self, s: impl Into<String>) {
        self.notes.lock().unwrap().push(s.into());
    }
    pub fn inconclusive(&self, why: &str) {
        *self.inconclusive.lock().unwrap().entry(why.to_string()).or_insert(0) += 1;
    }

    /// Report a violation. `signature` is the deterministic classifier string
    /// used to match known findings; `case` must contain everything needed to
    /// re-run the case (`--replay`); `detail` says what was observed vs expected.
    pub fn violation(&self, signature: &str, case: Value, detail: impl Into<String>) {
        let detail = detail.into();
        for k in &self.known {
            if k.property == self.prop && k.status == "open" && k.signature == signature {
                let mut h = self.known_hit.lock().unwrap();
                let e = h.entry(k.id.clone()).or_insert((k.text.clone(), 0));
                e.1 += 1;
                return;
            }
        }
        // De-duplicate: keep the first witness per (signature, case hash) and cap
        // the number of files; count everything.
        self.count("violations_total", 1);
        self.count(&format!("violations_by_signature/{signature}"), 1);
        let case_txt = case.to_string();
        let key = format!("{signature}#{:016x}", fnv(case_txt.as_bytes()));
        {
            // at most 3 witnesses per signature, each a distinct case
            let mut counts = self.sig_counts.lock().unwrap();
            let c = counts.entry(signature.to_string()).or_insert(0);
            if *c >= 3 {
                return;
            }
            let mut sigs = self.violation_sigs.lock().unwrap();
            if !sigs.insert(key) {
                return;
            }
            *c += 1;
        }
        let mut v = self.violations.lock().unwrap();
        if v.len() >= MAX_VIOLATION_FILES {
            return;
        }
        v.push((
            signature.to_string(),
            json!({
                "property": self.prop,
                "signature": signature,
                "tier": self.tier.name(),
                "seed": self.seed,
                "case": case,
                "detail": detail,
            }),
        ));
    }

    pub fn violation_count(&self) -> usize {
        self.violations.lock().unwrap().len()
    }

    /// Write evidence, print verdict lines, exit.
    pub fn finish(self, spec: Finish) -> ! {
        let wall = self.elapsed_s();
        let root = verif_root();
        let evaluations = self.evaluations.load(Ordering::Relaxed);
        let nontrivial = self.nontrivial_count();

        // replay files
        let mut lines = Vec::new();
        let vio = self.violations.lock().unwrap();
        if !vio.is_empty() {
            let dir = root.join("replays").join(self.prop);
            let _ = std::fs::create_dir_all(&dir);
            for (sig, rec) in vio.iter() {
                let h = fnv(rec.to_string().as_bytes());
                let path = dir.join(format!("{:016x}.json", h));
                let _ = std::fs::write(&path, serde_json::to_string_pretty(rec).unwrap());
                lines.push(format!(
                    "VIOLATION property={} replay={}",
                    self.prop,
                    path.display()
                ));
                eprintln!(
                    "  signature: {sig}\n  detail: {}",
                    rec.get("detail").and_then(|d| d.as_str()).unwrap_or("")
                );
            }
        }
        let known_hit = self.known_hit.lock().unwrap();
        for (id, (text, n)) in known_hit.iter() {
            println!("KNOWN-FINDING: property={} {} [{} x{}]", self.prop, text, id, n);
        }
        for l in &lines {
            println!("{l}");
        }

        let inconc = self.inconclusive.lock().unwrap().clone();
        let inconc_total: u64 = inconc.values().sum();

        if self.is_replay().is_some() {
            // replay mode never rewrites evidence
            if !vio.is_empty() {
                std::process::exit(1);
            }
            println!("replay: case held (no violation reproduced)");
            std::process::exit(0);
        }

        let mut coverage = serde_json::Map::new();
        coverage.insert("evaluations".into(), json!(evaluations));
        coverage.insert("distinct_nontrivial".into(), json!(nontrivial));
        coverage.insert("rule".into(), json!(spec.rule));
        coverage.insert("samples".into(), Value::Array(self.samples.lock().unwrap().clone()));
        coverage.insert("exhaustive".into(), json!(spec.exhaustive));
        if !spec.exhaustive_scope.is_empty() {
            coverage.insert("exhaustive_scope".into(), json!(spec.exhaustive_scope));
        }
        let counters = self.counters.lock().unwrap().clone();
        coverage.insert("counters".into(), json!(counters));
        let sets = self.sets.lock().unwrap();
        let mut obs = serde_json::Map::new();
        for (k, v) in sets.iter() {
            let mut items: Vec<&String> = v.iter().collect();
            items.sort();
            let shown: Vec<&String> = items.iter().take(60).cloned().collect();
            obs.insert(k.clone(), json!({"distinct": v.len(), "values": shown}));
        }
        coverage.insert("observed".into(), Value::Object(obs));
        coverage.insert("inconclusive".into(), json!({"total": inconc_total, "by_reason": inconc}));
        coverage.insert(
            "known_findings_hit".into(),
            json!(known_hit.iter().map(|(id, (_, n))| json!({"id": id, "cases": n})).collect::<Vec<_>>()),
        );
        coverage.insert("notes".into(), json!(self.notes.lock().unwrap().clone()));
        coverage.insert("tools".into(), json!(spec.tools));

        let too_little = nontrivial < spec.min_nontrivial.max(2) || evaluations == 0;
        let verdict = if !vio.is_empty() {
            "violated"
        } else if too_little {
            "inconclusive"
        } else {
            "held_on_observed"
        };
        let ev = json!({
            "property_id": self.prop,
            "tier": self.tier.name(),
            "seed": self.seed as i64,
            "level": spec.level,
            "coverage": Value::Object(coverage),
            "assumptions": spec.assumptions,
            "wall_s": wall,
            "violations": vio.len(),
            "verdict": verdict,
        });
        let edir = root.join("evidence");
        let _ = std::fs::create_dir_all(&edir);
        let epath = edir.join(format!("{}.json", self.prop));
        if let Err(e) = write_atomic(&epath, &serde_json::to_string_pretty(&ev).unwrap()) {
            eprintln!("harness error: cannot write evidence {}: {e}", epath.display());
            std::process::exit(2);
        }
        println!(
            "{} {} seed={} evaluations={} distinct_nontrivial={} violations={} known={} inconclusive={} wall={:.1}s verdict={}",
            self.prop,
            self.tier.name(),
            self.seed,
            evaluations,
            nontrivial,
            vio.len(),
            known_hit.len(),
            inconc_total,
            wall,
            verdict
        );
        if !vio.is_empty() {
            std::process::exit(1);
        }
        if too_little {
            eprintln!(
                "harness error: run observed too little (distinct_nontrivial={} < {}), not a verdict",
                nontrivial,
                spec.min_nontrivial.max(2)
            );
            std::process::exit(2);
        }
        std::process::exit(0);
    }
}

fn write_atomic(path: &Path, text: &str) -> std::io::Result<()> {
    let tmp = path.with_extension("json.tmp");
    std::fs::write(&tmp, text)?;
    std::fs::rename(&tmp, path)
}

pub struct Finish {
    pub level: &'static str,
    pub rule: String,
    pub exhaustive: bool,
    pub exhaustive_scope: String,
    pub assumptions: Vec<String>,
    pub min_nontrivial: usize,
    pub tools: Vec<String>,
}

impl Finish {
    pub fn new(rule: impl Into<String>) -> Self {
        Finish {
            level: "exploration",
            rule: rule.into(),
            exhaustive: false,
            exhaustive_scope: String::new(),
            assumptions: Vec::new(),
            min_nontrivial: 2,
            tools: vec![format!("rustc {}", option_env!("VCORE_RUSTC").unwrap_or("stable"))],
        }
    }
    pub fn level(mut self, l: &'static str) -> Self {
        self.level = l;
        self
    }
    pub fn exhaustive(mut self, scope: impl Into<String>) -> Self {
        self.exhaustive = true;
        self.exhaustive_scope = scope.into();
        self
    }
    pub fn assume(mut self, a: impl Into<String>) -> Self {
        self.assumptions.push(a.into());
        self
    }
    pub fn min_nontrivial(mut self, n: usize) -> Self {
        self.min_nontrivial = n;
        self
    }
    pub fn tool(mut self, t: impl Into<String>) -> Self {
        self.tools.push(t.into());
        self
    }
}

/// Number of worker threads.
pub fn threads() -> usize {
    std::env::var("VERIF_THREADS")
        .ok()
        .and_then(|s| s.parse().ok())
        .unwrap_or_else(|| std::thread::available_parallelism().map(|n| n.get()).unwrap_or(4))
        .max(1)
}

/// Run `f(i)` for every i in 0..n on all cores; each worker thread has a large
/// stack (so a deep input does not kill the harness; stack *verdicts* are taken
/// in child processes) and its own thread-locals. Work is handed out in chunks.
pub fn par_range<F: Fn(usize) + Sync>(n: usize, f: F) {
    par_range_chunk(n, 0, f)
}

pub fn par_range_chunk<F: Fn(usize) + Sync>(n: usize, chunk: usize, f: F) {
    if n == 0 {
        return;
    }
    let t = threads().min(n);
    let chunk = if chunk == 0 { (n / (t * 16)).clamp(1, 4096) } else { chunk };
    let next = AtomicUsize::new(0);
    std::thread::scope(|s| {
        for w in 0..t {
            let next = &next;
            let f = &f;
            std::thread::Builder::new()
                .name(format!("w{w}"))
                .stack_size(1 << 30)
                .spawn_scoped(s, move || {
                    loop {
                        let lo = next.fetch_add(chunk, Ordering::Relaxed);
                        if lo >= n {
                            break;
                        }
                        let hi = (lo + chunk).min(n);
                        for i in lo..hi {
                            f(i);
                        }
                    }
                })
                .expect("spawn worker");
        }
    });
}
