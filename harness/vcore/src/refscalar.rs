//! Independent reference readers for YAML scalars (property C06; reused by C12
//! and C19).
//!
//! Nothing in this module calls serde-saphyr. Every function reads a scalar's
//! *text* (the value the raw parser reports, i.e. after quote/escape/block
//! processing) and says what that text naturally means for one family of target
//! types, plus whether the text is inside the *documented* grammar of that
//! family. The split matters for the verdict discipline of the checks:
//!
//! * library `Ok(v)`  ⇒ `v` must be (one of) the natural value(s), always;
//! * text in the documented grammar and the value fits ⇒ library must accept;
//! * text with no natural reading at all ⇒ library must reject;
//! * text with a natural reading outside the documented grammar (lenient
//!   spellings: `0X1F`, `1__0`, `tRuE`, `inf`, leading zeros …) ⇒ acceptance is
//!   *unspecified*, only the value is checked.
//!
//! The readers are deliberately written differently from
//! `serde-saphyr/src/parse_scalars.rs` / `base64.rs`: integers go through an
//! arbitrary-precision magnitude (no fixed-width accumulator that could wrap
//! the same way), base64 goes through a bit buffer following RFC 4648 §4, the
//! tables are literal spellings.

use crate::ydoc::Style;

// ===================================================================== BigUint

/// Arbitrary-precision unsigned magnitude: little-endian `u32` limbs, no
/// trailing zero limb (zero is the empty vector).
#[derive(Clone, Debug, PartialEq, Eq, Hash, Default)]
pub struct BigUint {
    limbs: Vec<u32>,
}

impl BigUint {
    pub fn zero() -> Self {
        BigUint { limbs: Vec::new() }
    }
    pub fn from_u128(mut v: u128) -> Self {
        let mut limbs = Vec::new();
        while v != 0 {
            limbs.push(v as u32);
            v >>= 32;
        }
        BigUint { limbs }
    }
    /// 2^k
    pub fn pow2(k: u32) -> Self {
        let mut limbs = vec![0u32; (k / 32) as usize];
        limbs.push(1u32 << (k % 32));
        BigUint { limbs }
    }
    pub fn is_zero(&self) -> bool {
        self.limbs.is_empty()
    }
    fn normalize(&mut self) {
        while self.limbs.last() == Some(&0) {
            self.limbs.pop();
        }
    }
    /// self = self * m + a
    pub fn mul_small_add(&mut self, m: u32, a: u32) {
        let mut carry = a as u64;
        for l in &mut self.limbs {
            let t = (*l as u64) * (m as u64) + carry;
            *l = t as u32;
            carry = t >> 32;
        }
        if carry != 0 {
            self.limbs.push(carry as u32);
        }
        self.normalize();
    }
    /// self / d, returning the remainder (d > 0).
    pub fn divmod_small(&mut self, d: u32) -> u32 {
        let mut rem: u64 = 0;
        for l in self.limbs.iter_mut().rev() {
            let cur = (rem << 32) | (*l as u64);
            *l = (cur / d as u64) as u32;
            rem = cur % d as u64;
        }
        self.normalize();
        rem as u32
    }
    pub fn add(&self, other: &BigUint) -> BigUint {
        let n = self.limbs.len().max(other.limbs.len());
        let mut out = Vec::with_capacity(n + 1);
        let mut carry = 0u64;
        for i in 0..n {
            let a = *self.limbs.get(i).unwrap_or(&0) as u64;
            let b = *other.limbs.get(i).unwrap_or(&0) as u64;
            let t = a + b + carry;
            out.push(t as u32);
            carry = t >> 32;
        }
        if carry != 0 {
            out.push(carry as u32);
        }
        let mut r = BigUint { limbs: out };
        r.normalize();
        r
    }
    /// self - other; `None` when other > self.
    pub fn checked_sub(&self, other: &BigUint) -> Option<BigUint> {
        if self.cmp_mag(other) == std::cmp::Ordering::Less {
            return None;
        }
        let mut out = Vec::with_capacity(self.limbs.len());
        let mut borrow = 0i64;
        for i in 0..self.limbs.len() {
            let a = self.limbs[i] as i64;
            let b = *other.limbs.get(i).unwrap_or(&0) as i64;
            let mut t = a - b - borrow;
            if t < 0 {
                t += 1 << 32;
                borrow = 1;
            } else {
                borrow = 0;
            }
            out.push(t as u32);
        }
        let mut r = BigUint { limbs: out };
        r.normalize();
        Some(r)
    }
    pub fn cmp_mag(&self, other: &BigUint) -> std::cmp::Ordering {
        use std::cmp::Ordering::*;
        match self.limbs.len().cmp(&other.limbs.len()) {
            Equal => {}
            o => return o,
        }
        for i in (0..self.limbs.len()).rev() {
            match self.limbs[i].cmp(&other.limbs[i]) {
                Equal => {}
                o => return o,
            }
        }
        Equal
    }
    /// Number of significant bits (0 for zero).
    pub fn bit_len(&self) -> u32 {
        match self.limbs.last() {
            None => 0,
            Some(top) => (self.limbs.len() as u32 - 1) * 32 + (32 - top.leading_zeros()),
        }
    }
    /// Exact value when it is below 2^128.
    pub fn to_u128(&self) -> Option<u128> {
        if self.limbs.len() > 4 {
            return None;
        }
        Some(self.low_u128())
    }
    /// Value modulo 2^128 (what a wrapping 128-bit accumulator would hold).
    pub fn low_u128(&self) -> u128 {
        let mut v = 0u128;
        for (i, l) in self.limbs.iter().take(4).enumerate() {
            v |= (*l as u128) << (32 * i);
        }
        v
    }
    /// self * 2^k
    pub fn shl(&self, k: u32) -> BigUint {
        if self.is_zero() {
            return BigUint::zero();
        }
        let words = (k / 32) as usize;
        let bits = k % 32;
        let mut limbs = vec![0u32; words];
        if bits == 0 {
            limbs.extend_from_slice(&self.limbs);
        } else {
            let mut carry = 0u32;
            for l in &self.limbs {
                limbs.push((l << bits) | carry);
                carry = l >> (32 - bits);
            }
            if carry != 0 {
                limbs.push(carry);
            }
        }
        let mut r = BigUint { limbs };
        r.normalize();
        r
    }
    /// self * 10^n
    pub fn mul_pow10(&self, mut n: u32) -> BigUint {
        let mut r = self.clone();
        while n >= 9 {
            r.mul_small_add(1_000_000_000, 0);
            n -= 9;
        }
        if n > 0 {
            r.mul_small_add(10u32.pow(n), 0);
        }
        r
    }
    /// Parse ASCII decimal digits (no sign, no separators); `None` on any other character.
    pub fn from_decimal(digits: &str) -> Option<BigUint> {
        let mut r = BigUint::zero();
        let b = digits.as_bytes();
        let mut i = 0;
        while i < b.len() {
            let n = (b.len() - i).min(9);
            let mut chunk = 0u32;
            for &c in &b[i..i + n] {
                if !c.is_ascii_digit() {
                    return None;
                }
                chunk = chunk * 10 + (c - b'0') as u32;
            }
            r.mul_small_add(10u32.pow(n as u32), chunk);
            i += n;
        }
        Some(r)
    }
    /// Digits in `radix` (2..=36), most significant first, no prefix; "0" for zero.
    pub fn to_radix(&self, radix: u32, upper: bool) -> String {
        if self.is_zero() {
            return "0".into();
        }
        let mut t = self.clone();
        let mut out = Vec::new();
        while !t.is_zero() {
            let d = t.divmod_small(radix);
            let c = std::char::from_digit(d, radix).unwrap();
            out.push(if upper { c.to_ascii_uppercase() } else { c });
        }
        out.iter().rev().collect()
    }
}

impl std::fmt::Display for BigUint {
    fn fmt(&self, f: &mut std::fmt::Formatter<'_>) -> std::fmt::Result {
        f.write_str(&self.to_radix(10, false))
    }
}

// ===================================================================== Tri

/// Three-valued table lookup: `Yes` = the text is one of the documented
/// spellings; `Maybe` = a lenient spelling (other casing, surrounding blanks …)
/// with the same natural meaning, acceptance unspecified; `No` = no such reading.
#[derive(Clone, Copy, Debug, PartialEq, Eq)]
pub enum Tri<T> {
    Yes(T),
    Maybe(T),
    No,
}

impl<T: Copy> Tri<T> {
    pub fn value(&self) -> Option<T> {
        match self {
            Tri::Yes(v) | Tri::Maybe(v) => Some(*v),
            Tri::No => None,
        }
    }
    pub fn is_yes(&self) -> bool {
        matches!(self, Tri::Yes(_))
    }
    pub fn is_no(&self) -> bool {
        matches!(self, Tri::No)
    }
}

fn trim_ws(s: &str) -> &str {
    s.trim_matches(char::is_whitespace)
}

// ===================================================================== integers

/// The natural reading of an integer token.
#[derive(Clone, Debug, PartialEq, Eq)]
pub struct IntReading {
    /// a `-` sign was written (also for `-0`)
    pub negative: bool,
    /// a `+` or `-` sign was written
    pub signed: bool,
    pub magnitude: BigUint,
    /// 2, 8, 10 or 16
    pub radix: u32,
    /// the value was read through the legacy `00…` octal rule
    pub via_legacy_octal: bool,
    /// the text is inside the documented grammar (see [`int_is_documented`])
    pub documented: bool,
    /// A second defensible magnitude for the same text (only under
    /// `legacy_octal_numbers`: `052`, `0_010` … could be read as YAML 1.1 octal
    /// although the option's documentation speaks of a `00` prefix). When present,
    /// acceptance and the choice between the two are unspecified.
    pub alternative: Option<BigUint>,
}

fn signed_i128(negative: bool, mag: &BigUint) -> Option<i128> {
    let m = mag.to_u128()?;
    if negative {
        if m == 1u128 << 127 {
            Some(i128::MIN)
        } else if m < 1u128 << 127 {
            Some(-(m as i128))
        } else {
            None
        }
    } else if m < 1u128 << 127 {
        Some(m as i128)
    } else {
        None
    }
}

fn unsigned_u128(negative: bool, mag: &BigUint) -> Option<u128> {
    if negative && !mag.is_zero() {
        return None;
    }
    mag.to_u128()
}

/// Does the exact value `v` fit a signed two's-complement type of `bits` bits?
pub fn fits_signed(v: i128, bits: u32) -> bool {
    if bits >= 128 {
        return true;
    }
    let half = 1i128 << (bits - 1);
    v >= -half && v < half
}

/// Does the exact value `v` fit an unsigned type of `bits` bits?
pub fn fits_unsigned(v: u128, bits: u32) -> bool {
    bits >= 128 || v < (1u128 << bits)
}

impl IntReading {
    /// Exact value as `i128` when representable.
    pub fn to_i128(&self) -> Option<i128> {
        signed_i128(self.negative, &self.magnitude)
    }
    /// Exact value as `u128` when representable (`-0` is 0).
    pub fn to_u128(&self) -> Option<u128> {
        unsigned_u128(self.negative, &self.magnitude)
    }
    pub fn alt_i128(&self) -> Option<i128> {
        self.alternative.as_ref().and_then(|m| signed_i128(self.negative, m))
    }
    pub fn alt_u128(&self) -> Option<u128> {
        self.alternative.as_ref().and_then(|m| unsigned_u128(self.negative, m))
    }
    /// All natural values that fit a signed type of `bits` bits.
    pub fn signed_candidates(&self, bits: u32) -> Vec<i128> {
        let mut v = Vec::new();
        for c in [self.to_i128(), self.alt_i128()].into_iter().flatten() {
            if fits_signed(c, bits) && !v.contains(&c) {
                v.push(c);
            }
        }
        v
    }
    /// All natural values that fit an unsigned type of `bits` bits.
    pub fn unsigned_candidates(&self, bits: u32) -> Vec<u128> {
        let mut v = Vec::new();
        for c in [self.to_u128(), self.alt_u128()].into_iter().flatten() {
            if fits_unsigned(c, bits) && !v.contains(&c) {
                v.push(c);
            }
        }
        v
    }
    /// Exact value in decimal, for messages.
    pub fn show(&self) -> String {
        format!("{}{}", if self.negative && !self.magnitude.is_zero() { "-" } else { "" }, self.magnitude)
    }
}

fn read_digits(digits: &str, radix: u32) -> Option<(BigUint, usize)> {
    let mut mag = BigUint::zero();
    let mut n = 0usize;
    for ch in digits.chars() {
        if ch == '_' {
            continue;
        }
        let d = ch.to_digit(radix)?; // ASCII digits/letters only
        mag.mul_small_add(radix, d);
        n += 1;
    }
    Some((mag, n))
}

/// Lenient integer reader → the *natural value* of `text`, or `None` when the
/// text has no integer reading at all.
///
/// Lenient means: surrounding white space is ignored, one optional sign, an
/// optional radix prefix `0x`/`0o`/`0b` in either case, `_` ignored anywhere
/// among the digits (at least one real digit required), leading zeros allowed.
/// With `legacy_octal` a digit string that starts with `00` is base 8 (and has
/// no reading if it contains `8` or `9`), as the option's documentation says.
pub fn ref_int(text: &str, legacy_octal: bool) -> Option<IntReading> {
    let t = trim_ws(text);
    let (negative, signed, rest) = match t.chars().next()? {
        '+' => (false, true, &t[1..]),
        '-' => (true, true, &t[1..]),
        _ => (false, false, t),
    };
    let rb = rest.as_bytes();
    let (radix, digits, prefixed) = if rb.len() >= 2 && rb[0] == b'0' {
        match rb[1] {
            b'x' | b'X' => (16, &rest[2..], true),
            b'o' | b'O' => (8, &rest[2..], true),
            b'b' | b'B' => (2, &rest[2..], true),
            _ => (10, rest, false),
        }
    } else {
        (10, rest, false)
    };
    let mut via_legacy = false;
    let mut alternative = None;
    let (magnitude, radix) = if !prefixed && legacy_octal && digits.starts_with("00") {
        via_legacy = true;
        let (m, n) = read_digits(digits, 8)?;
        if n == 0 {
            return None;
        }
        (m, 8)
    } else {
        let (m, n) = read_digits(digits, radix)?;
        if n == 0 {
            return None;
        }
        if !prefixed && legacy_octal {
            let stripped: String = digits.chars().filter(|c| *c != '_').collect();
            if stripped.len() > 1
                && stripped.starts_with('0')
                && let Some((o, _)) = read_digits(&stripped, 8)
                && o != m
            {
                alternative = Some(o);
            }
        }
        (m, radix)
    };
    Some(IntReading {
        negative,
        signed,
        magnitude,
        radix,
        via_legacy_octal: via_legacy,
        documented: int_is_documented(text, legacy_octal),
        alternative,
    })
}

fn sep_digits(body: &[u8], ok: fn(u8) -> bool) -> bool {
    if body.is_empty() || !ok(body[0]) || !ok(body[body.len() - 1]) {
        return false;
    }
    let mut prev_us = false;
    for &b in body {
        if b == b'_' {
            if prev_us {
                return false;
            }
            prev_us = true;
        } else if ok(b) {
            prev_us = false;
        } else {
            return false;
        }
    }
    true
}

/// Strict recogniser of the *documented* integer grammar (property C06:
/// "sign, decimal, 0x/0o/0b, `_` separators, optional legacy octal"):
///
/// ```text
/// int   := [+-]? ( dec | "0x" HEX | "0o" OCT | "0b" BIN | legacy )
/// dec   := "0" | [1-9] ( "_"? [0-9] )*
/// HEX   := h ( "_"? h )*          (likewise OCT, BIN)
/// legacy:= "00" ( o ( "_"? o )* )?      only with `legacy_octal`
/// ```
/// No surrounding blanks, lower-case prefix, single `_` only between digits, no
/// redundant leading zero in decimal. Everything else that [`ref_int`] can read
/// is a lenient spelling.
pub fn int_is_documented(text: &str, legacy_octal: bool) -> bool {
    let mut s = text.as_bytes();
    if let Some(b'+' | b'-') = s.first() {
        s = &s[1..];
    }
    if s.is_empty() {
        return false;
    }
    fn hex(b: u8) -> bool {
        b.is_ascii_hexdigit()
    }
    fn oct(b: u8) -> bool {
        (b'0'..=b'7').contains(&b)
    }
    fn bin(b: u8) -> bool {
        b == b'0' || b == b'1'
    }
    fn dec(b: u8) -> bool {
        b.is_ascii_digit()
    }
    if s.starts_with(b"0x") {
        return sep_digits(&s[2..], hex);
    }
    if s.starts_with(b"0o") {
        return sep_digits(&s[2..], oct);
    }
    if s.starts_with(b"0b") {
        return sep_digits(&s[2..], bin);
    }
    if legacy_octal && s.starts_with(b"00") {
        return s.len() == 2 || sep_digits(&s[2..], oct);
    }
    if s == b"0" {
        return true;
    }
    (b'1'..=b'9').contains(&s[0]) && sep_digits(s, dec)
}

// ===================================================================== bool / null / char

const TRUE_11: &[&str] = &["y", "Y", "yes", "Yes", "YES", "true", "True", "TRUE", "on", "On", "ON"];
const FALSE_11: &[&str] = &["n", "N", "no", "No", "NO", "false", "False", "FALSE", "off", "Off", "OFF"];
const TRUE_STRICT: &[&str] = &["true", "True", "TRUE"];
const FALSE_STRICT: &[&str] = &["false", "False", "FALSE"];

/// Boolean reading of `text`. Default: the YAML 1.1 table (`y|yes|true|on`,
/// `n|no|false|off` in lower, Capitalised and UPPER case). With
/// `strict_booleans` only `true`/`false` (same three casings). Other casings
/// and surrounding blanks are `Maybe`.
pub fn ref_bool(text: &str, strict_booleans: bool) -> Tri<bool> {
    let (tt, ft) = if strict_booleans { (TRUE_STRICT, FALSE_STRICT) } else { (TRUE_11, FALSE_11) };
    if tt.contains(&text) {
        return Tri::Yes(true);
    }
    if ft.contains(&text) {
        return Tri::Yes(false);
    }
    let low = trim_ws(text).to_ascii_lowercase();
    if tt.contains(&low.as_str()) {
        return Tri::Maybe(true);
    }
    if ft.contains(&low.as_str()) {
        return Tri::Maybe(false);
    }
    Tri::No
}

/// Is the scalar a null-like for non-`Option` contexts (string, char, untyped)?
/// Only plain scalars can be: empty, `~`, `null|Null|NULL` are `Yes`; other
/// casings of `null` are `Maybe`; quoted and block scalars are never null.
pub fn ref_null(text: &str, style: Style) -> Tri<()> {
    if style != Style::Plain {
        return Tri::No;
    }
    match text {
        "" | "~" | "null" | "Null" | "NULL" => Tri::Yes(()),
        t if t.eq_ignore_ascii_case("null") => Tri::Maybe(()),
        _ => Tri::No,
    }
}

/// Is the (untagged) scalar `None` for an `Option<T>` target? Plain null-likes
/// as in [`ref_null`]; an empty *block* scalar is `Maybe` ("empty unquoted");
/// quoted scalars never.
pub fn ref_null_option(text: &str, style: Style) -> Tri<()> {
    match style {
        Style::Plain => ref_null(text, style),
        Style::Literal | Style::Folded if text.is_empty() => Tri::Maybe(()),
        _ => Tri::No,
    }
}

/// The single Unicode scalar value of `text`, or `None` when the text is empty
/// or longer than one scalar value.
pub fn ref_char(text: &str) -> Option<char> {
    let mut it = text.chars();
    let c = it.next()?;
    if it.next().is_some() { None } else { Some(c) }
}

// ===================================================================== floats

#[derive(Clone, Debug, PartialEq, Eq)]
pub enum FloatKind {
    /// a decimal literal; the string is the cleaned text (trimmed, `_` removed)
    /// that Rust's `str::parse` rounds correctly
    Decimal(String),
    Inf { negative: bool },
    Nan,
}

/// The natural reading of a float token.
#[derive(Clone, Debug, PartialEq, Eq)]
pub struct FloatReading {
    pub kind: FloatKind,
    /// inside the documented grammar: YAML 1.2 core float
    /// `[-+]?(\.[0-9]+|[0-9]+(\.[0-9]*)?)([eE][-+]?[0-9]+)?`,
    /// `[-+]?\.(inf|Inf|INF)`, `\.(nan|NaN|NAN)`
    pub documented: bool,
}

/// All NaNs compare equal here.
pub fn norm_f64(v: f64) -> u64 {
    if v.is_nan() { f64::NAN.to_bits() } else { v.to_bits() }
}
pub fn norm_f32(v: f32) -> u32 {
    if v.is_nan() { f32::NAN.to_bits() } else { v.to_bits() }
}

impl FloatReading {
    /// Correctly rounded f64 (bits; NaN normalised).
    pub fn f64_bits(&self) -> u64 {
        match &self.kind {
            FloatKind::Decimal(s) => norm_f64(s.parse::<f64>().expect("decimal grammar checked")),
            FloatKind::Inf { negative } => (if *negative { f64::NEG_INFINITY } else { f64::INFINITY }).to_bits(),
            FloatKind::Nan => f64::NAN.to_bits(),
        }
    }
    /// Correctly rounded f32 — rounded **once** from the decimal text, not via f64.
    pub fn f32_bits(&self) -> u32 {
        match &self.kind {
            FloatKind::Decimal(s) => norm_f32(s.parse::<f32>().expect("decimal grammar checked")),
            FloatKind::Inf { negative } => (if *negative { f32::NEG_INFINITY } else { f32::INFINITY }).to_bits(),
            FloatKind::Nan => f32::NAN.to_bits(),
        }
    }
    pub fn f64(&self) -> f64 {
        f64::from_bits(self.f64_bits())
    }
}

fn decimal_float_grammar(s: &str) -> bool {
    let b = s.as_bytes();
    let mut i = 0;
    if i < b.len() && (b[i] == b'+' || b[i] == b'-') {
        i += 1;
    }
    let int_start = i;
    while i < b.len() && b[i].is_ascii_digit() {
        i += 1;
    }
    let int_digits = i - int_start;
    let mut frac_digits = 0;
    if i < b.len() && b[i] == b'.' {
        i += 1;
        let fs = i;
        while i < b.len() && b[i].is_ascii_digit() {
            i += 1;
        }
        frac_digits = i - fs;
    }
    if int_digits == 0 && frac_digits == 0 {
        return false;
    }
    if i < b.len() && (b[i] == b'e' || b[i] == b'E') {
        i += 1;
        if i < b.len() && (b[i] == b'+' || b[i] == b'-') {
            i += 1;
        }
        let es = i;
        while i < b.len() && b[i].is_ascii_digit() {
            i += 1;
        }
        if i == es {
            return false;
        }
    }
    i == b.len()
}

/// Float reading of `text`, or `None` when it has none.
///
/// Documented: the YAML 1.2 core forms (see [`FloatReading::documented`]).
/// Lenient (`documented == false`): surrounding blanks, `_` among the digits,
/// other casings of `.inf`/`.nan`, a sign on `.nan`, and Rust's own spellings
/// `inf`, `infinity`, `nan` (any case, optional sign).
pub fn ref_float(text: &str) -> Option<FloatReading> {
    let t = trim_ws(text);
    let trimmed = t.len() != text.len();
    let (neg, signed, body) = match t.chars().next()? {
        '+' => (false, true, &t[1..]),
        '-' => (true, true, &t[1..]),
        _ => (false, false, t),
    };
    let low = body.to_ascii_lowercase();
    match low.as_str() {
        ".inf" => {
            let documented = !trimmed && matches!(body, ".inf" | ".Inf" | ".INF");
            return Some(FloatReading { kind: FloatKind::Inf { negative: neg }, documented });
        }
        ".nan" => {
            let documented = !trimmed && !signed && matches!(body, ".nan" | ".NaN" | ".NAN");
            return Some(FloatReading { kind: FloatKind::Nan, documented });
        }
        "inf" | "infinity" => {
            return Some(FloatReading { kind: FloatKind::Inf { negative: neg }, documented: false });
        }
        "nan" => return Some(FloatReading { kind: FloatKind::Nan, documented: false }),
        _ => {}
    }
    if decimal_float_grammar(t) {
        return Some(FloatReading { kind: FloatKind::Decimal(t.to_string()), documented: !trimmed });
    }
    if t.contains('_') {
        // `_` only between/after digits of the mantissa or exponent is a lenient spelling
        let cleaned: String = t.chars().filter(|c| *c != '_').collect();
        let first_digit_or_dot = body.chars().next().is_some_and(|c| c.is_ascii_digit() || c == '.');
        if first_digit_or_dot && decimal_float_grammar(&cleaned) {
            return Some(FloatReading { kind: FloatKind::Decimal(cleaned), documented: false });
        }
    }
    None
}

// --------------------------------------------------------------------- exact rounding check

/// Binary floating-point format description for [`decimal_rounds_to`].
#[derive(Clone, Copy, Debug)]
pub struct FloatFormat {
    /// explicit fraction bits (52 for f64, 23 for f32)
    pub frac_bits: u32,
    /// exponent field bits (11 / 8)
    pub exp_bits: u32,
}
pub const F64_FORMAT: FloatFormat = FloatFormat { frac_bits: 52, exp_bits: 11 };
pub const F32_FORMAT: FloatFormat = FloatFormat { frac_bits: 23, exp_bits: 8 };

/// Split a decimal literal that satisfies the float grammar into
/// (negative, integer digit string without the point, decimal exponent) so that
/// the value is `digits * 10^exp`. `None` when the exponent literal is absurdly
/// long (more than 6 digits).
fn split_decimal(text: &str) -> Option<(bool, String, i64)> {
    let (neg, body) = match text.as_bytes().first()? {
        b'+' => (false, &text[1..]),
        b'-' => (true, &text[1..]),
        _ => (false, text),
    };
    let (mant, exp) = match body.find(['e', 'E']) {
        Some(i) => (&body[..i], &body[i + 1..]),
        None => (body, ""),
    };
    let mut e: i64 = 0;
    if !exp.is_empty() {
        let (eneg, ed) = match exp.as_bytes()[0] {
            b'+' => (false, &exp[1..]),
            b'-' => (true, &exp[1..]),
            _ => (false, exp),
        };
        let ed = ed.trim_start_matches('0');
        if ed.len() > 6 {
            return None;
        }
        let v: i64 = if ed.is_empty() { 0 } else { ed.parse().ok()? };
        e = if eneg { -v } else { v };
    }
    let (ip, fp) = match mant.find('.') {
        Some(i) => (&mant[..i], &mant[i + 1..]),
        None => (mant, ""),
    };
    let fp = fp.trim_end_matches('0');
    let mut digits = String::with_capacity(ip.len() + fp.len());
    digits.push_str(ip);
    digits.push_str(fp);
    e -= fp.len() as i64;
    let d = digits.trim_start_matches('0').to_string();
    Some((neg, d, e))
}

/// Compare `d * 10^e` with `c * 2^j` exactly.
fn cmp_dec_bin(d: &BigUint, e: i64, c: &BigUint, j: i64) -> std::cmp::Ordering {
    let mut left = d.clone();
    let mut right = c.clone();
    if e >= 0 {
        left = left.mul_pow10(e as u32);
    } else {
        right = right.mul_pow10((-e) as u32);
    }
    if j >= 0 {
        right = right.shl(j as u32);
    } else {
        left = left.shl((-j) as u32);
    }
    left.cmp_mag(&right)
}

/// Exact, arbitrary-precision check that `bits` (an IEEE-754 value of format
/// `fmt`, in the low bits of the `u64`) is the round-to-nearest, ties-to-even
/// result for the decimal literal `text` (float grammar, no `_`). Independent of
/// any float parsing routine: the literal is held as `digits·10^e`, the candidate
/// as `m·2^k`, and the literal is compared with the two half-way points around
/// the candidate by cross-multiplication. `None` = cannot decide (NaN candidate,
/// not a decimal literal, exponent literal longer than 6 digits).
pub fn decimal_rounds_to(text: &str, bits: u64, fmt: FloatFormat) -> Option<bool> {
    use std::cmp::Ordering::*;
    if !decimal_float_grammar(text) {
        return None;
    }
    let (neg, dstr, e) = split_decimal(text)?;
    let p = fmt.frac_bits + 1; // precision
    let bias: i64 = (1i64 << (fmt.exp_bits - 1)) - 1;
    let sign_bit = (bits >> (fmt.frac_bits + fmt.exp_bits)) & 1 == 1;
    let be = ((bits >> fmt.frac_bits) & ((1u64 << fmt.exp_bits) - 1)) as i64;
    let frac = bits & ((1u64 << fmt.frac_bits) - 1);
    let max_be: i64 = (1i64 << fmt.exp_bits) - 1;
    if sign_bit != neg {
        return Some(false);
    }
    if be == max_be && frac != 0 {
        return None; // NaN
    }
    let d = BigUint::from_decimal(&dstr)?;
    if d.is_zero() {
        return Some(be == 0 && frac == 0);
    }
    // overflow threshold: half an ulp above the largest finite value
    let m_max: u128 = (1u128 << p) - 1;
    let k_max: i64 = (max_be - 1) - bias - (p as i64 - 1);
    let inf_threshold = BigUint::from_u128(2 * m_max + 1);
    if be == max_be {
        return Some(cmp_dec_bin(&d, e, &inf_threshold, k_max - 1) != Less);
    }
    let (m, k): (u128, i64) = if be == 0 {
        (frac as u128, 1 - bias - (p as i64 - 1))
    } else {
        ((1u128 << (p - 1)) | frac as u128, be - bias - (p as i64 - 1))
    };
    let even = m & 1 == 0;
    // upper half-way point
    let hi = BigUint::from_u128(2 * m + 1);
    match cmp_dec_bin(&d, e, &hi, k - 1) {
        Greater => return Some(false),
        Equal if !even => return Some(false),
        _ => {}
    }
    if m == 0 {
        return Some(true); // anything from 0 up to (and, being even, including) half the least subnormal
    }
    // lower half-way point: the gap below a power of two (other than the least normal) is half as wide
    let (lo, lo_k) = if be > 1 && frac == 0 {
        (BigUint::from_u128(4 * m - 1), k - 2)
    } else {
        (BigUint::from_u128(2 * m - 1), k - 1)
    };
    match cmp_dec_bin(&d, e, &lo, lo_k) {
        Less => Some(false),
        Equal => Some(even),
        Greater => Some(true),
    }
}

impl FloatReading {
    /// Confirm with exact arithmetic that [`FloatReading::f64_bits`] /
    /// [`FloatReading::f32_bits`] (which come from Rust's `str::parse`) are the
    /// correctly rounded values of the literal. `None` for non-decimal kinds or
    /// undecidable inputs.
    pub fn confirmed_exactly(&self) -> Option<bool> {
        match &self.kind {
            FloatKind::Decimal(s) => {
                let a = decimal_rounds_to(s, self.f64_bits(), F64_FORMAT)?;
                let b = decimal_rounds_to(s, self.f32_bits() as u64, F32_FORMAT)?;
                Some(a && b)
            }
            _ => None,
        }
    }
}

/// Exact decimal expansion (no exponent) of the half-way point between the
/// finite positive value with the given bits and its successor — the hardest
/// literals for a decimal-to-binary conversion. The result can have several
/// hundred digits.
pub fn midpoint_above(bits: u64, fmt: FloatFormat) -> Option<String> {
    let p = fmt.frac_bits + 1;
    let bias: i64 = (1i64 << (fmt.exp_bits - 1)) - 1;
    let be = ((bits >> fmt.frac_bits) & ((1u64 << fmt.exp_bits) - 1)) as i64;
    let frac = bits & ((1u64 << fmt.frac_bits) - 1);
    if be == (1i64 << fmt.exp_bits) - 1 || bits >> (fmt.frac_bits + fmt.exp_bits) != 0 {
        return None;
    }
    let (m, k): (u128, i64) =
        if be == 0 { (frac as u128, 1 - bias - (p as i64 - 1)) } else { ((1u128 << (p - 1)) | frac as u128, be - bias - (p as i64 - 1)) };
    let c = BigUint::from_u128(2 * m + 1);
    let j = k - 1;
    if j >= 0 {
        return Some(c.shl(j as u32).to_radix(10, false));
    }
    // c / 2^n = c * 5^n / 10^n
    let n = (-j) as u32;
    let mut v = c;
    for _ in 0..n {
        v.mul_small_add(5, 0);
    }
    let digits = v.to_radix(10, false);
    let n = n as usize;
    let s = if digits.len() > n {
        format!("{}.{}", &digits[..digits.len() - n], &digits[digits.len() - n..])
    } else {
        format!("0.{}{}", "0".repeat(n - digits.len()), digits)
    };
    Some(s)
}

// ===================================================================== base64

/// Verdict of the reference base64 decoder.
#[derive(Clone, Debug, PartialEq, Eq)]
pub enum B64 {
    /// canonical RFC 4648 §4 text (blanks and line breaks ignored) and its bytes
    Valid(Vec<u8>),
    /// not canonical base64; the reason names the rule that failed
    Invalid(&'static str),
    /// contains characters whose treatment neither RFC 4648 nor the crate's
    /// documentation settles (form feed, vertical tab, non-ASCII blanks)
    Unspecified(&'static str),
}

const B64_ALPHABET: &str = "ABCDEFGHIJKLMNOPQRSTUVWXYZabcdefghijklmnopqrstuvwxyz0123456789+/";

/// Strict canonical decoder written from RFC 4648 §4: after removing SP, TAB,
/// LF, CR the length is a multiple of 4, every character before the padding is
/// in the alphabet, `=` appears only as the last one or two characters, and
/// the bits that do not fill a byte are zero.
pub fn ref_b64(text: &str) -> B64 {
    let mut syms: Vec<char> = Vec::with_capacity(text.len());
    for c in text.chars() {
        match c {
            ' ' | '\t' | '\n' | '\r' => {}
            '\u{0B}' | '\u{0C}' => return B64::Unspecified("form feed / vertical tab"),
            c if !c.is_ascii() && c.is_whitespace() => return B64::Unspecified("non-ASCII white space"),
            c => syms.push(c),
        }
    }
    if syms.len() % 4 != 0 {
        return B64::Invalid("length not a multiple of 4");
    }
    let pad = syms.iter().rev().take_while(|c| **c == '=').count();
    if pad > 2 {
        return B64::Invalid("more than two padding characters");
    }
    let data = &syms[..syms.len() - pad];
    let mut acc: u32 = 0;
    let mut nbits: u32 = 0;
    let mut out = Vec::with_capacity(data.len() * 3 / 4);
    for c in data {
        let Some(v) = B64_ALPHABET.chars().position(|a| a == *c) else {
            return B64::Invalid(if *c == '=' { "padding before the end" } else { "character outside the alphabet" });
        };
        acc = (acc << 6) | v as u32;
        nbits += 6;
        if nbits >= 8 {
            nbits -= 8;
            out.push((acc >> nbits) as u8);
            acc &= (1 << nbits) - 1;
        }
    }
    // data.len() % 4 is 0 (pad 0), 3 (pad 1) or 2 (pad 2) because the total is a multiple of 4
    if acc != 0 {
        return B64::Invalid("non-zero trailing bits");
    }
    B64::Valid(out)
}

/// RFC 4648 §4 encoder (with padding, no line breaks).
pub fn b64_encode(bytes: &[u8]) -> String {
    let alpha: Vec<char> = B64_ALPHABET.chars().collect();
    let mut out = String::with_capacity(bytes.len().div_ceil(3) * 4);
    for chunk in bytes.chunks(3) {
        let b0 = chunk[0] as u32;
        let b1 = *chunk.get(1).unwrap_or(&0) as u32;
        let b2 = *chunk.get(2).unwrap_or(&0) as u32;
        let n = (b0 << 16) | (b1 << 8) | b2;
        out.push(alpha[(n >> 18) as usize & 63]);
        out.push(alpha[(n >> 12) as usize & 63]);
        out.push(if chunk.len() > 1 { alpha[(n >> 6) as usize & 63] } else { '=' });
        out.push(if chunk.len() > 2 { alpha[n as usize & 63] } else { '=' });
    }
    out
}

// ===================================================================== untyped inference

/// One possible result of untyped (schema-less) resolution of a plain scalar.
#[derive(Clone, Debug, PartialEq, Eq)]
pub enum Inferred {
    Null,
    Bool(bool),
    Int(i128),
    /// f64 bits, NaN normalised
    Float(u64),
    Str(String),
}

#[derive(Clone, Debug, PartialEq, Eq)]
pub struct UntypedReading {
    /// every defensible outcome, in resolution order
    pub allowed: Vec<Inferred>,
    /// exactly one outcome is allowed
    pub definite: bool,
}

/// Canonical string the crate documents for non-finite floats in untyped
/// positions (`deserialize_any`).
pub fn canonical_nonfinite(bits: u64) -> &'static str {
    let v = f64::from_bits(bits);
    if v.is_nan() {
        ".nan"
    } else if v.is_sign_negative() {
        "-.inf"
    } else {
        ".inf"
    }
}

/// Untyped resolution of an **untagged plain** scalar in the documented order
/// null → bool → int (64-bit) → float → string. A documented spelling at some
/// level ends the search; lenient spellings add their reading and the search
/// goes on, so the result lists every outcome the statement does not exclude.
/// Non-finite floats may arrive as the canonical strings `.nan`/`.inf`/`-.inf`.
pub fn ref_untyped_plain(text: &str, strict_booleans: bool, legacy_octal: bool) -> UntypedReading {
    let mut allowed: Vec<Inferred> = Vec::new();
    let fin = |allowed: Vec<Inferred>| {
        let definite = allowed.len() == 1;
        UntypedReading { allowed, definite }
    };
    match ref_null(text, Style::Plain) {
        Tri::Yes(()) => return fin(vec![Inferred::Null]),
        Tri::Maybe(()) => allowed.push(Inferred::Null),
        Tri::No => {}
    }
    match ref_bool(text, strict_booleans) {
        Tri::Yes(b) => {
            allowed.push(Inferred::Bool(b));
            return fin(allowed);
        }
        Tri::Maybe(b) => allowed.push(Inferred::Bool(b)),
        Tri::No => {}
    }
    if let Some(r) = ref_int(text, legacy_octal) {
        let fits64 = |v: i128| v >= i64::MIN as i128 && v <= u64::MAX as i128;
        if let Some(v) = r.to_i128()
            && r.documented
            && r.alternative.is_none()
            && fits64(v)
        {
            allowed.push(Inferred::Int(v));
            return fin(allowed);
        }
        for v in [r.to_i128(), r.alt_i128()].into_iter().flatten() {
            if !allowed.contains(&Inferred::Int(v)) {
                allowed.push(Inferred::Int(v));
            }
        }
    }
    if let Some(fr) = ref_float(text) {
        let bits = fr.f64_bits();
        if f64::from_bits(bits).is_finite() {
            allowed.push(Inferred::Float(bits));
            if fr.documented {
                if allowed.len() > 1 {
                    allowed.push(Inferred::Str(text.to_string()));
                }
                return fin(allowed);
            }
        } else {
            allowed.push(Inferred::Str(canonical_nonfinite(bits).to_string()));
            allowed.push(Inferred::Float(bits));
        }
    }
    let s = Inferred::Str(text.to_string());
    if !allowed.contains(&s) {
        allowed.push(s);
    }
    fin(allowed)
}

/// Would an untagged plain scalar with this text be something other than a
/// string for a schema-less reader (the `no_schema` / quoting question)?
/// `Yes` = documented spelling of null/bool/float, or of an integer whose value
/// an `i128` can hold; `Maybe` = only lenient spellings, or an integer spelling
/// beyond `i128` (whether a number nobody can hold "can be parsed as a number"
/// is not settled by the documentation); `No` = plain string.
pub fn ref_plain_is_ambiguous(text: &str) -> Tri<()> {
    if ref_null(text, Style::Plain).is_yes()
        || ref_bool(text, false).is_yes()
        || (int_is_documented(text, false) && ref_int(text, false).is_some_and(|r| r.to_i128().is_some()))
        || ref_float(text).is_some_and(|f| f.documented)
    {
        return Tri::Yes(());
    }
    if !ref_null(text, Style::Plain).is_no()
        || !ref_bool(text, false).is_no()
        || ref_int(text, false).is_some()
        || ref_int(text, true).is_some()
        || ref_float(text).is_some()
    {
        return Tri::Maybe(());
    }
    Tri::No
}

#[cfg(test)]
mod tests {
    use super::*;

    #[test]
    fn big() {
        let mut b = BigUint::zero();
        for d in "340282366920938463463374607431768211456".bytes() {
            b.mul_small_add(10, (d - b'0') as u32);
        }
        assert_eq!(b, BigUint::pow2(128));
        assert_eq!(b.to_u128(), None);
        assert_eq!(b.low_u128(), 0);
        assert_eq!(b.to_radix(16, false), "100000000000000000000000000000000");
        assert_eq!(b.checked_sub(&BigUint::from_u128(1)).unwrap().to_u128(), Some(u128::MAX));
        assert_eq!(BigUint::from_u128(255).to_radix(2, false), "11111111");
        assert_eq!(b.bit_len(), 129);
    }

    #[test]
    fn exact_rounding() {
        for t in ["1", "0.1", "1e23", "8.41e21", "9007199254740993", "1.7976931348623157e308", "1.7976931348623158e308",
                  "1.797693134862315807e308", "1.7976931348623159e308", "4.9e-324", "2.4703282292062327e-324", "2.4703282292062328e-324",
                  "2.47e-324", "1e-400", "1e400", "0.0", "-0", "2.2250738585072011e-308", "2.2250738585072014e-308",
                  "1.00000005960464477539062500000001", "1.000000059604644775390625", "16777217", "3.4028235677973366e38", "3.4028235677973367e38",
                  "1.401298464324817e-45", "7.006492321624085e-46", "7.006492321624086e-46", "123456789012345678901234567890e-50"] {
            let f64v: f64 = t.parse().unwrap();
            let f32v: f32 = t.parse().unwrap();
            assert_eq!(decimal_rounds_to(t, f64v.to_bits(), F64_FORMAT), Some(true), "f64 {t}");
            assert_eq!(decimal_rounds_to(t, f32v.to_bits() as u64, F32_FORMAT), Some(true), "f32 {t}");
            // neighbours are not the rounding result (unless zero/inf saturate the same way)
            if f64v.is_finite() && f64v != 0.0 {
                assert_eq!(decimal_rounds_to(t, f64v.to_bits() + 1, F64_FORMAT), Some(false), "f64+1 {t}");
                assert_eq!(decimal_rounds_to(t, f64v.to_bits() - 1, F64_FORMAT), Some(false), "f64-1 {t}");
            }
            if f32v.is_finite() && f32v != 0.0 {
                assert_eq!(decimal_rounds_to(t, (f32v.to_bits() + 1) as u64, F32_FORMAT), Some(false), "f32+1 {t}");
                assert_eq!(decimal_rounds_to(t, (f32v.to_bits() - 1) as u64, F32_FORMAT), Some(false), "f32-1 {t}");
            }
        }
        // midpoints: exact tie goes to the even neighbour
        for bits in [1u64, 2, 0x000F_FFFF_FFFF_FFFF, 0x0010_0000_0000_0000, 0x3FF0_0000_0000_0000, 0x3FF0_0000_0000_0001, 0x7FEF_FFFF_FFFF_FFFE] {
            let mid = midpoint_above(bits, F64_FORMAT).unwrap();
            let parsed: f64 = mid.parse().unwrap();
            let expect = if bits & 1 == 0 { bits } else { bits + 1 };
            assert_eq!(parsed.to_bits(), expect, "std parse of midpoint above {bits:#x}");
            assert_eq!(decimal_rounds_to(&mid, expect, F64_FORMAT), Some(true));
            assert_eq!(decimal_rounds_to(&mid, expect ^ 1, F64_FORMAT).map(|b| b && (expect ^ 1) != expect), Some(false));
        }
    }

    #[test]
    fn ints() {
        let r = ref_int("-0x80", false).unwrap();
        assert_eq!(r.to_i128(), Some(-128));
        assert!(r.documented);
        assert!(ref_int("0x", false).is_none());
        assert!(ref_int("_", false).is_none());
        assert!(ref_int("12a", false).is_none());
        assert_eq!(ref_int(" 1__0 ", false).unwrap().to_i128(), Some(10));
        assert!(!ref_int(" 1__0 ", false).unwrap().documented);
        assert_eq!(ref_int("0052", true).unwrap().to_i128(), Some(42));
        assert_eq!(ref_int("0052", false).unwrap().to_i128(), Some(52));
        assert!(ref_int("0089", true).is_none());
        assert_eq!(ref_int("052", true).unwrap().alt_i128(), Some(42));
        assert_eq!(ref_int("-170141183460469231731687303715884105728", false).unwrap().to_i128(), Some(i128::MIN));
        assert_eq!(ref_int("170141183460469231731687303715884105728", false).unwrap().to_i128(), None);
        assert!(int_is_documented("1_000", false));
        assert!(!int_is_documented("1__000", false));
        assert!(!int_is_documented("007", false));
        assert!(int_is_documented("007", true));
        assert!(!int_is_documented("0X1f", false));
    }

    #[test]
    fn b64() {
        assert_eq!(ref_b64("aGVsbG8="), B64::Valid(b"hello".to_vec()));
        assert_eq!(ref_b64("SG Vs\nbG8h"), B64::Valid(b"Hello!".to_vec()));
        assert!(matches!(ref_b64("AB=="), B64::Invalid(_)));
        assert!(matches!(ref_b64("AAB="), B64::Invalid(_)));
        assert!(matches!(ref_b64("A==="), B64::Invalid(_)));
        assert!(matches!(ref_b64("TQ==TQ=="), B64::Invalid(_)));
        assert!(matches!(ref_b64("A=A="), B64::Invalid(_)));
        assert_eq!(ref_b64(""), B64::Valid(vec![]));
        for n in 0..40usize {
            let v: Vec<u8> = (0..n).map(|i| (i * 37 + 11) as u8).collect();
            assert_eq!(ref_b64(&b64_encode(&v)), B64::Valid(v));
        }
    }

    #[test]
    fn floats() {
        assert!(ref_float("1.").unwrap().documented);
        assert!(ref_float(".5").unwrap().documented);
        assert!(ref_float(".").is_none());
        assert!(ref_float("1e").is_none());
        assert!(!ref_float("1_0.5").unwrap().documented);
        assert!(ref_float("_1").is_none());
        assert!(ref_float("0x10").is_none());
        assert!(!ref_float("inf").unwrap().documented);
        assert!(ref_float("-.INF").unwrap().documented);
        assert!(!ref_float("-.nan").unwrap().documented);
    }
}
