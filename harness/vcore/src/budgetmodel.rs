//! Independent budget counter (C07/C08) and a streaming hook monitor.
//!
//! The counter is a fold over the *raw* `saphyr-parser` event stream of the
//! input (via `reftree`), in which every `Alias` is followed by the events of
//! the reference expansion of its anchor (anchors stripped). It never looks at
//! serde-saphyr's own counters. Expansions are handled symbolically (one
//! summary per anchor), so alias bombs can be counted without materialising
//! them. All arithmetic saturates at `u64::MAX`.
//!
//! Meaning of the quantities (decided from the doc comments of
//! `serde_saphyr::budget::{Budget, BudgetReport}` and the C07 statement "an
//! independent count of the parser's event stream plus replayed events"):
//!
//! * `events`   – every raw parser event (stream/document markers, `Nothing`,
//!   aliases, content) + every replayed event;
//! * `aliases`  – raw `Alias` events (a recorded buffer is already expanded, so a
//!   replay contains none);
//! * `anchors`  – distinct non-zero anchor ids carried by raw events;
//! * `documents`– raw `DocumentStart` events;
//! * `nodes`    – scalars + sequence starts + mapping starts, raw and replayed;
//! * `max_depth`– deepest container nesting of the expanded stream;
//! * `total_scalar_bytes` – sum of scalar value lengths, raw and replayed;
//! * `merge_keys` – untagged plain `<<` scalars in mapping-key position of the
//!   expanded tree (position decided structurally on the `RNode` tree).
//!
//! Classes that the documentation does not pin down are flagged, not counted:
//! an alias in key position whose anchor is the scalar `<<`, and a *tagged*
//! plain `<<` key (the tag is not part of a recorded buffer).

use crate::reftree::{RNode, RawKind, parse_stream, raw_events};
use saphyr_parser::ScalarStyle;
use serde_saphyr::budget::{Budget, BudgetBreach, BudgetReport};
use serde_saphyr::verif::{Kind, Source, VerifEvent};
use std::cell::RefCell;
use std::collections::{HashMap, HashSet};
use std::rc::Rc;

#[derive(Clone, Copy, Debug, Default, PartialEq, Eq)]
pub struct Counts {
    pub events: u64,
    pub aliases: u64,
    pub anchors: u64,
    pub documents: u64,
    pub nodes: u64,
    pub max_depth: u64,
    pub total_scalar_bytes: u64,
    pub merge_keys: u64,
}

pub const FIELDS: [&str; 8] =
    ["events", "aliases", "anchors", "documents", "nodes", "max_depth", "total_scalar_bytes", "merge_keys"];

impl Counts {
    pub fn get(&self, field: &str) -> u64 {
        match field {
            "events" => self.events,
            "aliases" => self.aliases,
            "anchors" => self.anchors,
            "documents" => self.documents,
            "nodes" => self.nodes,
            "max_depth" => self.max_depth,
            "total_scalar_bytes" => self.total_scalar_bytes,
            "merge_keys" => self.merge_keys,
            _ => panic!("unknown field {field}"),
        }
    }
    pub fn of_report(r: &BudgetReport) -> Counts {
        Counts {
            events: r.events as u64,
            aliases: r.aliases as u64,
            anchors: r.anchors as u64,
            documents: r.documents as u64,
            nodes: r.nodes as u64,
            max_depth: r.max_depth as u64,
            total_scalar_bytes: r.total_scalar_bytes as u64,
            merge_keys: r.merge_keys as u64,
        }
    }
    /// Names of the fields in which `self` and `other` differ.
    pub fn diff(&self, other: &Counts) -> Vec<&'static str> {
        FIELDS.iter().copied().filter(|f| self.get(f) != other.get(f)).collect()
    }
    pub fn to_json(&self) -> serde_json::Value {
        serde_json::json!({
            "events": self.events, "aliases": self.aliases, "anchors": self.anchors, "documents": self.documents,
            "nodes": self.nodes, "max_depth": self.max_depth, "total_scalar_bytes": self.total_scalar_bytes,
            "merge_keys": self.merge_keys,
        })
    }
}

/// Expanded content of one node: what reaches the deserializer for it.
#[derive(Clone, Copy, Debug, Default)]
struct Summ {
    events: u64,
    nodes: u64,
    bytes: u64,
    merge_keys: u64,
    height: u64,
    /// the node is the untagged plain scalar `<<`
    is_merge_scalar: bool,
}

#[derive(Clone, Debug, Default)]
pub struct DocModel {
    /// content events pulled from the parser (scalars, starts, ends; no aliases, no markers)
    pub parser_pumps: u64,
    pub parser_scalar_bytes: u64,
    /// events served from recorded buffers in this document
    pub replayed_events: u64,
    pub replay_scalar_bytes: u64,
    pub aliases: u64,
    /// distinct anchor ids defined in this document
    pub anchors: u64,
    /// nodes / depth / bytes / merge keys of the expanded document
    pub nodes: u64,
    pub max_depth: u64,
    pub total_scalar_bytes: u64,
    pub merge_keys: u64,
    /// most aliases to one anchor id in this document
    pub max_expansions_per_anchor: u64,
    /// largest anchor id mentioned
    pub max_anchor_id: usize,
    pub has_root: bool,
}

#[derive(Clone, Debug, Default)]
pub struct Flags {
    /// some alias has no closed anchor of that id in its document (the call must fail)
    pub unresolved_alias: bool,
    /// an alias in mapping-key position expands to the scalar `<<` (merge or not: unspecified)
    pub alias_key_to_merge_scalar: bool,
    /// a tagged plain `<<` in key position (tag is lost in replays: unspecified)
    pub tagged_merge_like: bool,
    /// some raw alias is a direct child (key or value) of a mapping
    pub alias_direct_map_child: bool,
    /// `Event::Nothing` seen in the raw stream
    pub has_nothing_event: bool,
}

#[derive(Clone, Debug, Default)]
pub struct StreamModel {
    /// number of raw parser events (everything the parser yields up to StreamEnd)
    pub raw_events: u64,
    pub docs: Vec<DocModel>,
    /// the independent count for `EnforcingPolicy::AllContent`
    pub all: Counts,
    pub replayed_total: u64,
    pub parser_pumps: u64,
    pub parser_scalar_bytes: u64,
    pub replay_scalar_bytes: u64,
    /// max over documents
    pub max_replayed_per_doc: u64,
    pub max_expansions_per_anchor: u64,
    pub max_anchor_id: usize,
    pub flags: Flags,
}

struct Acc<'a> {
    doc: &'a mut DocModel,
    flags: &'a mut Flags,
    env: HashMap<usize, Option<Summ>>,
    per_anchor: HashMap<usize, u64>,
    anchors: HashSet<usize>,
}

fn is_merge_scalar(n: &RNode) -> (bool, bool) {
    // (untagged plain `<<`, tagged plain `<<`)
    match n {
        RNode::Scalar { value, style, tag, .. } if value == "<<" && matches!(style, ScalarStyle::Plain) => {
            (tag.is_none(), tag.is_some())
        }
        _ => (false, false),
    }
}

fn walk(n: &RNode, a: &mut Acc) -> Summ {
    match n {
        RNode::Scalar { value, anchor, .. } => {
            a.doc.parser_pumps += 1;
            a.doc.parser_scalar_bytes = a.doc.parser_scalar_bytes.saturating_add(value.len() as u64);
            let s = Summ {
                events: 1,
                nodes: 1,
                bytes: value.len() as u64,
                merge_keys: 0,
                height: 0,
                is_merge_scalar: is_merge_scalar(n).0,
            };
            if *anchor != 0 {
                a.anchors.insert(*anchor);
                a.doc.max_anchor_id = a.doc.max_anchor_id.max(*anchor);
                a.env.insert(*anchor, Some(s));
            }
            s
        }
        RNode::Alias { id, .. } => {
            a.doc.aliases += 1;
            a.doc.max_anchor_id = a.doc.max_anchor_id.max(*id);
            let c = a.per_anchor.entry(*id).or_insert(0);
            *c += 1;
            a.doc.max_expansions_per_anchor = a.doc.max_expansions_per_anchor.max(*c);
            match a.env.get(id) {
                Some(Some(s)) => {
                    let s = *s;
                    a.doc.replayed_events = a.doc.replayed_events.saturating_add(s.events);
                    a.doc.replay_scalar_bytes = a.doc.replay_scalar_bytes.saturating_add(s.bytes);
                    s
                }
                _ => {
                    a.flags.unresolved_alias = true;
                    Summ::default()
                }
            }
        }
        RNode::Seq { items, anchor, .. } => {
            a.doc.parser_pumps += 2;
            if *anchor != 0 {
                a.anchors.insert(*anchor);
                a.doc.max_anchor_id = a.doc.max_anchor_id.max(*anchor);
                a.env.insert(*anchor, None);
            }
            let mut s = Summ { events: 2, nodes: 1, bytes: 0, merge_keys: 0, height: 1, is_merge_scalar: false };
            for it in items {
                let c = walk(it, a);
                add(&mut s, &c);
            }
            if *anchor != 0 {
                a.env.insert(*anchor, Some(s));
            }
            s
        }
        RNode::Map { entries, anchor, .. } => {
            a.doc.parser_pumps += 2;
            if *anchor != 0 {
                a.anchors.insert(*anchor);
                a.doc.max_anchor_id = a.doc.max_anchor_id.max(*anchor);
                a.env.insert(*anchor, None);
            }
            let mut s = Summ { events: 2, nodes: 1, bytes: 0, merge_keys: 0, height: 1, is_merge_scalar: false };
            for (k, v) in entries {
                let (plain_merge, tagged_merge) = is_merge_scalar(k);
                if tagged_merge {
                    a.flags.tagged_merge_like = true;
                }
                if matches!(k, RNode::Alias { .. }) || matches!(v, RNode::Alias { .. }) {
                    a.flags.alias_direct_map_child = true;
                }
                let ck = walk(k, a);
                if matches!(k, RNode::Alias { .. }) && ck.is_merge_scalar {
                    a.flags.alias_key_to_merge_scalar = true;
                }
                if plain_merge {
                    s.merge_keys = s.merge_keys.saturating_add(1);
                }
                add(&mut s, &ck);
                let cv = walk(v, a);
                add(&mut s, &cv);
            }
            if *anchor != 0 {
                a.env.insert(*anchor, Some(s));
            }
            s
        }
    }
}

fn add(s: &mut Summ, c: &Summ) {
    s.events = s.events.saturating_add(c.events);
    s.nodes = s.nodes.saturating_add(c.nodes);
    s.bytes = s.bytes.saturating_add(c.bytes);
    s.merge_keys = s.merge_keys.saturating_add(c.merge_keys);
    s.height = s.height.max(c.height.saturating_add(1));
}

/// Count `input` (a leading BOM must already be removed). `Err` = the raw parser
/// rejects the input or yields a malformed event stream.
pub fn model(input: &str) -> Result<StreamModel, String> {
    let (evs, err) = raw_events(input);
    if let Some(e) = err {
        return Err(format!("scan error: {} at {}:{}", e.info, e.line, e.col));
    }
    let docs = parse_stream(input).map_err(|e| format!("fold error: {}", e.info))?;
    let mut m = StreamModel { raw_events: evs.len() as u64, ..Default::default() };
    let n_docstart = evs.iter().filter(|e| matches!(e.kind, RawKind::DocStart(_))).count();
    if n_docstart != docs.len() {
        return Err("document count mismatch between event list and fold".into());
    }
    m.flags.has_nothing_event = evs.iter().any(|e| matches!(e.kind, RawKind::Nothing));
    let mut all_anchor_ids: HashSet<usize> = HashSet::new();
    let mut all = Counts { documents: docs.len() as u64, ..Default::default() };
    for d in &docs {
        let mut dm = DocModel::default();
        if let Some(root) = &d.root {
            dm.has_root = true;
            let mut acc = Acc {
                doc: &mut dm,
                flags: &mut m.flags,
                env: HashMap::new(),
                per_anchor: HashMap::new(),
                anchors: HashSet::new(),
            };
            let s = walk(root, &mut acc);
            let anchors = std::mem::take(&mut acc.anchors);
            dm.anchors = anchors.len() as u64;
            all_anchor_ids.extend(anchors);
            dm.nodes = s.nodes;
            dm.max_depth = s.height;
            dm.total_scalar_bytes = s.bytes;
            dm.merge_keys = s.merge_keys;
        }
        all.aliases = all.aliases.saturating_add(dm.aliases);
        all.nodes = all.nodes.saturating_add(dm.nodes);
        all.max_depth = all.max_depth.max(dm.max_depth);
        all.total_scalar_bytes = all.total_scalar_bytes.saturating_add(dm.total_scalar_bytes);
        all.merge_keys = all.merge_keys.saturating_add(dm.merge_keys);
        m.replayed_total = m.replayed_total.saturating_add(dm.replayed_events);
        m.parser_pumps += dm.parser_pumps;
        m.parser_scalar_bytes = m.parser_scalar_bytes.saturating_add(dm.parser_scalar_bytes);
        m.replay_scalar_bytes = m.replay_scalar_bytes.saturating_add(dm.replay_scalar_bytes);
        m.max_replayed_per_doc = m.max_replayed_per_doc.max(dm.replayed_events);
        m.max_expansions_per_anchor = m.max_expansions_per_anchor.max(dm.max_expansions_per_anchor);
        m.max_anchor_id = m.max_anchor_id.max(dm.max_anchor_id);
        m.docs.push(dm);
    }
    all.anchors = all_anchor_ids.len() as u64;
    all.events = m.raw_events.saturating_add(m.replayed_total);
    m.all = all;
    // internal consistency of the two views of the same events: raw = markers + content + aliases
    let content_and_alias = m.parser_pumps + m.all.aliases;
    let markers = evs
        .iter()
        .filter(|e| {
            matches!(
                e.kind,
                RawKind::StreamStart | RawKind::StreamEnd | RawKind::DocStart(_) | RawKind::DocEnd | RawKind::Nothing
            )
        })
        .count() as u64;
    if markers + content_and_alias != m.raw_events {
        return Err("event list and folded tree disagree on the number of events".into());
    }
    Ok(m)
}

// ------------------------------------------------------------------ budgets

/// A budget in which nothing limits anything.
pub fn unlimited_budget() -> Budget {
    let mut b = Budget::default();
    b.max_reader_input_bytes = None;
    b.max_events = usize::MAX;
    b.max_aliases = usize::MAX;
    b.max_anchors = usize::MAX;
    b.max_depth = usize::MAX;
    b.max_documents = usize::MAX;
    b.max_nodes = usize::MAX;
    b.max_total_scalar_bytes = usize::MAX;
    b.max_merge_keys = usize::MAX;
    b.enforce_alias_anchor_ratio = false;
    b.alias_anchor_min_aliases = usize::MAX;
    b.alias_anchor_ratio_multiplier = 1;
    b
}

/// Set the limit that belongs to report field `field`.
pub fn set_limit(b: &mut Budget, field: &str, v: usize) {
    match field {
        "events" => b.max_events = v,
        "aliases" => b.max_aliases = v,
        "anchors" => b.max_anchors = v,
        "documents" => b.max_documents = v,
        "nodes" => b.max_nodes = v,
        "max_depth" => b.max_depth = v,
        "total_scalar_bytes" => b.max_total_scalar_bytes = v,
        "merge_keys" => b.max_merge_keys = v,
        _ => panic!("unknown field {field}"),
    }
}

/// Report field a breach variant belongs to (`"ratio"`, `"unbalanced"`, `"input_bytes"`, `"other"` for the rest).
pub fn breach_field(b: &BudgetBreach) -> &'static str {
    match b {
        BudgetBreach::Events { .. } => "events",
        BudgetBreach::Aliases { .. } => "aliases",
        BudgetBreach::Anchors { .. } => "anchors",
        BudgetBreach::Depth { .. } => "max_depth",
        BudgetBreach::Documents { .. } => "documents",
        BudgetBreach::Nodes { .. } => "nodes",
        BudgetBreach::ScalarBytes { .. } => "total_scalar_bytes",
        BudgetBreach::MergeKeys { .. } => "merge_keys",
        BudgetBreach::AliasAnchorRatio { .. } => "ratio",
        BudgetBreach::SequenceUnbalanced => "unbalanced",
        BudgetBreach::InputBytes { .. } => "input_bytes",
        _ => "other",
    }
}

/// `Some(field)` when `e` is `Error::Budget` (snippet wrapper removed).
pub fn budget_error_field(e: &serde_saphyr::Error) -> Option<&'static str> {
    match e.without_snippet() {
        serde_saphyr::Error::Budget { breach, .. } => Some(breach_field(breach)),
        _ => None,
    }
}

/// Error kind as the checks compare it. A limit error raised *while an alias is
/// being replayed* reaches the caller as `Error::AliasError { msg, .. }` whose
/// message is the rendering of the original error (`attach_alias_locations_if_missing`
/// in de.rs); that form is recognised here and reported with `wrapped = true`.
#[derive(Clone, Debug, PartialEq, Eq)]
pub struct EffKind {
    pub kind: String,
    pub budget_field: Option<&'static str>,
    pub wrapped: bool,
}

pub fn effective_kind(e: &serde_saphyr::Error) -> EffKind {
    let kind = crate::errs::kind(e);
    if let serde_saphyr::Error::AliasError { msg, .. } = e.without_snippet() {
        if let Some(rest) = msg.strip_prefix("budget breached: ") {
            let variant: String = rest.chars().take_while(|c| c.is_ascii_alphanumeric()).collect();
            let field = match variant.as_str() {
                "Events" => Some("events"),
                "Aliases" => Some("aliases"),
                "Anchors" => Some("anchors"),
                "Depth" => Some("max_depth"),
                "Documents" => Some("documents"),
                "Nodes" => Some("nodes"),
                "ScalarBytes" => Some("total_scalar_bytes"),
                "MergeKeys" => Some("merge_keys"),
                "AliasAnchorRatio" => Some("ratio"),
                _ => None,
            };
            if field.is_some() {
                return EffKind { kind: "Budget".into(), budget_field: field, wrapped: true };
            }
        }
        for (prefix, k) in [
            ("alias replay limit exceeded", "AliasReplayLimitExceeded"),
            ("alias expansion limit exceeded", "AliasExpansionLimitExceeded"),
            ("alias replay stack depth exceeded", "AliasReplayStackDepthExceeded"),
        ] {
            if msg.starts_with(prefix) {
                return EffKind { kind: k.into(), budget_field: None, wrapped: true };
            }
        }
    }
    EffKind { kind, budget_field: budget_error_field(e), wrapped: false }
}

/// Options with the given budget, alias limits off, and a report catcher.
pub fn options_with(budget: Budget) -> (serde_saphyr::Options, Rc<RefCell<Vec<BudgetReport>>>) {
    let got: Rc<RefCell<Vec<BudgetReport>>> = Rc::new(RefCell::new(Vec::new()));
    let g2 = got.clone();
    let mut o = serde_saphyr::Options::default();
    #[allow(deprecated)]
    {
        o.budget = Some(budget);
        o.alias_limits.max_total_replayed_events = usize::MAX;
        o.alias_limits.max_replay_stack_depth = usize::MAX;
        o.alias_limits.max_alias_expansions_per_anchor = usize::MAX;
        o.duplicate_keys = serde_saphyr::DuplicateKeyPolicy::LastWins;
    }
    let o = o.with_budget_report(move |r| g2.borrow_mut().push(r));
    (o, got)
}

// ------------------------------------------------------------------ hook monitor

#[derive(Clone, Copy, Debug)]
pub struct MonLimits {
    pub max_total_replayed: u64,
    pub max_stack: u64,
    pub max_per_anchor: u64,
}

impl MonLimits {
    pub fn none() -> Self {
        MonLimits { max_total_replayed: u64::MAX, max_stack: u64::MAX, max_per_anchor: u64::MAX }
    }
    pub fn of(l: &serde_saphyr::options::AliasLimits) -> Self {
        MonLimits {
            max_total_replayed: l.max_total_replayed_events as u64,
            max_stack: l.max_replay_stack_depth as u64,
            max_per_anchor: l.max_alias_expansions_per_anchor as u64,
        }
    }
}

/// Shadow counters kept from the hook events only.
#[derive(Clone, Debug, Default)]
pub struct MonState {
    pub pumps_parser: u64,
    pub pumps_replay: u64,
    pub pumps_synth: u64,
    pub alias_pushes: u64,
    pub inject_pops: u64,
    pub doc_resets: u64,
    pub finishes: u64,
    /// Scalar + SeqStart + MapStart pumps (parser + replay + synth)
    pub nodes: u64,
    pub depth: u64,
    pub max_depth: u64,
    pub bytes_parser: u64,
    pub bytes_replay: u64,
    pub replayed_since_reset: u64,
    pub max_replayed_since_reset: u64,
    pub max_inject_depth: u64,
    pub max_rec_depth: u64,
    pub per_anchor: Vec<u32>,
    pub max_expansions_per_anchor: u64,
    /// bit (min(inject,3)*16 + min(rec,15)) set for every state seen at a pump
    pub state_bits: u64,
    /// first step at which a shadow counter was above its limit: (what, value, limit, step index)
    pub step_violation: Option<(&'static str, u64, u64, u64)>,
    pub steps: u64,
}

impl MonState {
    pub fn pumps(&self) -> u64 {
        self.pumps_parser + self.pumps_replay + self.pumps_synth
    }
    pub fn distinct_states(&self) -> u32 {
        self.state_bits.count_ones()
    }
    fn on(&mut self, lim: &MonLimits, e: &VerifEvent) {
        self.steps += 1;
        match e {
            VerifEvent::Pump { kind, source, scalar_len, inject_depth, rec_depth, .. } => {
                match source {
                    Source::Parser => {
                        self.pumps_parser += 1;
                        if *kind == Kind::Scalar {
                            self.bytes_parser += *scalar_len as u64;
                        }
                    }
                    Source::Replay => {
                        self.pumps_replay += 1;
                        self.replayed_since_reset += 1;
                        self.max_replayed_since_reset = self.max_replayed_since_reset.max(self.replayed_since_reset);
                        if *kind == Kind::Scalar {
                            self.bytes_replay += *scalar_len as u64;
                        }
                        if self.replayed_since_reset > lim.max_total_replayed && self.step_violation.is_none() {
                            self.step_violation =
                                Some(("replayed-events", self.replayed_since_reset, lim.max_total_replayed, self.steps));
                        }
                    }
                    Source::Synth => self.pumps_synth += 1,
                }
                match kind {
                    Kind::Scalar => self.nodes += 1,
                    Kind::SeqStart | Kind::MapStart => {
                        self.nodes += 1;
                        self.depth += 1;
                        self.max_depth = self.max_depth.max(self.depth);
                    }
                    Kind::SeqEnd | Kind::MapEnd => self.depth = self.depth.saturating_sub(1),
                }
                self.max_inject_depth = self.max_inject_depth.max(*inject_depth as u64);
                self.max_rec_depth = self.max_rec_depth.max(*rec_depth as u64);
                self.state_bits |= 1u64 << ((*inject_depth).min(3) * 16 + (*rec_depth).min(15));
                if *inject_depth as u64 > lim.max_stack && self.step_violation.is_none() {
                    self.step_violation = Some(("inject-frames", *inject_depth as u64, lim.max_stack, self.steps));
                }
            }
            VerifEvent::AliasPush { anchor_id, depth, .. } => {
                self.alias_pushes += 1;
                self.max_inject_depth = self.max_inject_depth.max(*depth as u64);
                if *anchor_id >= self.per_anchor.len() {
                    self.per_anchor.resize(*anchor_id + 1, 0);
                }
                self.per_anchor[*anchor_id] = self.per_anchor[*anchor_id].saturating_add(1);
                let c = self.per_anchor[*anchor_id] as u64;
                self.max_expansions_per_anchor = self.max_expansions_per_anchor.max(c);
                if self.step_violation.is_none() {
                    if *depth as u64 > lim.max_stack {
                        self.step_violation = Some(("inject-frames", *depth as u64, lim.max_stack, self.steps));
                    } else if c > lim.max_per_anchor {
                        self.step_violation = Some(("expansions-per-anchor", c, lim.max_per_anchor, self.steps));
                    }
                }
            }
            VerifEvent::InjectPop => self.inject_pops += 1,
            VerifEvent::DocReset => {
                self.doc_resets += 1;
                self.replayed_since_reset = 0;
                self.per_anchor.iter_mut().for_each(|c| *c = 0);
                self.depth = 0;
            }
            VerifEvent::Finish => self.finishes += 1,
        }
    }
}

/// Run `f` with a streaming monitor on this thread; the shadow counters are
/// checked against `lim` at every step.
pub fn monitor<T>(lim: MonLimits, anchor_capacity: usize, f: impl FnOnce() -> T) -> (T, MonState) {
    let st = Rc::new(RefCell::new(MonState { per_anchor: vec![0; anchor_capacity + 2], ..Default::default() }));
    let s2 = st.clone();
    let r = crate::hooks::monitored(move |e: &VerifEvent| s2.borrow_mut().on(&lim, e), f);
    let out = st.borrow().clone();
    (r, out)
}

/// Does the trace agree with the model on everything both can see? `None` = yes,
/// `Some(reason)` = the case is inconclusive. Only meaningful for a run in which
/// every document was consumed completely (an `Ok` run).
pub fn trace_disagreement(m: &StreamModel, t: &MonState) -> Option<&'static str> {
    if t.pumps_synth != 0 {
        return Some("trace has synthesized events");
    }
    if t.pumps_parser != m.parser_pumps {
        return Some("model/trace: parser pumps differ");
    }
    if t.pumps_replay != m.replayed_total {
        return Some("model/trace: replayed events differ");
    }
    if t.alias_pushes != m.all.aliases {
        return Some("model/trace: alias pushes differ");
    }
    if t.nodes != m.all.nodes {
        return Some("model/trace: nodes differ");
    }
    if t.max_depth != m.all.max_depth {
        return Some("model/trace: depth differs");
    }
    if t.bytes_parser != m.parser_scalar_bytes || t.bytes_replay != m.replay_scalar_bytes {
        return Some("model/trace: scalar bytes differ");
    }
    if t.doc_resets != 2 * m.all.documents {
        return Some("model/trace: document resets differ");
    }
    None
}
