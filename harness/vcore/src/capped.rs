//! `Run::violation` keeps every distinct (signature, case) key and scans that set on
//! each call, which is quadratic when a broken build makes tens of thousands of
//! cases fail. `violation_capped` forwards the first `CAP` reports per signature
//! and only counts the rest (`violations_beyond_cap/<signature>` in the evidence),
//! so a run against a badly broken tree still ends in bounded time with exit 1.

use crate::run::Run;
use std::collections::HashMap;
use std::sync::{Mutex, OnceLock};

pub const CAP: u64 = 40;

fn seen() -> &'static Mutex<HashMap<String, u64>> {
    static S: OnceLock<Mutex<HashMap<String, u64>>> = OnceLock::new();
    S.get_or_init(|| Mutex::new(HashMap::new()))
}

pub trait Capped {
    fn violation_capped(&self, signature: &str, case: serde_json::Value, detail: impl Into<String>);
}

impl Capped for Run {
    fn violation_capped(&self, signature: &str, case: serde_json::Value, detail: impl Into<String>) {
        let n = {
            let mut m = seen().lock().unwrap();
            let e = m.entry(signature.to_string()).or_insert(0);
            *e += 1;
            *e
        };
        if n <= CAP {
            self.violation(signature, case, detail);
        } else {
            self.count(&format!("violations_beyond_cap/{signature}"), 1);
        }
    }
}
