use serde_saphyr::DuplicateKeyPolicy as P;
use vcore::Val;
fn main() {
    let docs: Vec<String> = std::env::args().skip(1).collect();
    for d in docs {
        let d = d.replace("\\n", "\n");
        println!("=== {d:?}");
        for (pn, p) in [("Err", P::Error), ("First", P::FirstWins), ("Last", P::LastWins)] {
            let mut o = vcore::errs::unlimited_options();
            #[allow(deprecated)]
            { o.duplicate_keys = p; }
            let r = serde_saphyr::from_str_with_options::<Val>(&d, o);
            match r {
                Ok(v) => println!("  {pn}: Ok {v}"),
                Err(e) => println!("  {pn}: Err {} loc={:?} :: {}", vcore::errs::kind(&e), vcore::errs::line_col(&e), e.to_string().lines().next().unwrap_or("")),
            }
        }
        match vcore::reftree::parse_one(&d) { Some(r) => { println!("  raw: {}", r.shape()); if let vcore::reftree::RNode::Map{entries,..}=&r { for (k,_) in entries { let p=k.pos(); print!(" key@({},{})", p.line, p.col+1);} println!(); } }, None => println!("  raw: none") }
    }
}
