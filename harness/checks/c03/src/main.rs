//! C03 — merge keys (`<<`) equal the explicitly merged mapping with fixed precedence.
//!
//! Metamorphic oracle on the real code. For a document d the raw parser's tree
//! (aliases expanded by anchor id) is rewritten by the property's own rule into
//! M(d), the same document with every mapping written out in full:
//!   own entries in document order, then the merge sources from last to first
//!   (a later `<<` entry before an earlier one; a later element of a merge
//!   sequence before an earlier one; nested sequences flattened in document order
//!   and reversed; recursively for sources that contain merges), skipping keys that
//!   are already present.
//! `from_str::<T>(d)` and `from_str::<T>(M(d))` must then give equal Ok values (for
//! the ordered pair-list target `Val` that includes delivery order) or both fail,
//! under all three duplicate-key policies and every target of the family.
//! Must-fail: merge value that is a non-null scalar / a sequence containing one.
//! Must-be-ordinary: quoted or tagged `<<` (checked against the key renamed).
//! The budget is off (`max_merge_keys` belongs to C07).

use saphyr_parser::ScalarStyle;
use serde::Deserialize;
use serde::de::DeserializeOwned;
use serde_json::json;
use std::collections::{BTreeMap, BTreeSet};
use vcore::reftree::{self, RNode, render_checked};
use vcore::rng::{Rng, fnv_parts};
use vcore::run::{Finish, Run, Tier, par_range};
use vcore::targets::{self, Outcome, same_value_or_both_err, show};
use vcore::val::Val;
use vcore::ydoc::{Node, RenderOpts, Style};

/// Thread-local accumulation of counters / observations (one lock per document instead of one per count).
mod acc {
    use std::cell::RefCell;
    use std::collections::{BTreeMap, HashSet};
    thread_local! {
        static C: RefCell<BTreeMap<&'static str, u64>> = const { RefCell::new(BTreeMap::new()) };
        static O: RefCell<HashSet<(&'static str, String)>> = RefCell::new(HashSet::new());
    }
    pub fn count(k: &'static str, n: u64) {
        C.with(|c| *c.borrow_mut().entry(k).or_insert(0) += n);
    }
    pub fn observe(run: &vcore::run::Run, set: &'static str, label: &str) {
        let new = O.with(|o| o.borrow_mut().insert((set, label.to_string())));
        if new {
            run.observe(set, label);
        }
    }
    pub fn flush(run: &vcore::run::Run) {
        let m = C.with(|c| std::mem::take(&mut *c.borrow_mut()));
        if !m.is_empty() {
            run.count_map(&m);
        }
    }
}

// ------------------------------------------------------------------ targets

#[derive(Debug, Deserialize)]
#[allow(dead_code)]
struct Wide {
    #[serde(default)]
    k1: Option<Val>,
    #[serde(default)]
    k2: Option<Val>,
    #[serde(default)]
    k3: Option<Val>,
    #[serde(default)]
    k4: Option<Val>,
    #[serde(default)]
    k5: Option<Val>,
    #[serde(default)]
    a: Option<Val>,
    #[serde(default)]
    b: Option<Val>,
}

/// Same fields, unknown fields rejected: a `<<` that leaks through as a key, or a
/// merged key that is not one of the fields, is an error here.
#[derive(Debug, Deserialize)]
#[serde(deny_unknown_fields)]
#[allow(dead_code)]
struct WideStrict {
    #[serde(default)]
    k1: Option<Val>,
    #[serde(default)]
    k2: Option<Val>,
    #[serde(default)]
    k3: Option<Val>,
    #[serde(default)]
    k4: Option<Val>,
    #[serde(default)]
    k5: Option<Val>,
    #[serde(default)]
    a: Option<Val>,
    #[serde(default)]
    b: Option<Val>,
}

fn local<T: DeserializeOwned + std::fmt::Debug>(s: &str, o: serde_saphyr::Options) -> Outcome {
    serde_saphyr::from_str_with_options::<T>(s, o).map(|v| format!("{v:?}"))
}

type TargetFn = fn(&str, serde_saphyr::Options) -> Outcome;

/// (name, function, struct-like: only sees the root mapping's fields)
fn target_table() -> Vec<(&'static str, TargetFn, bool)> {
    let v = |n: &str| targets::by_name(n).unwrap().from_str;
    vec![
        ("Val", v("Val"), false),
        ("MapStrVal", v("MapStrVal"), false),
        ("Rec", v("Rec"), true),
        ("json", v("json"), false),
        ("MapValVal", v("MapValVal"), false),
        ("Wide", local::<Wide> as TargetFn, true),
        ("WideStrict", local::<WideStrict> as TargetFn, true),
    ]
}

// typed positions below the root: merges inside struct fields, sequence items, map values, enum
// payloads (externally / internally tagged, untagged), flattened structs and tuples
#[derive(Debug, Deserialize)]
#[allow(dead_code)]
enum Ext {
    St {
        #[serde(default)]
        k1: Option<Val>,
        #[serde(default)]
        k2: Option<Val>,
        #[serde(default)]
        k3: Option<Val>,
        #[serde(default)]
        k4: Option<Val>,
    },
    Nt(Wide),
}

#[derive(Debug, Deserialize)]
#[serde(tag = "t")]
#[allow(dead_code)]
enum Int {
    A {
        #[serde(default)]
        k1: Option<Val>,
        #[serde(default)]
        k2: Option<Val>,
        #[serde(default)]
        k3: Option<Val>,
        #[serde(default)]
        k4: Option<Val>,
    },
    B {
        #[serde(default)]
        k1: Option<Val>,
    },
}

#[derive(Debug, Deserialize)]
#[allow(dead_code)]
struct Flat {
    #[serde(default)]
    k1: Option<Val>,
    #[serde(flatten)]
    rest: BTreeMap<String, Val>,
}

#[derive(Debug, Deserialize)]
#[serde(untagged)]
#[allow(dead_code)]
enum Unt {
    W(WideStrict),
    Other(Val),
}

#[derive(Debug, Deserialize)]
#[allow(dead_code)]
struct Outer {
    #[serde(default)]
    b: Vec<Val>,
    #[serde(default)]
    items: Vec<Wide>,
    #[serde(default)]
    inner: Option<WideStrict>,
    #[serde(default)]
    byname: BTreeMap<String, Wide>,
    #[serde(default)]
    e: Option<Ext>,
    #[serde(default)]
    nt: Option<Ext>,
    #[serde(default)]
    it: Option<Int>,
    #[serde(default)]
    flat: Option<Flat>,
    #[serde(default)]
    un: Option<Unt>,
    #[serde(default)]
    tup: Option<(Wide, Val)>,
}

fn typed_table() -> Vec<(&'static str, TargetFn, bool)> {
    let v = |n: &str| targets::by_name(n).unwrap().from_str;
    vec![("Outer", local::<Outer> as TargetFn, true), ("Val", v("Val"), false), ("json", v("json"), false)]
}

/// The mapping `spec` placed at typed position `pos` of `Outer` (fresh tokens for every copy).
fn typed_position(pos: usize, spec: &[Ent]) -> Vec<Ent> {
    let m = || Src::Map(spec.to_vec());
    match pos {
        0 => vec![Ent::OwnMap("items", Src::Seq(vec![m(), m()]))],
        1 => vec![Ent::OwnMap("inner", m())],
        2 => vec![Ent::OwnMap("byname", Src::Map(vec![Ent::OwnMap("x", m()), Ent::OwnMap("y", m())]))],
        3 => vec![Ent::OwnMap("e", Src::Map(vec![Ent::OwnMap("St", m())]))],
        4 => vec![Ent::OwnMap("nt", Src::Map(vec![Ent::OwnMap("Nt", m())]))],
        5 => {
            let mut e = vec![Ent::Fixed("t", "A")];
            e.extend(spec.to_vec());
            vec![Ent::OwnMap("it", Src::Map(e))]
        }
        6 => {
            // the enum tag itself arrives through a merge
            let mut e = spec.to_vec();
            e.push(Ent::Merge(Src::Map(vec![Ent::Fixed("t", "A")])));
            vec![Ent::OwnMap("it", Src::Map(e))]
        }
        7 => vec![Ent::OwnMap("flat", m())],
        8 => vec![Ent::OwnMap("un", m())],
        _ => vec![Ent::OwnMap("tup", Src::Seq(vec![m(), Src::Scalar("z", Style::Plain)]))],
    }
}
const N_TYPED_POS: usize = 10;

const POLICY_NAMES: [&str; 3] = ["Error", "FirstWins", "LastWins"];

const OPTVEC_NAMES: [&str; 4] = [
    "limits-off",
    "limits-off+no_schema+strict_booleans+legacy_octal+ignore_binary_tag",
    "limits-off+no-snippet+angle_conversions",
    "Options::default() (default budget and alias limits; the documents stay far inside them)",
];

/// Option vector `vec` with the duplicate-key policy set. Both sides of every relation get the same vector.
fn opts(policy: usize, vec: usize) -> serde_saphyr::Options {
    let mut o = if vec == 3 { serde_saphyr::Options::default() } else { vcore::errs::unlimited_options() };
    #[allow(deprecated)]
    {
        o.duplicate_keys = match policy {
            1 => serde_saphyr::DuplicateKeyPolicy::FirstWins,
            2 => serde_saphyr::DuplicateKeyPolicy::LastWins,
            _ => serde_saphyr::DuplicateKeyPolicy::Error,
        };
        match vec {
            1 => {
                o.no_schema = true;
                o.strict_booleans = true;
                o.legacy_octal_numbers = true;
                o.ignore_binary_tag_for_string = true;
            }
            2 => {
                o.with_snippet = false;
                o.angle_conversions = true;
            }
            _ => {}
        }
    }
    o
}

// ------------------------------------------------------------------ reference model (on the raw parser tree)

/// Only an untagged plain scalar `<<` is a merge key.
fn is_merge_key(k: &RNode) -> bool {
    matches!(k, RNode::Scalar { value, style: ScalarStyle::Plain, tag: None, .. } if value == "<<")
}

fn is_null_scalar(n: &RNode) -> bool {
    matches!(n, RNode::Scalar { value, style: ScalarStyle::Plain, tag: None, .. }
        if value.is_empty() || value == "~" || value.eq_ignore_ascii_case("null"))
}

/// Same key node: same structure, scalar text and tag; style, position and
/// anchors do not matter. (Tags on containers are flagged elsewhere.)
fn key_eq(a: &RNode, b: &RNode) -> bool {
    match (a, b) {
        (RNode::Scalar { value: v1, tag: t1, .. }, RNode::Scalar { value: v2, tag: t2, .. }) => v1 == v2 && t1 == t2,
        (RNode::Seq { items: i1, .. }, RNode::Seq { items: i2, .. }) => {
            i1.len() == i2.len() && i1.iter().zip(i2).all(|(x, y)| key_eq(x, y))
        }
        (RNode::Map { entries: e1, .. }, RNode::Map { entries: e2, .. }) => {
            e1.len() == e2.len() && e1.iter().zip(e2).all(|((k1, v1), (k2, v2))| key_eq(k1, k2) && key_eq(v1, v2))
        }
        _ => false,
    }
}

#[derive(Default, Debug)]
struct Flags {
    /// some merge value is not a mapping / (nested) sequence of mappings / null
    must_fail: bool,
    /// … and it sits in the root mapping (struct-like targets are sure to reach it)
    must_fail_root: bool,
    unspecified: BTreeSet<&'static str>,
    merge_entries: usize,
    contributed: usize,
    overridden: usize,
    own_dups: bool,
    merge_seq: bool,
    nested_merge: bool,
    model_error: bool,
}

struct Model;

impl Model {
    /// Entries a merge value stands for, in the order in which they are offered.
    fn source_entries(&mut self, v: &RNode, fl: &mut Flags, in_seq: bool, at_root: bool) -> Vec<(RNode, RNode)> {
        match v {
            RNode::Map { entries, tag, .. } => {
                if tag.is_some() {
                    fl.unspecified.insert("tagged-merge-source");
                }
                self.written_out(entries, fl, true, at_root)
            }
            RNode::Seq { items, tag, .. } => {
                if tag.is_some() {
                    fl.unspecified.insert("tagged-merge-source");
                }
                fl.merge_seq = true;
                let mut out = Vec::new();
                for it in items.iter().rev() {
                    out.extend(self.source_entries(it, fl, true, at_root));
                }
                out
            }
            n if is_null_scalar(n) => {
                if in_seq {
                    // "a (nested) sequence of mappings or null": null *inside* a sequence is not pinned down
                    fl.unspecified.insert("null-inside-merge-sequence");
                }
                Vec::new()
            }
            RNode::Scalar { .. } => {
                fl.must_fail = true;
                if at_root {
                    fl.must_fail_root = true;
                }
                Vec::new()
            }
            RNode::Alias { .. } => {
                fl.model_error = true;
                Vec::new()
            }
        }
    }

    /// The mapping written out in full (values and keys not yet rewritten).
    fn written_out(&mut self, entries: &[(RNode, RNode)], fl: &mut Flags, is_source: bool, at_root: bool) -> Vec<(RNode, RNode)> {
        let mut out: Vec<(RNode, RNode)> = Vec::new();
        let mut dup = false;
        for (k, v) in entries {
            if !is_merge_key(k) {
                if out.iter().any(|(k2, _)| key_eq(k2, k)) {
                    dup = true;
                }
                out.push((k.clone(), v.clone()));
            }
        }
        if dup {
            fl.own_dups = true;
            if is_source {
                // which of a source's own repeated entries is offered is not stated
                fl.unspecified.insert("duplicate-keys-inside-merge-source");
            }
        }
        for (k, v) in entries.iter().rev() {
            if is_merge_key(k) {
                fl.merge_entries += 1;
                if is_source {
                    fl.nested_merge = true;
                }
                for (sk, sv) in self.source_entries(v, fl, false, at_root) {
                    if out.iter().any(|(k2, _)| key_eq(k2, &sk)) {
                        fl.overridden += 1;
                    } else {
                        fl.contributed += 1;
                        out.push((sk, sv));
                    }
                }
            }
        }
        out
    }

    fn contains_merge_key(n: &RNode) -> bool {
        match n {
            RNode::Map { entries, .. } => entries.iter().any(|(k, v)| is_merge_key(k) || Self::contains_merge_key(k) || Self::contains_merge_key(v)),
            RNode::Seq { items, .. } => items.iter().any(Self::contains_merge_key),
            _ => false,
        }
    }

    /// M(n): every mapping below (and including) n written out.
    fn m(&mut self, n: &RNode, fl: &mut Flags, at_root: bool) -> RNode {
        match n {
            RNode::Map { entries, tag, pos, .. } => {
                let w = self.written_out(entries, fl, false, at_root);
                let mut out = Vec::with_capacity(w.len());
                for (k, v) in w {
                    if matches!(k, RNode::Map { .. } | RNode::Seq { .. }) {
                        if Self::contains_merge_key(&k) {
                            fl.unspecified.insert("merge-key-inside-a-key");
                        }
                        if has_container_tag(&k) {
                            fl.unspecified.insert("tagged-container-key");
                        }
                    }
                    let v2 = self.m(&v, fl, false);
                    out.push((k, v2));
                }
                RNode::Map { entries: out, tag: tag.clone(), anchor: 0, pos: *pos }
            }
            RNode::Seq { items, tag, pos, .. } => RNode::Seq {
                items: items.iter().map(|i| self.m(i, fl, false)).collect(),
                tag: tag.clone(),
                anchor: 0,
                pos: *pos,
            },
            other => other.clone(),
        }
    }
}

fn has_container_tag(n: &RNode) -> bool {
    match n {
        RNode::Map { entries, tag, .. } => tag.is_some() || entries.iter().any(|(k, v)| has_container_tag(k) || has_container_tag(v)),
        RNode::Seq { items, tag, .. } => tag.is_some() || items.iter().any(has_container_tag),
        _ => false,
    }
}

/// Any mapping with a repeated own (non-merge) key anywhere in the tree.
fn has_own_dups(n: &RNode) -> bool {
    match n {
        RNode::Map { entries, .. } => {
            let own: Vec<&RNode> = entries.iter().filter(|(k, _)| !is_merge_key(k)).map(|(k, _)| k).collect();
            for i in 0..own.len() {
                for j in 0..i {
                    if key_eq(own[i], own[j]) {
                        return true;
                    }
                }
            }
            entries.iter().any(|(k, v)| has_own_dups(k) || has_own_dups(v))
        }
        RNode::Seq { items, .. } => items.iter().any(has_own_dups),
        _ => false,
    }
}

/// `run.violation` with a cap per signature (a defect that hits a whole class of generated
/// documents would otherwise be reported tens of thousands of times); every occurrence beyond
/// the cap is still counted.
fn report(run: &Run, sig: &str, case: serde_json::Value, detail: impl Into<String>) {
    use std::sync::Mutex;
    static SEEN: Mutex<Option<std::collections::HashMap<String, u64>>> = Mutex::new(None);
    let n = {
        let mut g = SEEN.lock().unwrap();
        let m = g.get_or_insert_with(Default::default);
        let e = m.entry(sig.to_string()).or_insert(0);
        *e += 1;
        *e
    };
    if n <= 40 {
        run.violation(sig, case, detail);
    } else if n % 1000 == 0 {
        run.count(&format!("occurrences_beyond_first_40/{sig}"), 1000);
    }
}

// ------------------------------------------------------------------ the check of one document

fn features(fl: &Flags, doc: &str) -> String {
    let mut f = Vec::new();
    if fl.merge_seq {
        f.push("seq");
    }
    if fl.nested_merge {
        f.push("nested");
    }
    if doc.contains('*') {
        f.push("alias");
    }
    if fl.own_dups {
        f.push("own-dups");
    }
    if fl.overridden > 0 {
        f.push("collision");
    }
    if f.is_empty() { "plain".into() } else { f.join("+") }
}

fn mismatch_class(target: &str, a: &Outcome, b: &Outcome) -> &'static str {
    match (a, b) {
        (Ok(x), Ok(y)) => {
            if target == "Val" {
                // same pairs, other delivery order?
                let strip = |s: &str| {
                    let mut v: Vec<&str> = s.split(|c: char| !(c.is_alphanumeric() || c == '_' || c == '<')).filter(|t| !t.is_empty()).collect();
                    v.sort();
                    v.join(",")
                };
                if strip(x) == strip(y) { "order" } else { "content" }
            } else {
                "content"
            }
        }
        (Ok(_), Err(_)) => "ok-vs-err",
        (Err(_), Ok(_)) => "err-vs-ok",
        _ => "err-vs-err",
    }
}

struct Sel<'a> {
    optvec: usize,
    policies: &'a [usize],
    targets: &'a [(&'static str, TargetFn, bool)],
}

/// Check one document text. `flow` is only the preferred layout of the written-out document.
fn check_doc(run: &Run, doc: &str, flow: bool, sel: &Sel, class: &str) {
    let Some(raw) = reftree::parse_one(doc) else {
        run.inconclusive("generator-invalid: document rejected by the raw parser");
        return;
    };
    let Some(exp) = raw.expand() else {
        run.inconclusive("generator-invalid: unresolved alias");
        return;
    };
    let mut fl = Flags::default();
    let mut model = Model;
    let m = model.m(&exp, &mut fl, true);
    if fl.model_error {
        run.inconclusive("model error: alias left after expansion");
        return;
    }
    if !fl.unspecified.is_empty() {
        for u in &fl.unspecified {
            run.count(&format!("unspecified/{u}"), 1);
        }
        return;
    }
    let dups = has_own_dups(&exp);
    if fl.must_fail {
        if dups {
            // FirstWins may legitimately never look at the offending value
            acc::count("unspecified/must-fail-next-to-own-duplicates", 1);
            return;
        }
        for &p in sel.policies {
            for (tn, f, structlike) in sel.targets {
                if *structlike && !fl.must_fail_root {
                    continue;
                }
                run.eval();
                let case = || json!({"kind": "doc", "doc": doc, "flow": flow, "class": class, "policy": POLICY_NAMES[p], "optvec": sel.optvec, "target": tn});
                match vcore::obs::catch(|| f(doc, opts(p, sel.optvec))) {
                    Err(pn) => report(run, &format!("C03:panic:{}", vcore::obs::panic_site(&pn)), case(), pn),
                    Ok(Ok(v)) => report(run, 
                        "C03:invalid-merge-value-accepted",
                        case(),
                        format!("merge value that is neither mapping, sequence of mappings nor null gave Ok({v})"),
                    ),
                    Ok(Err(e)) => {
                        acc::observe(run, "must_fail_error_kinds", &vcore::errs::kind(&e));
                        acc::count("must_fail_held", 1);
                        run.nontrivial(fnv_parts(&[doc.as_bytes(), tn.as_bytes(), &[p as u8, sel.optvec as u8]]));
                    }
                }
            }
        }
        return;
    }
    // render M(d) and confirm it with the raw parser
    let rendered = {
        let ro = RenderOpts::new();
        render_checked(&m.to_node(flow), &ro).or_else(|| render_checked(&m.to_node(!flow), &ro))
    };
    let Some((mdoc, mraw)) = rendered else {
        run.inconclusive("generator-invalid: written-out document not parsed as intended");
        return;
    };
    if mraw.has_alias() || mraw.has_anchor() || Model::contains_merge_key(&mraw) {
        run.inconclusive("generator-invalid: written-out document still has merge keys/aliases");
        return;
    }
    let nontrivial = fl.contributed + fl.overridden >= 1;
    if fl.contributed > 0 {
        acc::count("docs_with_contributing_merge", 1);
    }
    if fl.overridden > 0 {
        acc::count("docs_with_overridden_merge_key", 1);
    }
    for &p in sel.policies {
        for (tn, f, _) in sel.targets {
            run.evals(2);
            let case = || json!({"kind": "doc", "doc": doc, "written_out": mdoc, "flow": flow, "class": class, "policy": POLICY_NAMES[p], "optvec": sel.optvec, "target": tn});
            let ra = vcore::obs::catch(|| f(doc, opts(p, sel.optvec)));
            let rb = vcore::obs::catch(|| f(&mdoc, opts(p, sel.optvec)));
            let (a, b) = match (ra, rb) {
                (Err(pn), _) | (_, Err(pn)) => {
                    report(run, &format!("C03:panic:{}", vcore::obs::panic_site(&pn)), case(), pn);
                    continue;
                }
                (Ok(a), Ok(b)) => (a, b),
            };
            if !same_value_or_both_err(&a, &b) {
                let sig = format!("C03:merge-vs-written-out:{}:{}", mismatch_class(tn, &a, &b), features(&fl, doc));
                report(run, &sig, case(), format!("[{} {}] with merge keys: {} | written out: {}", POLICY_NAMES[p], tn, show(&a), show(&b)));
            } else {
                if nontrivial {
                    run.nontrivial(fnv_parts(&[doc.as_bytes(), tn.as_bytes(), &[p as u8, sel.optvec as u8]]));
                }
                match &a {
                    Ok(_) => acc::count("both_ok", 1),
                    Err(e) => {
                        acc::count("both_err", 1);
                        if *tn == "Val" {
                            acc::observe(run, "val_both_err_kinds", &vcore::errs::kind(e));
                        }
                    }
                }
            }
        }
    }
}

fn rename_keys(v: &Val, from: &str, to: &str) -> Val {
    match v {
        Val::Seq(s) => Val::Seq(s.iter().map(|x| rename_keys(x, from, to)).collect()),
        Val::Map(m) => Val::Map(
            m.iter()
                .map(|(k, x)| {
                    let k2 = match k {
                        Val::Str(s) if s == from => Val::Str(to.to_string()),
                        other => rename_keys(other, from, to),
                    };
                    (k2, rename_keys(x, from, to))
                })
                .collect(),
        ),
        other => other.clone(),
    }
}

/// Quoted / tagged `<<` is an ordinary key: the document must read exactly like the
/// same document with that key spelled `zz9` (same style, same tag), modulo the name.
fn check_ordinary(run: &Run, doc: &str, renamed: &str, policies: &[usize]) {
    for &p in policies {
        run.evals(4);
        let case = || json!({"kind": "ordinary", "doc": doc, "renamed": renamed, "policy": POLICY_NAMES[p]});
        let r = vcore::obs::catch(|| {
            (
                serde_saphyr::from_str_with_options::<Val>(doc, opts(p, 0)),
                serde_saphyr::from_str_with_options::<Val>(renamed, opts(p, 0)),
                serde_saphyr::from_str_with_options::<BTreeMap<String, Val>>(doc, opts(p, 0)),
                serde_saphyr::from_str_with_options::<BTreeMap<String, Val>>(renamed, opts(p, 0)),
            )
        });
        let (a, b, c, d) = match r {
            Err(pn) => {
                report(run, &format!("C03:panic:{}", vcore::obs::panic_site(&pn)), case(), pn);
                continue;
            }
            Ok(t) => t,
        };
        let mut ok = true;
        match (&a, &b) {
            (Ok(x), Ok(y)) => {
                if *x != rename_keys(y, "zz9", "<<") {
                    ok = false;
                    report(run, 
                        "C03:quoted-or-tagged-merge-key-not-ordinary:Val",
                        case(),
                        format!("`<<` spelling: {x} | renamed to zz9: {y}"),
                    );
                }
            }
            (Err(_), Err(_)) => {}
            _ => {
                ok = false;
                report(run, 
                    "C03:quoted-or-tagged-merge-key-not-ordinary:Val:ok-vs-err",
                    case(),
                    format!("`<<` spelling: {:?} | renamed: {:?}", a.as_ref().map(|v| v.to_string()).map_err(|e| vcore::errs::kind(e)), b.as_ref().map(|v| v.to_string()).map_err(|e| vcore::errs::kind(e))),
                );
            }
        }
        match (&c, &d) {
            (Ok(x), Ok(y)) => {
                let mut y2: BTreeMap<String, Val> = BTreeMap::new();
                for (k, v) in y {
                    let k2 = if k == "zz9" { "<<".to_string() } else { k.clone() };
                    y2.insert(k2, rename_keys(v, "zz9", "<<"));
                }
                if *x != y2 {
                    ok = false;
                    report(run, 
                        "C03:quoted-or-tagged-merge-key-not-ordinary:MapStrVal",
                        case(),
                        format!("`<<` spelling: {x:?} | renamed to zz9: {y:?}"),
                    );
                }
            }
            (Err(_), Err(_)) => {}
            _ => {
                ok = false;
                report(run, "C03:quoted-or-tagged-merge-key-not-ordinary:MapStrVal:ok-vs-err", case(), "one side failed".to_string());
            }
        }
        if ok {
            acc::count("ordinary_key_held", 1);
            if a.is_ok() {
                acc::count("ordinary_key_both_ok", 1);
            }
            run.nontrivial(fnv_parts(&[doc.as_bytes(), b"ordinary", &[p as u8]]));
        }
    }
}

// ------------------------------------------------------------------ generator: specification trees

#[derive(Clone, Debug)]
enum Src {
    Map(Vec<Ent>),
    Alias(usize),
    Seq(Vec<Src>),
    /// a scalar written as is (null spellings, and the must-fail scalars)
    Scalar(&'static str, Style),
    /// any node, as is
    Raw(Node),
}

#[derive(Clone, Debug)]
enum Ent {
    /// key code: `k1` plain, `"k1` double-quoted, `'k1` single-quoted, `!k1` tagged !!str,
    /// `[k1` sequence key [k1], `{k1` mapping key {k1: x}
    Own(&'static str),
    /// own entry whose value is a mapping (with its own merges)
    OwnMap(&'static str, Src),
    Merge(Src),
    /// ordinary-looking key with an arbitrary key node and a Src value
    Keyed(Node, Src),
    /// own entry with a fixed plain value (enum tags)
    Fixed(&'static str, &'static str),
}

fn key_node(code: &str) -> Node {
    if let Some(r) = code.strip_prefix('"') {
        Node::dq(r)
    } else if let Some(r) = code.strip_prefix('\'') {
        Node::sq(r)
    } else if let Some(r) = code.strip_prefix('!') {
        Node::plain(r).with_tag("!!str")
    } else if let Some(r) = code.strip_prefix('[') {
        Node::fseq(vec![Node::plain(r)])
    } else if let Some(r) = code.strip_prefix('{') {
        Node::fmap(vec![(Node::plain(r), Node::plain("x"))])
    } else {
        Node::plain(code)
    }
}

fn km(keys: &[&'static str]) -> Src {
    Src::Map(keys.iter().map(|k| Ent::Own(k)).collect())
}

/// Anchored definitions that a case may refer to (by index).
fn prelude() -> Vec<(&'static str, Src)> {
    vec![
        ("m1", km(&["k1", "k2"])),
        ("m2", km(&["k2", "k3"])),
        ("m3", km(&["k3", "k1"])),
        ("m4", Src::Map(vec![Ent::Merge(Src::Alias(0)), Ent::Own("k3")])),
        ("s1", Src::Seq(vec![Src::Alias(0), Src::Alias(1)])),
        ("s2", Src::Seq(vec![Src::Seq(vec![Src::Alias(1)]), km(&["k1"])])),
        // must-fail material
        ("x1", Src::Scalar("sc", Style::Plain)),
        ("x2", Src::Seq(vec![Src::Scalar("sc", Style::Plain)])),
        ("x3", Src::Seq(vec![Src::Alias(0), Src::Scalar("sc", Style::Plain)])),
    ]
}

/// Merge-value shapes of the exhaustive part.
fn alphabet() -> Vec<Src> {
    use Ent::*;
    use Src::*;
    let null = |t| Scalar(t, Style::Plain);
    vec![
        km(&["k1"]),
        km(&["k1", "k2"]),
        km(&["k2", "k3"]),
        km(&["k3", "k1"]),
        km(&["k4"]),
        Alias(0),
        Alias(1),
        Alias(2),
        null("~"),
        null("null"),
        Map(vec![]),
        Seq(vec![]),
        Seq(vec![km(&["k1", "k2"]), km(&["k2", "k3"])]),
        Seq(vec![km(&["k2", "k3"]), km(&["k1", "k2"])]),
        Seq(vec![Alias(0), Alias(1)]),
        Seq(vec![Alias(1), km(&["k3", "k1"])]),
        Seq(vec![km(&["k1"])]),
        Seq(vec![km(&["k1"]), km(&["k1"])]),
        Seq(vec![Seq(vec![km(&["k1"]), km(&["k1", "k2"])]), km(&["k2", "k3"])]),
        Seq(vec![km(&["k2", "k3"]), Seq(vec![km(&["k1", "k2"]), Alias(2)])]),
        Alias(4),
        Alias(5),
        Map(vec![Own("k1"), Merge(km(&["k1", "k2"]))]),
        Map(vec![Merge(km(&["k2", "k3"])), Own("k2")]),
        Map(vec![Merge(km(&["k1", "k2"])), Merge(km(&["k2", "k3"]))]),
        Map(vec![Merge(Seq(vec![km(&["k1"]), km(&["k1", "k2"])])), Own("k3")]),
        Alias(3),
        Map(vec![Merge(Alias(3)), Own("k4")]),
        Map(vec![Merge(null("~"))]),
    ]
}

/// Reduced alphabet (third merge entry in the quick tier, own-duplicate part).
fn alphabet_small() -> Vec<Src> {
    use Ent::*;
    use Src::*;
    vec![
        km(&["k1", "k2"]),
        km(&["k2", "k3"]),
        Alias(2),
        Scalar("~", Style::Plain),
        Seq(vec![km(&["k1", "k2"]), Alias(1)]),
        Seq(vec![Seq(vec![km(&["k1"]), km(&["k1", "k2"])]), km(&["k2", "k3"])]),
        Alias(4),
        Map(vec![Merge(km(&["k2", "k3"])), Own("k2")]),
        Map(vec![Merge(km(&["k1", "k2"])), Merge(Alias(1))]),
        Alias(3),
    ]
}

struct Builder {
    counter: usize,
    used: BTreeSet<usize>,
}

impl Builder {
    fn tok(&mut self) -> Node {
        let n = Node::plain(&format!("v{}", self.counter));
        self.counter += 1;
        n
    }
    fn src(&mut self, s: &Src, pre: &[(&'static str, Src)]) -> Node {
        match s {
            Src::Map(ents) => Node::map(self.entries(ents, pre)),
            Src::Alias(i) => {
                self.mark_used(*i, pre);
                Node::alias(pre[*i].0)
            }
            Src::Seq(items) => Node::seq(items.iter().map(|i| self.src(i, pre)).collect()),
            Src::Scalar(t, st) => Node::styled(t, *st),
            Src::Raw(n) => n.clone(),
        }
    }
    fn mark_used(&mut self, i: usize, pre: &[(&'static str, Src)]) {
        if self.used.insert(i) {
            fn deps(s: &Src, out: &mut Vec<usize>) {
                match s {
                    Src::Alias(i) => out.push(*i),
                    Src::Seq(v) => v.iter().for_each(|x| deps(x, out)),
                    Src::Map(e) => e.iter().for_each(|x| match x {
                        Ent::Merge(s) | Ent::OwnMap(_, s) | Ent::Keyed(_, s) => deps(s, out),
                        Ent::Own(_) | Ent::Fixed(..) => {}
                    }),
                    Src::Scalar(..) | Src::Raw(_) => {}
                }
            }
            let mut d = Vec::new();
            deps(&pre[i].1, &mut d);
            for j in d {
                self.mark_used(j, pre);
            }
        }
    }
    fn entries(&mut self, ents: &[Ent], pre: &[(&'static str, Src)]) -> Vec<(Node, Node)> {
        let mut out = Vec::new();
        for e in ents {
            match e {
                Ent::Own(k) => {
                    let v = self.tok();
                    out.push((key_node(k), v));
                }
                Ent::OwnMap(k, s) => {
                    let v = self.src(s, pre);
                    out.push((key_node(k), v));
                }
                Ent::Merge(s) => {
                    let v = self.src(s, pre);
                    out.push((Node::plain("<<"), v));
                }
                Ent::Keyed(k, s) => {
                    let v = self.src(s, pre);
                    out.push((k.clone(), v));
                }
                Ent::Fixed(k, v) => out.push((Node::plain(k), Node::plain(v))),
            }
        }
        out
    }
}

/// Build the document: root mapping = [`b: [anchored definitions used]`] + entries.
fn build_doc(ents: &[Ent]) -> Node {
    let pre = prelude();
    let mut b = Builder { counter: 100, used: BTreeSet::new() };
    let body = b.entries(ents, &pre);
    // definitions get their values from a separate counter range so they are stable
    let used: Vec<usize> = b.used.iter().cloned().collect();
    let mut defs = Vec::new();
    let mut pb = Builder { counter: 0, used: BTreeSet::new() };
    for i in used {
        pb.counter = 10 * (i + 1);
        let n = pb.src(&pre[i].1, &pre).with_anchor(pre[i].0);
        defs.push(n);
    }
    let mut entries = Vec::new();
    if !defs.is_empty() {
        entries.push((Node::plain("b"), Node::seq(defs)));
    }
    entries.extend(body);
    Node::map(entries)
}

fn check_node(run: &Run, n: &Node, sel: &Sel, class: &str, layouts: &[bool], sample: bool) {
    let ro = RenderOpts::new();
    for &flow in layouts {
        let mut t = n.clone();
        if flow {
            t.set_flow(true);
        }
        let Some((doc, _)) = render_checked(&t, &ro) else {
            run.inconclusive(&format!("generator-invalid: {class} document not parsed as intended ({})", if flow { "flow" } else { "block" }));
            continue;
        };
        acc::count(if flow { "docs_flow" } else { "docs_block" }, 1);
        if sample {
            run.sample(|| json!({"class": class, "doc": doc}));
        }
        check_doc(run, &doc, flow, sel, class);
    }
    acc::flush(run);
}

/// All root entry sequences with `o` own keys (k1..ko, in order) and `m` merge entries
/// (every interleaving), merge values from `alpha[j]` for the j-th merge entry.
fn sequences(own: &[&'static str], m: usize, alphas: &[&[Src]]) -> Vec<Vec<Ent>> {
    let n = own.len() + m;
    let mut out = Vec::new();
    for mask in 0u32..(1 << n) {
        if mask.count_ones() as usize != m {
            continue;
        }
        // enumerate alphabet choices
        let mut idx = vec![0usize; m];
        loop {
            let mut ents = Vec::with_capacity(n);
            let (mut oi, mut mi) = (0, 0);
            for pos in 0..n {
                if mask & (1 << pos) != 0 {
                    ents.push(Ent::Merge(alphas[mi][idx[mi]].clone()));
                    mi += 1;
                } else {
                    ents.push(Ent::Own(own[oi]));
                    oi += 1;
                }
            }
            out.push(ents);
            // increment
            let mut k = 0;
            loop {
                if k == m {
                    break;
                }
                idx[k] += 1;
                if idx[k] < alphas[k].len() {
                    break;
                }
                idx[k] = 0;
                k += 1;
            }
            if k == m {
                break;
            }
        }
    }
    out
}

// ------------------------------------------------------------------ random generator

struct Gen<'r> {
    rng: &'r mut Rng,
    c: usize,
    n_anchor: usize,
    maps: Vec<String>,
    seqs: Vec<String>,
    scalars: Vec<String>,
    badseqs: Vec<String>,
    bad_budget: usize,
}

const KEYS: [&str; 8] = ["k1", "k2", "k3", "k4", "k5", "a", "k6", "k7"];

impl Gen<'_> {
    fn tok(&mut self) -> Node {
        let n = Node::plain(&format!("v{}", self.c));
        self.c += 1;
        n
    }
    fn key(&mut self, name: &str) -> Node {
        match self.rng.below(24) {
            0 | 1 => Node::dq(name),
            2 => Node::sq(name),
            3 => Node::plain(name).with_tag("!!str"),
            4 => Node::fseq(vec![Node::plain(name)]),
            5 => Node::fmap(vec![(Node::plain(name), Node::plain("x"))]),
            _ => Node::plain(name),
        }
    }
    fn fresh(&mut self, prefix: &str) -> String {
        self.n_anchor += 1;
        format!("{prefix}{}", self.n_anchor)
    }
    /// A mapping with own entries and merge entries. Returns (node, has own duplicates).
    fn gen_map(&mut self, depth: usize, is_source: bool) -> (Node, bool) {
        let hi = if self.rng.chance(1, 6) { 7 } else { 5 };
        let n = self.rng.range(if is_source { 1 } else { 0 }, hi);
        let mut pool: Vec<&str> = KEYS.to_vec();
        self.rng.shuffle(&mut pool);
        let mut used: Vec<&str> = Vec::new();
        let mut entries = Vec::new();
        let mut dups = false;
        for _ in 0..n {
            let merge_p = if depth == 0 { 0 } else { 2 };
            if self.rng.below(5) < merge_p {
                let v = self.gen_src(depth - 1, 0);
                entries.push((Node::plain("<<"), v));
                continue;
            }
            let name = if !is_source && !used.is_empty() && self.rng.chance(1, 8) {
                dups = true;
                *self.rng.pick(&used)
            } else {
                match pool.pop() {
                    Some(k) => k,
                    None => continue,
                }
            };
            used.push(name);
            let k = self.key(name);
            let v = match self.rng.below(20) {
                0..=4 if depth > 0 => {
                    let (mut m, d) = self.gen_map(depth - 1, false);
                    if self.rng.chance(1, 2) {
                        let a = self.fresh("m");
                        m = m.with_anchor(&a);
                        if !d {
                            self.maps.push(a);
                        }
                    }
                    m
                }
                5 | 6 => {
                    let k = self.rng.range(0, 3);
                    let mut s = Node::seq((0..k).map(|_| self.tok()).collect());
                    if self.rng.chance(1, 3) {
                        let a = self.fresh("q");
                        s = s.with_anchor(&a);
                        if k > 0 {
                            self.badseqs.push(a);
                        }
                    }
                    s
                }
                7 => {
                    // an ordinary alias value
                    let all: Vec<&String> = self.maps.iter().chain(self.seqs.iter()).chain(self.scalars.iter()).collect();
                    if all.is_empty() { self.tok() } else { { let a: String = (*self.rng.pick(&all[..])).clone(); Node::alias(&a) } }
                }
                8 => {
                    let a = self.fresh("x");
                    let t = self.tok().with_anchor(&a);
                    self.scalars.push(a);
                    t
                }
                _ => self.tok(),
            };
            entries.push((k, v));
        }
        (Node::map(entries), dups)
    }
    /// A merge value.
    fn gen_src(&mut self, depth: usize, seq_depth: usize) -> Node {
        if self.bad_budget > 0 && self.rng.chance(1, 6) {
            self.bad_budget -= 1;
            return match self.rng.below(4) {
                0 if !self.scalars.is_empty() => { let a: String = self.rng.pick(&self.scalars[..]).clone(); Node::alias(&a) },
                1 if !self.badseqs.is_empty() => { let a: String = self.rng.pick(&self.badseqs[..]).clone(); Node::alias(&a) },
                2 => Node::dq("~"),
                _ => self.tok(),
            };
        }
        match self.rng.below(20) {
            0..=6 => {
                let (mut m, _) = self.gen_map(depth, true);
                if self.rng.chance(1, 3) {
                    let a = self.fresh("m");
                    m = m.with_anchor(&a);
                    self.maps.push(a);
                }
                m
            }
            7..=12 if !self.maps.is_empty() => { let a: String = self.rng.pick(&self.maps[..]).clone(); Node::alias(&a) },
            13..=16 if seq_depth < 2 => {
                let k = self.rng.range(0, 3);
                let mut s = Node::seq((0..k).map(|_| self.gen_src(depth, seq_depth + 1)).collect());
                if self.rng.chance(1, 3) && self.bad_budget == 0 {
                    let a = self.fresh("s");
                    s = s.with_anchor(&a);
                    self.seqs.push(a);
                }
                s
            }
            17 if !self.seqs.is_empty() => { let a: String = self.rng.pick(&self.seqs[..]).clone(); Node::alias(&a) },
            18 if seq_depth == 0 => Node::plain(*self.rng.pick(&["~", "null", "Null", "NULL"])),
            _ => {
                let (m, _) = self.gen_map(depth, true);
                m
            }
        }
    }
}

fn random_doc(rng: &mut Rng) -> (Node, bool) {
    let bad = rng.chance(1, 16);
    let depth = if rng.chance(1, 8) { 4 } else { rng.range(1, 3) };
    let mut g = Gen {
        rng,
        c: 0,
        n_anchor: 0,
        maps: Vec::new(),
        seqs: Vec::new(),
        scalars: Vec::new(),
        badseqs: Vec::new(),
        bad_budget: if bad { 1 } else { 0 },
    };
    // optional prelude under `b`
    let mut entries = Vec::new();
    if g.rng.chance(1, 2) {
        let k = g.rng.range(1, 3);
        let mut defs = Vec::new();
        for _ in 0..k {
            let (m, d) = g.gen_map(1, true);
            let a = g.fresh("m");
            defs.push(m.with_anchor(&a));
            if !d {
                g.maps.push(a);
            }
        }
        entries.push((Node::plain("b"), Node::seq(defs)));
    }
    let (root, _) = g.gen_map(depth, false);
    if let Node::Map { entries: e, .. } = root {
        entries.extend(e);
    }
    let mut root = Node::map(entries);
    // layout: whole document flow, or some sub-trees flow
    let whole_flow = g.rng.chance(1, 3);
    if !whole_flow {
        let paths = vcore::treegen::node_paths(&root);
        for _ in 0..g.rng.below(3) {
            let p = g.rng.pick(&paths).clone();
            if !p.is_empty() {
                vcore::treegen::node_at_mut(&mut root, &p).set_flow(true);
            }
        }
    }
    (root, whole_flow)
}

// ------------------------------------------------------------------ main

fn main() {
    let run = Run::from_args("C03");
    let table = target_table();
    let all_policies = [0usize, 1, 2];
    if let Some(rep) = run.is_replay() {
        let case = &rep["case"];
        let doc = case["doc"].as_str().unwrap_or("").to_string();
        let pol: Vec<usize> = match case["policy"].as_str() {
            Some(p) => POLICY_NAMES.iter().position(|n| *n == p).into_iter().collect(),
            None => all_policies.to_vec(),
        };
        if case["kind"].as_str() == Some("ordinary") {
            check_ordinary(&run, &doc, case["renamed"].as_str().unwrap_or(""), &pol);
        } else {
            let tsel: Vec<(&'static str, TargetFn, bool)> = match case["target"].as_str() {
                Some(t) => table.iter().filter(|x| x.0 == t).cloned().collect(),
                None => table.clone(),
            };
            let sel = Sel { optvec: case["optvec"].as_u64().unwrap_or(0) as usize, policies: &pol, targets: &tsel };
            check_doc(&run, &doc, case["flow"].as_bool().unwrap_or(false), &sel, "replay");
        }
        acc::flush(&run);
        run.finish(Finish::new("replay"));
    }

    let tier = run.tier;
    let sel_all = Sel { optvec: 0, policies: &all_policies, targets: &table };
    let both = [false, true];

    // ---- 1. exhaustive: <= 3 own keys x <= 3 (thorough: 4) merge entries x value shapes x interleavings
    let alpha = alphabet();
    let small = alphabet_small();
    let owns: [&[&'static str]; 4] = [&[], &["k1"], &["k1", "k2"], &["k1", "k2", "k3"]];
    let mut cases: Vec<Vec<Ent>> = Vec::new();
    for own in owns.iter() {
        cases.extend(sequences(own, 1, &[&alpha[..]]));
        cases.extend(sequences(own, 2, &[&alpha[..], &alpha[..]]));
    }
    // own keys in another order than the sources list them
    cases.extend(sequences(&["k3", "k1"], 1, &[&alpha[..]]));
    cases.extend(sequences(&["k2", "k1"], 2, &[&alpha[..], &alpha[..]]));
    let n_le2 = cases.len();
    if tier == Tier::Quick {
        for own in owns[..3].iter() {
            cases.extend(sequences(own, 3, &[&alpha[..], &alpha[..], &small[..]]));
        }
        cases.extend(sequences(owns[3], 3, &[&small[..], &small[..], &small[..]]));
    } else {
        for own in owns.iter() {
            cases.extend(sequences(own, 3, &[&alpha[..], &alpha[..], &alpha[..]]));
        }
        for own in owns.iter() {
            cases.extend(sequences(own, 4, &[&small[..], &small[..], &small[..], &small[..]]));
        }
    }
    let debug_limit: Option<usize> = std::env::var("C03_LIMIT").ok().and_then(|l| l.parse().ok());
    if let Some(l) = debug_limit {
        run.note("C03_LIMIT set: debugging run, exhaustive part sampled, random part shortened");
        let step = (cases.len() / l).max(1);
        let mut i = 0;
        cases.retain(|_| {
            i += 1;
            i % step == 0
        });
    }
    let n_le2 = n_le2.min(cases.len());
    acc::count("exhaustive_entry_sequences", cases.len() as u64);
    acc::count("exhaustive_entry_sequences_le2_merges", n_le2 as u64);
    // sequences with <= 2 merge entries run under every option vector, the longer ones under vector (index mod 4)
    par_range(cases.len(), |i| {
        let n = build_doc(&cases[i]);
        if i < n_le2 && debug_limit.is_none() {
            for ov in 0..4 {
                let sel = Sel { optvec: ov, policies: &all_policies, targets: &table };
                check_node(&run, &n, &sel, "exhaustive", &both, ov == 0 && i % 4001 == 0);
            }
        } else {
            let sel = Sel { optvec: i % 4, policies: &all_policies, targets: &table };
            check_node(&run, &n, &sel, "exhaustive", &both, i % 40_009 == 0);
        }
    });

    // ---- 2. own duplicates next to merges (Error: both fail; First/LastWins: compared as usual)
    {
        let dup_owns: [&[&'static str]; 7] = [
            &["k1", "k1"],
            &["k1", "k2", "k1"],
            &["k1", "k1", "k2"],
            &["k1", "k2", "k2"],
            &["k1", "k1", "k1"],
            &["k1", "\"k1"],
            &["'k2", "k1", "k2"],
        ];
        let mut dc: Vec<Vec<Ent>> = Vec::new();
        for own in dup_owns.iter() {
            dc.extend(sequences(own, 1, &[&alpha[..]]));
            dc.extend(sequences(own, 2, &[&small[..], &small[..]]));
        }
        acc::count("own_duplicate_entry_sequences", dc.len() as u64);
        par_range(dc.len(), |i| {
            let n = build_doc(&dc[i]);
            check_node(&run, &n, &sel_all, "own-duplicates", &both, i % 1501 == 0);
        });
    }

    // ---- 3. key spellings: style does not matter, tag does; complex keys collide structurally
    {
        let spell: [&'static str; 6] = ["k1", "\"k1", "'k1", "!k1", "[k1", "{k1"];
        let mut kc: Vec<Vec<Ent>> = Vec::new();
        for own in spell {
            for src in spell {
                for other in ["k2", "[k2"] {
                    let s = Src::Map(vec![Ent::Own(src), Ent::Own(other)]);
                    kc.push(vec![Ent::Own(own), Ent::Merge(s.clone())]);
                    kc.push(vec![Ent::Merge(s.clone()), Ent::Own(own)]);
                    kc.push(vec![Ent::Merge(Src::Seq(vec![s.clone(), km(&["k1", "k3"])])), Ent::Own(own)]);
                    // two sources with differently spelled keys, no own key
                    kc.push(vec![Ent::Merge(Src::Map(vec![Ent::Own(own)])), Ent::Merge(s.clone())]);
                }
            }
        }
        acc::count("key_spelling_cases", kc.len() as u64);
        par_range(kc.len(), |i| {
            let n = build_doc(&kc[i]);
            check_node(&run, &n, &sel_all, "key-spelling", &both, i % 97 == 0);
        });
    }

    // ---- 4. merges below the root: in values, in sequence items, inside merged values
    {
        let mut nc: Vec<Vec<Ent>> = Vec::new();
        for s in &alpha {
            let inner = Src::Map(vec![Ent::Own("k1"), Ent::Merge(s.clone()), Ent::Own("k4")]);
            nc.push(vec![Ent::OwnMap("k5", inner.clone()), Ent::Own("k1")]);
            // a merged value that itself contains merges
            nc.push(vec![Ent::Merge(Src::Map(vec![Ent::OwnMap("k5", inner.clone()), Ent::Own("k2")])), Ent::Own("k1")]);
            // an overridden merged value containing merges (never delivered)
            nc.push(vec![Ent::Own("k5"), Ent::Merge(Src::Map(vec![Ent::OwnMap("k5", inner.clone()), Ent::Own("k2")]))]);
            nc.push(vec![Ent::OwnMap("a", Src::Seq(vec![inner.clone(), inner.clone()]))]);
        }
        acc::count("nested_cases", nc.len() as u64);
        par_range(nc.len(), |i| {
            let n = build_doc(&nc[i]);
            check_node(&run, &n, &sel_all, "nested", &both, i % 37 == 0);
        });
    }

    // ---- 5. must-fail merge values, and the null-in-sequence class that gets no verdict
    {
        use Src::*;
        let sc = |t, st| Scalar(t, st);
        let bad: Vec<Src> = vec![
            sc("x", Style::Plain),
            sc("5", Style::Plain),
            sc("true", Style::Plain),
            sc("x", Style::Double),
            sc("", Style::Double),
            sc("", Style::Single),
            sc("~", Style::Single),
            sc("null", Style::Double),
            Seq(vec![sc("x", Style::Plain)]),
            Seq(vec![km(&["k1"]), sc("x", Style::Plain)]),
            Seq(vec![sc("7", Style::Plain), km(&["k1"])]),
            Seq(vec![Seq(vec![sc("x", Style::Plain)])]),
            Seq(vec![km(&["k1"]), Seq(vec![km(&["k2"]), sc("x", Style::Double)])]),
            Alias(6),
            Alias(7),
            Alias(8),
            Seq(vec![Alias(0), Alias(6)]),
            Src::Raw(Node::plain("x").with_tag("!!str")),
            Src::Raw(Node::plain("5").with_tag("!!int")),
            Src::Raw(Node::plain("1.5")),
            Src::Raw(Node::styled("x\n", Style::Literal)),
            Src::Raw(Node::styled("x y\n", Style::Folded)),
            Seq(vec![km(&["k1"]), Src::Raw(Node::styled("x\n", Style::Literal))]),
            Seq(vec![Src::Raw(Node::dq("x").with_tag("!!str")), km(&["k1"])]),
            // unspecified: null inside a sequence
            Seq(vec![sc("~", Style::Plain)]),
            Seq(vec![km(&["k1"]), sc("null", Style::Plain)]),
        ];
        let mut mc: Vec<Vec<Ent>> = Vec::new();
        for b in &bad {
            let m = || Ent::Merge(b.clone());
            mc.push(vec![m()]);
            mc.push(vec![Ent::Own("k1"), m()]);
            mc.push(vec![m(), Ent::Own("k1")]);
            mc.push(vec![Ent::Merge(km(&["k1", "k2"])), m(), Ent::Own("k3")]);
            mc.push(vec![m(), Ent::Merge(Alias(0))]);
            mc.push(vec![Ent::Own("k1"), Ent::Merge(Map(vec![m(), Ent::Own("k2")]))]);
            mc.push(vec![Ent::Merge(Seq(vec![km(&["k1"]), Map(vec![Ent::Own("k2"), m()])]))]);
            mc.push(vec![Ent::OwnMap("k1", Map(vec![Ent::Own("k2"), m()])), Ent::Own("k3")]);
            mc.push(vec![Ent::OwnMap("a", Seq(vec![km(&["k1"]), Map(vec![m()])]))]);
        }
        acc::count("must_fail_family_cases", mc.len() as u64);
        par_range(mc.len(), |i| {
            let n = build_doc(&mc[i]);
            check_node(&run, &n, &sel_all, "must-fail", &both, i % 23 == 0);
        });
    }

    // ---- 6. empty merge value (null written as nothing): fixed texts, the raw parser decides what they mean
    for doc in [
        "<<:\nk1: v1\n",
        "k1: v1\n<<:\n",
        "k1: v1\n<<:\nk2: v2\n<<: {k1: v3, k3: v4}\n",
        "{<<: , k1: v1}\n",
        "{k1: v1, <<: }\n",
        "k5:\n  <<:\n  k1: v1\nk2: v2\n",
        "<<: {<<: , k1: v1}\nk2: v2\n",
        "b:\n- &m1\n  k1: v1\n  <<:\n<<: *m1\nk2: v2\n",
    ] {
        acc::count("empty_merge_value_texts", 1);
        check_doc(&run, doc, doc.starts_with('{'), &sel_all, "empty-merge-value");
    }

    // ---- 7. quoted / tagged `<<` is an ordinary key
    {
        let spellings: Vec<(&str, Box<dyn Fn(&str) -> Node>)> = vec![
            ("dq", Box::new(|t: &str| Node::dq(t))),
            ("sq", Box::new(|t: &str| Node::sq(t))),
            ("!!str", Box::new(|t: &str| Node::plain(t).with_tag("!!str"))),
            ("!", Box::new(|t: &str| Node::plain(t).with_tag("!"))),
            ("dq!!str", Box::new(|t: &str| Node::dq(t).with_tag("!!str"))),
        ];
        let values: Vec<Src> = vec![
            km(&["k1", "k2"]),
            Src::Alias(0),
            Src::Seq(vec![km(&["k1"]), Src::Alias(1)]),
            Src::Scalar("x", Style::Plain),
            Src::Scalar("~", Style::Plain),
            Src::Seq(vec![Src::Scalar("x", Style::Plain)]),
        ];
        let mut n_ord = 0u64;
        for (_name, mk) in &spellings {
            for v in &values {
                for ctx in 0..5 {
                    let build = |keytext: &str| -> Node {
                        let k = Ent::Keyed(mk(keytext), v.clone());
                        let ents = match ctx {
                            0 => vec![k],
                            1 => vec![Ent::Own("k1"), k, Ent::Own("k3")],
                            2 => vec![k, Ent::Merge(km(&["k2", "k3"])), Ent::Own("k1")],
                            3 => vec![Ent::Merge(Src::Map(vec![k, Ent::Own("k2")])), Ent::Own("k1")],
                            _ => vec![Ent::OwnMap("k5", Src::Map(vec![Ent::Own("k1"), k])), Ent::Merge(Src::Alias(1))],
                        };
                        build_doc(&ents)
                    };
                    let (a, b) = (build("<<"), build("zz9"));
                    for flow in both {
                        let (mut a, mut b) = (a.clone(), b.clone());
                        if flow {
                            a.set_flow(true);
                            b.set_flow(true);
                        }
                        let ro = RenderOpts::new();
                        let (Some((da, _)), Some((db, _))) = (render_checked(&a, &ro), render_checked(&b, &ro)) else {
                            run.inconclusive("generator-invalid: ordinary-key document not parsed as intended");
                            continue;
                        };
                        n_ord += 1;
                        if n_ord % 41 == 0 {
                            run.sample(|| json!({"class": "ordinary-key", "doc": da, "renamed": db}));
                        }
                        check_ordinary(&run, &da, &db, &all_policies);
                        // and the general relation (the quoted key is an own entry of the written-out mapping)
                        check_doc(&run, &da, flow, &sel_all, "ordinary-key");
                    }
                }
            }
        }
        acc::count("ordinary_key_docs", n_ord);
    }

    // ---- 8. typed positions: the same small mappings inside struct fields, sequence items, map values,
    //         enum payloads (external / internal tag, also with the tag arriving through a merge / untagged),
    //         a flattened struct and a tuple
    {
        let ttable = typed_table();
        let mut specs: Vec<Vec<Ent>> = Vec::new();
        let a2: &[Src] = tier.pick(&small[..], &alpha[..]);
        for own in owns[..3].iter() {
            specs.extend(sequences(own, 1, &[&alpha[..]]));
            specs.extend(sequences(own, 2, &[a2, a2]));
        }
        if let Some(l) = debug_limit {
            let step = (specs.len() / l.min(specs.len()).max(1)).max(1);
            let mut i = 0;
            specs.retain(|_| {
                i += 1;
                i % step == 0
            });
        }
        acc::count("typed_position_mapping_specs", specs.len() as u64);
        par_range(specs.len() * N_TYPED_POS, |j| {
            let (i, pos) = (j / N_TYPED_POS, j % N_TYPED_POS);
            let n = build_doc(&typed_position(pos, &specs[i]));
            let sel = Sel { optvec: j % 4, policies: &all_policies, targets: &ttable };
            check_node(&run, &n, &sel, "typed-position", &both, j % 7919 == 0);
        });
    }

    // ---- 9. merge chains: sources that contain merges, to depth D (anchored c1 <- c2 <- ... or inline nesting)
    {
        let keysets: [&[&str]; 4] = [&["k1"], &["k2"], &["k1", "k2"], &["k3"]];
        // level = (keyset, merge entry written before the own keys?)
        let chain_doc = |levels: &[(usize, bool)], inline: bool, tail: usize| -> Node {
            let mut c = 0usize;
            let mut tok = || {
                c += 1;
                Node::plain(&format!("v{c}"))
            };
            let d = levels.len();
            let level_entries = |i: usize, prev: Option<Node>, tok: &mut dyn FnMut() -> Node| -> Vec<(Node, Node)> {
                let (ks, first) = levels[i];
                let mut own: Vec<(Node, Node)> = keysets[ks].iter().map(|k| (Node::plain(k), tok())).collect();
                if let Some(p) = prev {
                    if first {
                        own.insert(0, (Node::plain("<<"), p));
                    } else {
                        own.push((Node::plain("<<"), p));
                    }
                }
                own
            };
            let mut entries: Vec<(Node, Node)> = Vec::new();
            let top: Node;
            if inline {
                let mut cur: Option<Node> = None;
                for i in 0..d {
                    let e = level_entries(i, cur.take(), &mut tok);
                    cur = Some(Node::map(e));
                }
                top = cur.unwrap();
            } else {
                let mut defs = Vec::new();
                for i in 0..d {
                    let prev = if i == 0 { None } else { Some(Node::alias(&format!("c{i}"))) };
                    let e = level_entries(i, prev, &mut tok);
                    defs.push(Node::map(e).with_anchor(&format!("c{}", i + 1)));
                }
                entries.push((Node::plain("b"), Node::seq(defs)));
                top = Node::alias(&format!("c{d}"));
            }
            match tail {
                0 => entries.push((Node::plain("<<"), top)),
                1 => {
                    entries.push((Node::plain("k1"), tok()));
                    entries.push((Node::plain("<<"), top));
                    entries.push((Node::plain("k4"), tok()));
                }
                2 => {
                    let other = if inline { Node::map(vec![(Node::plain("k1"), tok()), (Node::plain("k4"), tok())]) } else { Node::alias("c1") };
                    entries.push((Node::plain("<<"), Node::seq(vec![top, other])));
                }
                _ => {
                    let other = if inline { Node::map(vec![(Node::plain("k2"), tok()), (Node::plain("k4"), tok())]) } else { Node::alias("c1") };
                    entries.push((Node::plain("<<"), other));
                    entries.push((Node::plain("<<"), top));
                }
            }
            Node::map(entries)
        };
        let max_d = tier.pick(3, 4);
        let mut chains: Vec<Vec<(usize, bool)>> = Vec::new();
        for d in 1..=max_d {
            let mut idx = vec![0usize; d];
            loop {
                chains.push(idx.iter().map(|x| (x / 2, x % 2 == 0)).collect());
                let mut k = 0;
                while k < d {
                    idx[k] += 1;
                    if idx[k] < 8 {
                        break;
                    }
                    idx[k] = 0;
                    k += 1;
                }
                if k == d {
                    break;
                }
            }
        }
        if debug_limit.is_some() {
            chains.truncate(300);
        }
        acc::count("chain_level_vectors", chains.len() as u64);
        par_range(chains.len() * 8, |j| {
            let (i, inline, tail) = (j / 8, j % 2 == 1, (j / 2) % 4);
            let n = chain_doc(&chains[i], inline, tail);
            let sel = Sel { optvec: j % 4, policies: &all_policies, targets: &table };
            check_node(&run, &n, &sel, "chain", &both, j % 9001 == 0);
        });
        // deeper chains, sampled
        let n_deep = if debug_limit.is_some() { 200 } else { tier.pick(3000, 40_000) };
        par_range(n_deep, |i| {
            let mut rng = Rng::stream(run.seed ^ 0xC4A1, i as u64);
            let d = rng.range(5, 12);
            let levels: Vec<(usize, bool)> = (0..d).map(|_| (rng.below(4), rng.bool())).collect();
            let n = chain_doc(&levels, rng.chance(1, 3), rng.below(4));
            let pol = [rng.below(3)];
            let sel = Sel { optvec: rng.below(4), policies: &pol, targets: &table };
            acc::count("deep_chain_docs", 1);
            check_node(&run, &n, &sel, "deep-chain", &[rng.chance(1, 3)], i % 997 == 0);
        });
    }

    // ---- 10. what the merged entries carry: container / deep / large / aliased values, anchors defined inside a
    //          merge source and used after it, contributed as well as overridden
    {
        const NV: usize = 11;
        let shape = |v: usize, tag: &str, c: &mut usize| -> (Node, Option<String>) {
            let mut tok = || {
                *c += 1;
                Node::plain(&format!("v{c}"))
            };
            match v {
                0 => (tok(), None),
                1 => (Node::seq(vec![tok(), tok()]), None),
                2 => (Node::seq(vec![Node::seq(vec![tok()]), Node::map(vec![(Node::plain("x"), tok())])]), None),
                3 => {
                    let a = format!("x{tag}");
                    (Node::seq(vec![tok()]).with_anchor(&a), Some(a))
                }
                4 => {
                    let a = format!("y{tag}");
                    (Node::map(vec![(Node::plain("x"), tok())]).with_anchor(&a), Some(a))
                }
                5 => (Node::alias("pre"), None),
                6 => (Node::seq((0..tier.pick(300, 2000)).map(|_| tok()).collect()), None),
                7 => {
                    let mut cur = tok();
                    for i in 0..30 {
                        cur = if i % 2 == 0 { Node::seq(vec![cur]) } else { Node::map(vec![(Node::plain("d"), cur)]) };
                    }
                    (cur, None)
                }
                8 => (Node::map(vec![]), None),
                9 => (Node::plain("~"), None),
                _ => (Node::dq(""), None),
            }
        };
        par_range(NV * NV * 9, |j| {
            let (v1, v2, coll, style) = (j % NV, (j / NV) % NV, (j / (NV * NV)) % 3, j / (NV * NV * 3));
            let mut c = 0usize;
            let (n1, a1) = shape(v1, "1", &mut c);
            let (n2, a2) = shape(v2, "2", &mut c);
            let src = Node::map(vec![(Node::plain("k1"), n1), (Node::plain("k2"), n2)]);
            let mut defs = vec![Node::seq(vec![Node::plain("p1"), Node::plain("p2")]).with_anchor("pre")];
            let merge_value = match style {
                0 => src,
                1 => {
                    defs.push(src.with_anchor("m"));
                    Node::alias("m")
                }
                _ => {
                    defs.push(src.with_anchor("m"));
                    Node::seq(vec![Node::map(vec![(Node::plain("k2"), Node::plain("w0")), (Node::plain("k3"), Node::plain("w1"))]), Node::alias("m")])
                }
            };
            let mut e = vec![(Node::plain("b"), Node::seq(defs))];
            if coll == 1 {
                e.push((Node::plain("k1"), Node::plain("own1")));
            }
            e.push((Node::plain("<<"), merge_value));
            if coll == 2 {
                e.push((Node::plain("k1"), Node::plain("own1")));
            }
            // anchors defined inside the source are used after it
            for (i, a) in [a1, a2].into_iter().flatten().enumerate() {
                e.push((Node::plain(if i == 0 { "k4" } else { "k5" }), Node::alias(&a)));
            }
            let n = Node::map(e);
            let sel = Sel { optvec: j % 4, policies: &all_policies, targets: &table };
            acc::count("merged_value_shape_docs", 1);
            check_node(&run, &n, &sel, "merged-value-shape", &both, j % 211 == 0);
        });
    }

    // ---- 11. scalar keys of every resolution (int / float / bool / null / empty / spaced / non-ASCII), plain and
    //          quoted, own versus merged: identity is text + tag, whatever the scalar resolves to
    {
        let texts = ["1", "1.0", "true", "~", "null", "", "a b", "é", "0x1", "k1"];
        let spell = |t: &str, q: usize| -> Option<Node> {
            match q {
                0 => {
                    if vcore::ydoc::plain_safe(t) || t == "~" {
                        Some(Node::plain(t))
                    } else {
                        None
                    }
                }
                1 => Some(Node::dq(t)),
                _ => Some(Node::sq(t)),
            }
        };
        let n_t = texts.len();
        par_range(n_t * 3 * n_t * 3 * 2, |j| {
            let (t1, q1, t2, q2, order) = (j % n_t, (j / n_t) % 3, (j / (n_t * 3)) % n_t, (j / (n_t * 3 * n_t)) % 3, j / (n_t * 3 * n_t * 3));
            let (Some(own), Some(merged)) = (spell(texts[t1], q1), spell(texts[t2], q2)) else { return };
            let src = Node::map(vec![(merged, Node::plain("v1")), (Node::plain("k2"), Node::plain("v2"))]);
            let mut e = Vec::new();
            if order == 0 {
                e.push((own, Node::plain("v0")));
                e.push((Node::plain("<<"), src));
            } else {
                e.push((Node::plain("<<"), src));
                e.push((own, Node::plain("v0")));
            }
            let n = Node::map(e);
            let sel = Sel { optvec: j % 4, policies: &all_policies, targets: &table };
            acc::count("scalar_key_variety_docs", 1);
            check_node(&run, &n, &sel, "scalar-key-variety", &both, j % 173 == 0);
        });
    }

    // ---- 12. seeded random documents
    let n_random = if debug_limit.is_some() { 4000 } else { tier.pick(250_000, 5_000_000) };
    par_range(n_random, |i| {
        let mut rng = Rng::stream(run.seed, i as u64);
        let (n, flow) = random_doc(&mut rng);
        let pol = [rng.below(3)];
        let sel = Sel { optvec: rng.below(4), policies: if i % 4 == 0 { &all_policies } else { &pol }, targets: &table };
        acc::count("random_docs", 1);
        check_node(&run, &n, &sel, "random", &[flow], i % 9973 == 0);
    });

    let scope = format!(
        "(1) root mappings with own keys k1..ko (in order; plus 2 reversed-order variants) and m merge entries in every interleaving, merge values from a {}-shape alphabet A (inline map, alias to map, null, empty map/seq, seq of maps/aliases, nested seq, alias to seq, nested merges up to 3 levels) or its 10-shape subset S: o<=3 x m<=2 over A under each of 4 option vectors; {}; the longer sequences under option vector (index mod 4). (2) own-duplicate patterns x m<=2. (3) 6 key spellings own x merged. (4) merges below the root. (5) must-fail values x 9 positions. (7) quoted/tagged `<<` x 6 values x 5 contexts. (8) every o<=2 x m<=2 mapping (2nd/3rd value from {}) at 10 typed positions of a derived struct. (9) merge chains of depth <= {} (4 key sets x merge-first/last per level) x inline/anchored x 4 ways of using the chain. (10) 11 x 11 merged value shapes x 3 collision patterns x 3 source styles. (11) 10 scalar key texts x 3 styles, own x merged x 2 orders. Everything x {{block, flow}} x 3 policies x all targets of the family",
        alpha.len(),
        if tier == Tier::Quick { "m=3: o<=2 over A x A x S and o=3 over S x S x S" } else { "m=3: o<=3 over A x A x A; m=4: o<=3 over S^4" },
        if tier == Tier::Quick { "S" } else { "A" },
        tier.pick(3, 4),
    );
    let fin = Finish::new(
        "a case (document, policy, target) is non-trivial when, by the reference rule applied to the raw parser tree, >= 1 merge source entry was contributed or was overridden by a key already present — or it is a must-fail merge value, or a quoted/tagged `<<` case; distinct by hash(doc, target, policy, option vector)",
    )
    .exhaustive(scope)
    .assume("raw saphyr-parser event stream is the ground truth for what a document means (the written-out document is computed from it and re-confirmed by it)")
    .assume(format!("option vectors crossed in (both sides of a relation always get the same one): {}", OPTVEC_NAMES.join(" | ")))
    .assume("budget and alias limits switched off in three of the four vectors (max_merge_keys belongs to C07); the fourth is Options::default(), with documents far inside every default limit")
    .assume("no verdict (counted as unspecified/*): null inside a merge sequence, repeated keys inside a merge source, tagged containers as source or key, `<<` inside a key, invalid merge value next to own duplicates")
    .min_nontrivial(if tier == Tier::Quick { 100_000 } else { 1_000_000 });
    acc::flush(&run);
    run.finish(fin);
}
