//! Inputs for C09: token alphabet, short inputs for the all-partitions sweep,
//! hand-made (mostly failing) documents, a random document generator with
//! char-level mutation, string literals harvested from /repo/tests at run time,
//! large multi-byte documents, and the scalar alphabet of the borrowing sweep.

use vcore::rng::Rng;
use vcore::treegen::{self, Leaf};
use vcore::ydoc::{self, Node, RenderOpts, Style};

/// The 28-token alphabet of DESIGN §5 C01.
pub const TOKENS: &[&str] = &[
    "a", "1", " ", "\n", "\t", "-", ":", "?", "[", "]", "{", "}", ",", "&a", "*a", "!t", "|", ">", "'", "\"", "#", "%", "<<",
    "---", "...", "~", "\\", "é",
];

/// Short inputs (the caller filters by the byte bound of the tier).
pub fn short_inputs() -> Vec<String> {
    let v: &[&str] = &[
        "a: 1\n",
        "- a\n- b\n",
        "é: ü\n",
        "- é\n",
        "日本: 語\n",
        "😀\n",
        "- 😀: é\n",
        "---\na\n",
        "a\n---\nb\n",
        "--- a\n...\n",
        "a\n...\nb\n",
        "a: 1\r\nb: 2\r\n",
        "- a\r- b\r",
        "- é\r\n- ü\r\n",
        "[a, é]",
        "{a: é}",
        "{é: [ü]}\n",
        "\"\\u00e9\"",
        "\"é\\n\"",
        "'é''é'",
        "a: [\n",
        "é: [",
        "é: é: é",
        "- *x\n",
        "&a é: *a\n",
        "a:\t1\n",
        "\ta: 1\n",
        "- - é\n",
        "? é\n: ü\n",
        "|\n é\n",
        ">\n é\n ü\n",
        "a: !t é\n",
        "!!str é",
        "%YAML 1.2\n",
        "%Y\n---\né",
        "# é\na\n",
        "a # é\n",
        "é\0ü",
        "\"é",
        "'é",
        "[é",
        "{é: ",
        "- é\n-ü\n",
        "é:ü",
        "€: [€, €]",
        "a\u{85}b",
        "a\u{2028}b\n",
        "x: \"\\\n y\"",
        "- a\n b\n",
        "a:\n - é\n",
        "a:\n  b: é\n",
        "a: 1\na: 2\n",
        "<<: é\n",
        "-\n",
        "- \n",
        "--- |\n é\n",
        "---\n---\n",
        "...\n",
        "é\n\n\n",
        "\n\né",
        " é",
        "é ",
        "\"é\" ü",
        "- é\n  - ü",
        "a: 'é\n  ü'\n",
        "é: ~\n",
        "[é,\n,ü]",
        "{é}",
        "*é",
        "&é",
        "- !é\n",
        // 17..20 bytes (thorough sweeps all 2^(n-1) partitions of these too)
        "- é: ü\n- 日: 本\n",
        "a: é\r\nb: ü\r\nc: [\r\n",
        "---\né: [ü]\n...\n",
        "k: \"é\\t日\\n\"\nz: 1\n",
        "é:\n  - ü\n  - 😀\n",
        "a: 'é''ü'\nb: *x\n",
        "- &a é\n- *a\n- *b\n",
        "? é\n: ü\n? 日\n: x\n",
        "a: |\n  é\nb: >\n z\n",
        "{é: [ü, {日: 1}]}",
        "- é # ü\n- 日\n-x\n",
        "é: 1\né: 2\nü: [\n",
        "---\n- é\n---\n- ü\n",
        "%YAML 1.2\n---\né\n",
        "a: !!str é\nb: !t",
        "- [é,\n  日]\n- ]\n",
        "a:\tb\n\tc: é\nd: ü\n",
        "k: é\n...\n😀 [\n",
        "- 😀😀\n- 😀:[\n",
        "€€: €\n€: [\n",
        "a\u{2028}b: é\nc\u{85}d: [\n",
        "x: ~\ny: é\n--- ü\n",
        "\u{FEFF}",
        "é\u{FEFF}",
        "a: \u{FEFF}b\n",
    ];
    v.iter().map(|s| s.to_string()).collect()
}

/// Hand-made documents: scan errors, type errors, CRLF, CR-only, tabs,
/// multi-byte, unknown alias, second document, budget breaches …
pub fn hand_made() -> Vec<String> {
    let v: &[&str] = &[
        // scan errors at various positions
        "a: [1, 2\nb: 3\n",
        "a: {x: 1\n",
        "key: \"unterminated\n",
        "key: 'unterminated\n",
        "a: 1\n  b: 2\n",
        "a:\n  - 1\n - 2\n",
        "a: b: c\n",
        "- a\n-b\n- c: [\n",
        "a: \"\\xZZ\"\n",
        "a: \"\\q\"\n",
        "a: \"\\u12\"\n",
        "a: |2x\n  t\n",
        "a: >\nfolded at column zero\n",
        "a: !<unterminated x\n",
        "%YAML 1.2\n%YAML 1.2\n---\na\n",
        "%TAG ! tag:x\n---\n!e!x a\n",
        "[a, b]]\n",
        "{a: 1}}\n",
        "a: 1\n---\nb: [\n",
        "? [a\n: b\n",
        "a: @b\n",
        "a: `b\n",
        "- ]\n",
        // tags that are only a handle
        "--- !!\n",
        "a: !!\nb: 1\n",
        "- !!\n- x\n",
        "[!!, x]\n",
        "k: !e!\n",
        "a: 1\n...\n!!\n",
        "- !\n- !t\n- !!str\n- !<x> y\n",
        // tabs
        "a:\t1\n",
        "a: 1\n\tb: 2\n",
        "-\ta\n-\tb\n",
        "a:\n\t- 1\n",
        "a: [\t1,\t2\t]\n",
        "\"a\tb\": \"c\\td\"\n",
        // CRLF / CR-only / mixed
        "a: 1\r\nb: 2\r\nc: [\r\n",
        "a: 1\rb: 2\rc: [\r",
        "a: 1\r\nb:\r\n  - x\r\n  - y\r\n",
        "- a\r\n- b\n- c\r- [\n",
        "k: |\r\n  l1\r\n  l2\r\nz: {\r\n",
        "k: \"l1\r\n  l2\"\r\nz: *q\r\n",
        "# c\r\na: 1\r\n...\r\ntrailing\r\n",
        // multi-byte before the error
        "é: [1, 2\n",
        "日本語: {x: 1\n",
        "k: \"日本語\n",
        "- 😀\n- 😀: [\n",
        "名前: 太郎\n年齢: x\n  bad: y\n",
        "é:\n  ü: 1\n ö: 2\n",
        "\"é\\q\": 1\n",
        "k: é # cömment\nz: [\n",
        "- aé\n- bü\n-c\n- [\n",
        "à: *ù\n",
        "&à x: *à\ny: *ù\n",
        // type errors (depend on the target)
        "k1: [1, 2]\nk2: notanumber\n",
        "k1: a\nk2: 12\nk3: notalist\n",
        "- 1\n- x\n- 3\n",
        "s: hello\nn: é\n",
        "s: hello\nn: 99999999999999999999\n",
        "c: ab\n",
        "t: [1, 2, 3]\n",
        "t: [300, x]\n",
        "e: Nope\n",
        "e: {Tup: [1]}\n",
        "m: {a: [1]}\n",
        "v: [1, é, 3]\n",
        "b: maybe\n",
        "y: \"not base64 é\"\n",
        "k1: a\nunknown: 1\n",
        "k1: a\nk1: b\n",
        "é: 1\né: 2\n",
        "? [a, b]\n: 1\n? [a, b]\n: 2\n",
        // aliases / anchors
        "a: *unknown\n",
        "- &a 1\n- *a\n- *b\n",
        "a: &x [1, 2]\nb: *x\nc: *y\n",
        "&a a: *a\n",
        "a: &a [*a]\n",
        "base: &b {k1: v}\nd:\n  <<: *b\n  <<: *c\n",
        "base: &b {k1: v}\nd:\n  <<: *b\n  k1: w\n",
        // second document / stream shapes
        "a: 1\n---\nb: 2\n",
        "---\na: 1\n---\n",
        "a: 1\n...\n---\nb: 2\n",
        "a: 1\n...\ngarbage: [\n",
        "a: 1\n... # c\n",
        "--- é\n--- ü\n",
        "é\n---\n",
        "---\n...\n---\n...\n",
        "",
        "\n",
        "# only a comment é\n",
        "---\n",
        "~\n",
        "...\n",
        // budget (option vector 2)
        "[1, 2, 3, 4, 5, 6, 7, 8, 9]\n",
        "a: {b: {c: {d: 1}}}\n",
        "a: aaaaaaaaaaaaaaaaaaaaaaaaaaaaaaaaaaaaaaaaaaaaaaaaaaaaaa\n",
        "é: ééééééééééééééééééééééééééééééééééééééé\n",
        // no_schema / strict booleans / legacy octal (option vector 1)
        "- yes\n- 0o17\n- 017\n- 1.5\n- ~\n",
        "k1: 123\nk2: 5\nk3: [true]\n",
        // odd characters
        "a: \u{85}b\n",
        "a: b\u{2028}c: [\n",
        "a\0b: [\n",
        "k: v\u{FEFF}w\nz: [\n",
        "\u{FEFF}\u{FEFF}a: 1\n",
        "k: \"\\uD800\"\n",
        "k: \"\\U0001F600\"\nz: [\n",
        "k: \u{10FFFF}\nz: [\n",
        // comments and blank lines before the error (line counting)
        "\n\n# c\n\n  # é\na:\n\n  - 1\n\n  - [\n",
        "a: >\n  é\n\n  ü\n\nb: [\n",
        "a: |+\n  é\n\n\nb: {\n",
        "a: 'x\n\n  y'\nb: 'z\n",
        // valid, non-trivial
        "k1: hello\nk2: 7\nk3: [a, \"b\\tc\", 'd''e']\n",
        "- é\n- \"日本\\n語\"\n- '😀'\n- |\n  lit é\n- >\n  fol\n  ded\n",
        "s: é\nn: -5\nf: 1.5e3\nb: true\nc: é\nv: [1, 2]\ne: Unit\nm: {a: b}\nt: [7, x]\nu: ~\n",
        "{\"a\": [1, 2, {\"b\": null}], \"c\": \"d\"}\n",
    ];
    v.iter().map(|s| s.to_string()).collect()
}

const GEN_LEAVES: &[Leaf] = &[
    Leaf { text: "x", style: Style::Plain, unique: true },
    Leaf { text: "1", style: Style::Plain, unique: false },
    Leaf { text: "-7", style: Style::Plain, unique: false },
    Leaf { text: "1.5", style: Style::Plain, unique: false },
    Leaf { text: "true", style: Style::Plain, unique: false },
    Leaf { text: "~", style: Style::Plain, unique: false },
    Leaf { text: "", style: Style::Double, unique: false },
    Leaf { text: "q q", style: Style::Single, unique: false },
    Leaf { text: "é", style: Style::Plain, unique: false },
    Leaf { text: "日本語", style: Style::Plain, unique: true },
    Leaf { text: "😀", style: Style::Plain, unique: false },
    Leaf { text: "a\tb", style: Style::Double, unique: false },
    Leaf { text: "é\nü", style: Style::Double, unique: false },
    Leaf { text: "it's é", style: Style::Single, unique: false },
    Leaf { text: "0x1F", style: Style::Plain, unique: false },
    Leaf { text: "a b", style: Style::Plain, unique: false },
    Leaf { text: "l1 é\nl2\n", style: Style::Literal, unique: false },
    Leaf { text: "f1\nf2 ü\n", style: Style::Folded, unique: false },
    Leaf { text: "\u{FEFF}z", style: Style::Double, unique: false },
    Leaf { text: "k1", style: Style::Plain, unique: false },
    Leaf { text: "Unit", style: Style::Plain, unique: false },
];

/// A random (valid by construction, modulo renderer limits) document with random
/// line breaks, layout, and stream decoration.
pub fn random_document(rng: &mut Rng) -> String {
    let mut counter = 0;
    let budget = rng.range(1, 24);
    let mut t = treegen::random_tree(rng, budget, 4, GEN_LEAVES, &mut counter);
    // sometimes anchors / aliases
    if rng.chance(1, 5) {
        let paths = treegen::node_paths(&t);
        let p = rng.pick(&paths).clone();
        let n = treegen::node_at_mut(&mut t, &p);
        *n = n.clone().with_anchor("a");
        if rng.bool() {
            let paths = treegen::node_paths(&t);
            let q = rng.pick(&paths).clone();
            if !q.is_empty() && q != p {
                *treegen::node_at_mut(&mut t, &q) = Node::alias(if rng.chance(1, 6) { "zz" } else { "a" });
            }
        }
    }
    if rng.chance(1, 4) {
        t.set_flow(true);
    }
    let brk = *rng.pick(&["\n", "\n", "\n", "\r\n", "\r"]);
    let ro = RenderOpts { indent: *rng.pick(&[1usize, 2, 2, 4]), brk, compact: rng.bool() };
    let mut body = ydoc::render(&t, &ro).text;
    let mut out = String::new();
    if rng.chance(1, 8) {
        out.push_str("# cömment");
        out.push_str(brk);
    }
    if rng.chance(1, 12) {
        out.push_str("%YAML 1.2");
        out.push_str(brk);
        out.push_str("---");
        out.push_str(brk);
    } else if rng.chance(1, 6) {
        out.push_str("---");
        out.push_str(brk);
    }
    if rng.chance(1, 10) {
        body = body.trim_end_matches(['\n', '\r']).to_string();
    }
    out.push_str(&body);
    if rng.chance(1, 10) {
        out.push_str("...");
        out.push_str(brk);
    }
    if rng.chance(1, 10) {
        out.push_str("---");
        out.push_str(brk);
        out.push_str(if rng.bool() { "second: é" } else { "~" });
        out.push_str(brk);
    }
    out
}

/// A single document body (LF breaks, no stream decoration) for composing streams.
pub fn random_body(rng: &mut Rng) -> String {
    if rng.chance(1, 6) {
        return rng.pick(&["plain", "12", "é", "\"q\"", "~", "[1, 2]", "{a: b}", "k: [", "'open", "- *nope"]).to_string();
    }
    let mut counter = 0;
    let budget = rng.range(1, 10);
    let mut t = treegen::random_tree(rng, budget, 3, GEN_LEAVES, &mut counter);
    if rng.chance(1, 4) {
        t.set_flow(true);
    }
    let ro = RenderOpts { indent: 2, brk: "\n", compact: rng.bool() };
    ydoc::render(&t, &ro).text
}

/// Char-level mutation (the result is always valid UTF-8).
pub fn mutate(text: &str, rng: &mut Rng) -> String {
    let mut cs: Vec<char> = text.chars().collect();
    let n = cs.len();
    let tok = |rng: &mut Rng| -> Vec<char> { rng.pick(TOKENS).chars().collect() };
    match rng.below(9) {
        0 if n > 0 => {
            cs.remove(rng.below(n));
        }
        1 => {
            let at = rng.below(n + 1);
            let t = tok(rng);
            cs.splice(at..at, t);
        }
        2 if n > 0 => {
            let at = rng.below(n);
            let t = tok(rng);
            cs.splice(at..at + 1, t);
        }
        3 if n > 1 => {
            let at = rng.below(n - 1);
            cs.swap(at, at + 1);
        }
        4 if n > 0 => {
            let a = rng.below(n);
            let b = (a + rng.range(1, 8)).min(n);
            let span: Vec<char> = cs[a..b].to_vec();
            cs.splice(b..b, span);
        }
        5 if n > 0 => {
            cs.truncate(rng.below(n));
        }
        6 => {
            // LF -> CRLF or CR everywhere
            let rep: &[char] = if rng.bool() { &['\r', '\n'] } else { &['\r'] };
            let mut out = Vec::with_capacity(n + 8);
            for c in cs {
                if c == '\n' {
                    out.extend_from_slice(rep);
                } else {
                    out.push(c);
                }
            }
            cs = out;
        }
        7 if n > 0 => {
            // replace an ASCII letter by a multi-byte one
            let at = rng.below(n);
            cs[at] = *rng.pick(&['é', '語', '😀', '\u{a0}', 'ß']);
        }
        _ => {
            let at = rng.below(n + 1);
            let ins: &[char] = *rng.pick(&[&[' ', ' '][..], &['\t'][..], &['\n'][..], &['#', ' ', 'é'][..], &[':', ' '][..], &['-', ' '][..]]);
            cs.splice(at..at, ins.iter().copied());
        }
    }
    cs.into_iter().collect()
}

/// Documents of > 16 KiB made of 2/3/4-byte characters with a varying ASCII
/// prefix, so that 8 KiB buffer boundaries fall at every phase inside characters.
pub fn large_multibyte_document(i: usize, rng: &mut Rng) -> String {
    let chars = ['é', '語', '😀', 'ü', '€'];
    let mut s = String::new();
    // phase shift
    s.push_str("# ");
    for _ in 0..(i % 7) {
        s.push('x');
    }
    s.push('\n');
    let kind = i % 3;
    let mut k = 0usize;
    while s.len() < 20_000 + (i % 5) * 4096 {
        let c = chars[(i + k) % chars.len()];
        let w: String = std::iter::repeat_n(c, 1 + (k * 7 + i) % 23).collect();
        match kind {
            0 => s.push_str(&format!("- {w}\n")),
            1 => s.push_str(&format!("k{k}: {w}\n")),
            _ => s.push_str(&format!("- \"{w}\\t{w}\"\n")),
        }
        k += 1;
    }
    // a third of them end in an error far from the start
    if rng.chance(1, 3) {
        s.push_str(if kind == 1 { "bad: [\n" } else { "- [\n" });
    }
    s
}

pub fn invalid_utf8() -> Vec<Vec<u8>> {
    vec![
        b"a: \xff\n".to_vec(),
        b"a: \xc3\n".to_vec(),
        b"\xef\xbb\xbfa: \xc3\n".to_vec(),
        b"a: \xed\xa0\x80\n".to_vec(),
        b"- \xf0\x9f\x98\n".to_vec(),
        b"\xff\xfea\x00".to_vec(),
        b"a: \xc0\xaf\n".to_vec(),
    ]
}

// ------------------------------------------------------------------ harvesting

/// String literals of the repository's integration tests (a stand-in corpus of
/// realistic YAML, including the yaml-test-suite cases the tests embed). Purely
/// lexical; literals with escapes the scanner does not know are dropped.
pub fn harvest_repo_tests(dir: &std::path::Path) -> Vec<String> {
    let mut files = Vec::new();
    fn walk(d: &std::path::Path, out: &mut Vec<std::path::PathBuf>, depth: usize) {
        if depth > 3 {
            return;
        }
        let Ok(rd) = std::fs::read_dir(d) else { return };
        let mut es: Vec<_> = rd.filter_map(|e| e.ok()).map(|e| e.path()).collect();
        es.sort();
        for p in es {
            if p.is_dir() {
                walk(&p, out, depth + 1);
            } else if p.extension().is_some_and(|e| e == "rs") {
                out.push(p);
            }
        }
    }
    walk(dir, &mut files, 0);
    let mut out = Vec::new();
    let mut seen = std::collections::HashSet::new();
    for f in files {
        let Ok(src) = std::fs::read_to_string(&f) else { continue };
        for lit in rust_string_literals(&src) {
            if lit.len() < 3 || lit.len() > 6000 {
                continue;
            }
            if !(lit.contains('\n') || lit.contains(": ") || lit.starts_with("- ") || lit.starts_with('[') || lit.starts_with('{')) {
                continue;
            }
            if seen.insert(vcore::rng::fnv(lit.as_bytes())) {
                out.push(lit);
            }
        }
    }
    out
}

fn rust_string_literals(src: &str) -> Vec<String> {
    let b: Vec<char> = src.chars().collect();
    let n = b.len();
    let mut i = 0;
    let mut out = Vec::new();
    while i < n {
        let c = b[i];
        // comments
        if c == '/' && i + 1 < n && b[i + 1] == '/' {
            while i < n && b[i] != '\n' {
                i += 1;
            }
            continue;
        }
        if c == '/' && i + 1 < n && b[i + 1] == '*' {
            i += 2;
            while i + 1 < n && !(b[i] == '*' && b[i + 1] == '/') {
                i += 1;
            }
            i += 2;
            continue;
        }
        // char literal or lifetime
        if c == '\'' {
            if i + 2 < n && b[i + 1] == '\\' {
                // escaped char literal: skip to closing quote
                let mut j = i + 2;
                while j < n && b[j] != '\'' && j < i + 12 {
                    j += 1;
                }
                i = j + 1;
                continue;
            }
            if i + 2 < n && b[i + 2] == '\'' {
                i += 3;
                continue;
            }
            i += 1; // lifetime
            continue;
        }
        // raw strings r"..", r#".."#, br#".."#
        if c == 'r' && i + 1 < n && (b[i + 1] == '"' || b[i + 1] == '#') && (i == 0 || !(b[i - 1].is_alphanumeric() || b[i - 1] == '_') || b[i - 1] == 'b') {
            let mut j = i + 1;
            let mut hashes = 0;
            while j < n && b[j] == '#' {
                hashes += 1;
                j += 1;
            }
            if j < n && b[j] == '"' {
                j += 1;
                let start = j;
                let mut found = None;
                while j < n {
                    if b[j] == '"' {
                        let mut k = 0;
                        while k < hashes && j + 1 + k < n && b[j + 1 + k] == '#' {
                            k += 1;
                        }
                        if k == hashes {
                            found = Some(j);
                            break;
                        }
                    }
                    j += 1;
                }
                if let Some(end) = found {
                    out.push(b[start..end].iter().collect());
                    i = end + 1 + hashes;
                    continue;
                }
            }
            i += 1;
            continue;
        }
        if c == '"' {
            let mut j = i + 1;
            let mut s = String::new();
            let mut ok = true;
            let mut closed = false;
            while j < n {
                let d = b[j];
                if d == '"' {
                    closed = true;
                    break;
                }
                if d == '\\' && j + 1 < n {
                    let e = b[j + 1];
                    j += 2;
                    match e {
                        'n' => s.push('\n'),
                        'r' => s.push('\r'),
                        't' => s.push('\t'),
                        '0' => s.push('\0'),
                        '\\' => s.push('\\'),
                        '"' => s.push('"'),
                        '\'' => s.push('\''),
                        '\n' => {
                            while j < n && b[j].is_whitespace() {
                                j += 1;
                            }
                        }
                        'x' => {
                            let h: String = b[j..(j + 2).min(n)].iter().collect();
                            match u8::from_str_radix(&h, 16) {
                                Ok(v) if v < 0x80 => s.push(v as char),
                                _ => ok = false,
                            }
                            j += 2;
                        }
                        'u' => {
                            if j < n && b[j] == '{' {
                                let mut k = j + 1;
                                let mut h = String::new();
                                while k < n && b[k] != '}' {
                                    if b[k] != '_' {
                                        h.push(b[k]);
                                    }
                                    k += 1;
                                }
                                match u32::from_str_radix(&h, 16).ok().and_then(char::from_u32) {
                                    Some(ch) => s.push(ch),
                                    None => ok = false,
                                }
                                j = k + 1;
                            } else {
                                ok = false;
                            }
                        }
                        _ => ok = false,
                    }
                    continue;
                }
                s.push(d);
                j += 1;
            }
            if closed && ok {
                out.push(s);
            }
            i = j + 1;
            continue;
        }
        i += 1;
    }
    out
}

// ------------------------------------------------------------------ borrowing alphabet

/// Scalar alphabet of the borrowing sweep: every class the property talks about.
pub fn borrow_leaves() -> Vec<Node> {
    use Style::*;
    let mut v = vec![
        // must-borrow classes
        Node::styled("abc", Plain),
        Node::styled("héllo", Plain),
        Node::styled("a b c", Plain),
        Node::styled("123", Plain),
        Node::styled("日本", Plain),
        Node::styled("q q", Single),
        Node::styled("é: #x", Single),
        Node::styled("d d", Double),
        Node::styled("ü, [x]", Double),
        // needs escape processing / quote folding: must fail with the dedicated error
        Node::styled("it's", Single),
        Node::styled("a\tb", Double),
        Node::styled("a\\b", Double),
        Node::styled("é\nü", Double),
        Node::styled("say \"hi\"", Double),
        Node::styled("\u{e9}x\u{1F600}", Double),
        // unspecified for must-borrow
        Node::styled("", Double),
        Node::styled("", Single),
        Node::styled("lit\n", Literal),
        Node::styled("l1\nl2\n", Literal),
        Node::styled("fo\nld\n", Folded),
        // not strings
        Node::styled("~", Plain),
        Node::styled("null", Plain),
        Node::styled("true", Plain),
    ];
    // a double-quoted scalar written with an escape although it would not need one
    v.push(Node::styled("\u{a0}", Double)); // rendered as "\_"
    v
}

/// (shape, document) pairs written by hand for the borrowing relation.
pub fn borrow_hand_made() -> Vec<(&'static str, &'static str)> {
    vec![
        ("root", "plain"),
        ("root", "plain text with spaces   \n"),
        ("root", "  indented\n"),
        ("root", "--- doc\n"),
        ("root", "multi\n line\n"),
        ("root", "\"a\\x41\""),
        ("root", "\"line1\n  line2\""),
        ("root", "'line1\n  line2'"),
        ("root", "|\n  block\n"),
        ("root", "|-\n  block\n"),
        ("root", ">-\n  one\n  two\n"),
        ("root", "&a anchored"),
        ("root", "!!str tagged"),
        ("root", "é # comment\n"),
        ("seq", "- a # c\n- b   \n-   c\n"),
        ("seq", "[a , b,c ]\n"),
        ("seq", "- &x shared\n- *x\n"),
        ("seq", "- \"\\u00e9\"\n- é\n"),
        ("seq", "- 'a''b'\n- 'ab'\n"),
        ("seq", "- a\n  b\n- c\n"),
        ("seq", "[\n  a,\n  'b c'\n]\n"),
        ("seq", "- \"a\" \n- 'b'\t\n"),
        ("seq", "[]\n"),
        ("map", "a: b\nc: d\n"),
        ("map", "\"a\": 'b'\n'c': \"d\"\n"),
        ("map", "? a\n: b\n"),
        ("map", "{a: b, \"c\": 'd'}\n"),
        ("map", "a:   b   # comment\n"),
        ("map", "base: &b x\n<<: y\n"),
        ("map", "k: \"v\\n\"\n"),
        ("map", "\"k\\t\": v\n"),
        ("map", "k: >\n  folded\n  text\n"),
        ("map", "{}\n"),
        ("map", "é: ü\r\nö: ä\r\n"),
    ]
}
