//! C09 — all entry points agree: str, slice, closure helpers, reader under any
//! chunking; BOM ignored by all; borrowed vs owned strings.
//!
//! Differential oracle on the real code. For a text `x`, options `o` and owned
//! target `T` the reference outcome is `from_str_with_options::<T>(x, o)`; every
//! other entry point (`from_slice`, `with_deserializer_from_str/slice`,
//! `from_reader` and `with_deserializer_from_reader` fed through a reader that
//! honours an exact partition of the bytes into `read` calls) must return an equal
//! `Ok` value, or an `Err` of the same kind (variant of `without_snippet()`) at the
//! same (line, column). The BOM-prefixed variant of `x` is compared with the
//! reference of the BOM-less `x` on every entry point, positions included.
//! Borrowing: see `borrow` below.

mod corpus;
mod extra;
mod finalisation;

use serde::Deserialize;
use serde_json::{Value, json};
use std::borrow::Cow;
use std::collections::{BTreeMap, HashSet};
use vcore::capped::Capped;
use vcore::errs::{kind, line_col};
use vcore::obs::{catch, panic_site};
use vcore::rdr::{Chunking, CutReader, adversarial_positions};
use vcore::reftree::{self, RNode};
use vcore::rng::{Rng, fnv_parts};
use vcore::run::{Finish, Run, Tier, par_range};
use vcore::targets::{self, Outcome, Target};
use vcore::ydoc::{self, Node, RenderOpts, Style};

const BOM: &str = "\u{FEFF}";

// ------------------------------------------------------------------ options

fn opts(v: usize) -> serde_saphyr::Options {
    let mut o = serde_saphyr::Options::default();
    #[allow(deprecated)]
    match v {
        1 => {
            o.duplicate_keys = serde_saphyr::DuplicateKeyPolicy::LastWins;
            o.strict_booleans = true;
            o.legacy_octal_numbers = true;
            o.no_schema = true;
        }
        2 => {
            o.duplicate_keys = serde_saphyr::DuplicateKeyPolicy::FirstWins;
            let mut b = serde_saphyr::Budget::default();
            b.max_events = 7;
            b.max_depth = 2;
            b.max_nodes = 5;
            b.max_total_scalar_bytes = 24;
            o.budget = Some(b);
        }
        3 => {
            o.with_snippet = false;
            o.crop_radius = 0;
        }
        _ => {}
    }
    o
}

// ------------------------------------------------------------------ outcomes

#[derive(Clone, Debug, PartialEq, Eq)]
enum Canon {
    Ok(String),
    Err(String, Option<(u64, u64)>),
}

fn canon(o: &Outcome) -> Canon {
    match o {
        Ok(v) => Canon::Ok(v.clone()),
        Err(e) => Canon::Err(kind(e), line_col(e)),
    }
}

fn show_c(c: &Canon) -> String {
    match c {
        Canon::Ok(v) => format!("Ok({})", v.chars().take(200).collect::<String>()),
        Canon::Err(k, lc) => format!("Err({k} @ {lc:?})"),
    }
}

/// None = the two outcomes agree in the sense of the property.
fn diff(reference: &Canon, got: &Canon) -> Option<String> {
    match (reference, got) {
        (Canon::Ok(a), Canon::Ok(b)) => (a != b).then(|| "value-differs".to_string()),
        (Canon::Ok(_), Canon::Err(k, _)) => Some(format!("ok-vs-err:{k}")),
        (Canon::Err(k, _), Canon::Ok(_)) => Some(format!("err:{k}-vs-ok")),
        (Canon::Err(k1, l1), Canon::Err(k2, l2)) => {
            if k1 != k2 {
                Some(format!("kind-differs:{k1}-vs-{k2}"))
            } else if l1 != l2 {
                Some(format!("location-differs:{k1}"))
            } else {
                None
            }
        }
    }
}

/// Rare input features that go into the signature (a different defect class
/// should not share a signature with a common one).
fn rare_features(text: &str) -> String {
    let mut f = String::new();
    if text.contains('\0') {
        f.push_str(":nul");
    }
    let b = text.as_bytes();
    if (0..b.len()).any(|i| b[i] == b'\r' && b.get(i + 1) != Some(&b'\n')) {
        f.push_str(":cr-only");
    }
    if text.contains(['\u{85}', '\u{2028}', '\u{2029}']) {
        f.push_str(":uni-break");
    }
    if text.chars().skip(1).any(|c| c == '\u{FEFF}') {
        f.push_str(":inner-bom");
    }
    if has_bare_tag_handle(text) {
        f.push_str(":bare-tag-handle");
    }
    f
}

fn bare_tag_position_only(text: &str, d: &str) -> bool {
    d == "location-differs:ExternalMessage" && has_bare_tag_handle(text)
}

/// Signature of a disagreement between the str reference and a reader-side outcome on a text that
/// contains a tag consisting only of a handle (None: not that class).
fn bare_tag_class(text: &str, reference: &Canon, got: &Canon) -> Option<&'static str> {
    if !has_bare_tag_handle(text) {
        return None;
    }
    let scan = |c: &Canon| matches!(c, Canon::Err(k, _) if k == "ExternalMessage");
    if bare_tag_signature(text) == "C09:bare-tag-handle-after-document-end-marker" {
        return Some("C09:bare-tag-handle-after-document-end-marker");
    }
    match (reference, got) {
        (Canon::Err(..), Canon::Err(..)) if scan(reference) != scan(got) => Some("C09:bare-tag-handle:error-kind-differs-str-vs-reader"),
        (Canon::Ok(_), g) if scan(g) => Some("C09:bare-tag-handle:reader-paths-reject-what-str-paths-accept"),
        (r, Canon::Ok(_)) if scan(r) => Some("C09:bare-tag-handle:str-paths-reject-what-reader-paths-accept"),
        _ => None,
    }
}

/// After an explicit `...` the reader's scanner fails before the next document starts (ignored as
/// trailing garbage), the str path sees the document start first: its own class.
fn bare_tag_signature(text: &str) -> &'static str {
    let after_end_marker = text.split_inclusive(['\n', '\r']).scan(false, |seen, line| {
        let t = line.trim_end();
        let r = *seen && has_bare_tag_handle(line);
        if t == "..." || t.starts_with("... ") {
            *seen = true;
        }
        Some(r)
    }).any(|x| x);
    if after_end_marker {
        "C09:bare-tag-handle-after-document-end-marker"
    } else {
        "C09:bare-tag-handle:reader-paths-reject-what-str-paths-accept"
    }
}

/// A tag that is only a handle (`!!`, `!e!`) with nothing after it.
fn has_bare_tag_handle(text: &str) -> bool {
    let cs: Vec<char> = text.chars().collect();
    let sep = |c: char| c.is_whitespace() || "[]{},".contains(c) || c == '\u{FEFF}';
    let mut i = 0;
    while i < cs.len() {
        if cs[i] == '!' && (i == 0 || sep(cs[i - 1])) {
            let mut j = i + 1;
            while j < cs.len() && (cs[j].is_alphanumeric() || cs[j] == '-') {
                j += 1;
            }
            if j < cs.len() && cs[j] == '!' && (j + 1 == cs.len() || sep(cs[j + 1]) || cs[j + 1] == '\0') {
                return true;
            }
            i = j;
        } else {
            i += 1;
        }
    }
    false
}

/// Class of an input on which a reader entry point never stops polling.
fn runaway_class(text: &str) -> &'static str {
    let last = text.rsplit(['\n', '\r']).next().unwrap_or("");
    if last.starts_with('%') {
        "directive-line-runs-to-end-of-input"
    } else {
        "other"
    }
}

#[derive(Clone, Copy, Debug, PartialEq, Eq)]
enum Entry {
    FromStr,
    FromSlice,
    WithDeStr,
    WithDeSlice,
    FromReader,
    WithDeReader,
}

impl Entry {
    fn name(self) -> &'static str {
        match self {
            Entry::FromStr => "from_str",
            Entry::FromSlice => "from_slice",
            Entry::WithDeStr => "with_de_str",
            Entry::WithDeSlice => "with_de_slice",
            Entry::FromReader => "from_reader",
            Entry::WithDeReader => "with_de_reader",
        }
    }
    fn from_name(n: &str) -> Entry {
        match n {
            "from_slice" => Entry::FromSlice,
            "with_de_str" => Entry::WithDeStr,
            "with_de_slice" => Entry::WithDeSlice,
            "from_reader" => Entry::FromReader,
            "with_de_reader" => Entry::WithDeReader,
            _ => Entry::FromStr,
        }
    }
}

/// Run one entry point; returns the outcome and the number of `read` calls that
/// delivered data (0 for the in-memory entry points).
fn run_entry(t: &Target, e: Entry, text: &str, optv: usize, ch: &Chunking) -> Result<(Outcome, usize), String> {
    catch(|| match e {
        Entry::FromStr => ((t.from_str)(text, opts(optv)), 0),
        Entry::FromSlice => ((t.from_slice)(text.as_bytes(), opts(optv)), 0),
        Entry::WithDeStr => ((t.with_de_str)(text, opts(optv)), 0),
        Entry::WithDeSlice => ((t.with_de_slice)(text.as_bytes(), opts(optv)), 0),
        Entry::FromReader => {
            let mut r = CutReader::plain(text.as_bytes(), ch.clone());
            let dc = r.data_calls_handle();
            let o = (t.from_reader)(&mut r, opts(optv));
            let n = *dc.borrow();
            (o, n)
        }
        Entry::WithDeReader => {
            let mut r = CutReader::plain(text.as_bytes(), ch.clone());
            let dc = r.data_calls_handle();
            let o = (t.with_de_reader)(&mut r, opts(optv));
            let n = *dc.borrow();
            (o, n)
        }
    })
}

// ------------------------------------------------------------------ local accumulation

#[derive(Default)]
struct Local {
    counts: BTreeMap<&'static str, u64>,
    kinds: HashSet<String>,
    /// > 0: in the all-partitions sweeps one non-triviality hash stands for 2^shift consecutive masks
    mask_shift: u32,
}

impl Local {
    fn add(&mut self, k: &'static str, n: u64) {
        *self.counts.entry(k).or_insert(0) += n;
    }
    fn flush(&mut self, run: &Run) {
        run.count_map(&self.counts);
        self.counts.clear();
        for k in self.kinds.drain() {
            run.observe("error_kinds", &k);
        }
    }
}

// ------------------------------------------------------------------ the entry-point comparison

struct Sched {
    label: &'static str,
    ch: Chunking,
}

/// Does the chunking cut inside a multi-byte character / between CR and LF?
fn cut_stats(bytes: &[u8], ch: &Chunking, l: &mut Local) {
    let n = bytes.len();
    let mut inside = 0u64;
    let mut crlf = 0u64;
    let mut check = |p: usize| {
        if p > 0 && p < n {
            if bytes[p] & 0xC0 == 0x80 {
                inside += 1;
            }
            if bytes[p - 1] == b'\r' && bytes[p] == b'\n' {
                crlf += 1;
            }
        }
    };
    match ch {
        Chunking::Every(k) => {
            let k = (*k).max(1);
            if k < n {
                let mut p = k;
                while p < n {
                    check(p);
                    p += k;
                }
            }
        }
        Chunking::Cuts(v) => v.iter().for_each(|p| check(*p)),
        Chunking::Mask(m) => {
            for i in 0..n.min(64) {
                if (m >> i) & 1 == 1 {
                    check(i + 1);
                }
            }
        }
        Chunking::Whole => {
            let mut p = 8192;
            while p < n {
                check(p);
                p += 8192;
            }
        }
    }
    if inside > 0 {
        l.add("cases_with_cut_inside_codepoint", 1);
    }
    if crlf > 0 {
        l.add("cases_with_cut_between_cr_lf", 1);
    }
}

#[allow(clippy::too_many_arguments)]
fn compare_one(
    run: &Run,
    l: &mut Local,
    section: &'static str,
    base: &str,
    text: &str,
    bom: bool,
    t: &Target,
    optv: usize,
    reference: &Canon,
    e: Entry,
    sched_label: &'static str,
    ch: &Chunking,
) -> bool {
    run.eval();
    let case = || {
        json!({"section": section, "text": base, "bom": bom, "target": t.name, "opts": optv,
               "entry": e.name(), "schedule": sched_label, "chunking": ch.to_json()})
    };
    match run_entry(t, e, text, optv, ch) {
        Err(p) if p.contains(vcore::rdr::RUNAWAY_MSG) => {
            // from_str returned, the reader path keeps polling a finished reader forever
            l.add("reader_runaway_after_end_of_input", 1);
            run.violation_capped(
                &format!("C09:reader-path-never-returns:{}", runaway_class(text)),
                case(),
                format!("from_str on BOM-less text: {} | {}: {p}", show_c(reference), e.name()),
            );
            return true;
        }
        Err(p) => run.violation_capped(&format!("C09:panic:{}", panic_site(&p)), case(), p),
        Ok((o, data_calls)) => {
            let c = canon(&o);
            if let Canon::Err(k, _) = &c
                && !l.kinds.contains(k)
            {
                l.kinds.insert(k.clone());
            }
            match diff(reference, &c) {
                Some(d) if bare_tag_position_only(base, &d) => {
                    // A tag that is only a handle is rejected by every path, but the str path reports the
                    // node's position and the reader path the tag's (parser difference, known): no verdict.
                    let _ = d;
                    run.count("unspecified/bare-tag-handle-error-position", 1);
                }
                Some(d) => {
                    let sig = if !bom && base.starts_with("\u{FEFF}\u{FEFF}") {
                        // same text on both sides: from_str removes two marks, the reader path one
                        let _ = &d;
                        "C09:two-leading-boms:entry-points-differ".to_string()
                    } else if matches!(e, Entry::FromReader | Entry::WithDeReader)
                        && let Some(sig) = bare_tag_class(base, reference, &c)
                    {
                        sig.to_string()
                    } else {
                        format!("C09:{}:{}{}{}", e.name(), d, if bom { ":bom" } else { "" }, rare_features(base))
                    };
                    run.violation_capped(
                        &sig,
                        case(),
                        format!("from_str on BOM-less text: {} | {}: {}", show_c(reference), e.name(), show_c(&c)),
                    );
                }
                None => {
                    match &c {
                        Canon::Ok(_) => l.add("agree_ok", 1),
                        Canon::Err(..) => l.add("agree_err", 1),
                    }
                    let reader = matches!(e, Entry::FromReader | Entry::WithDeReader);
                    if reader {
                        l.add("reader_runs", 1);
                        if data_calls >= 2 {
                            l.add("reader_runs_with_real_split", 1);
                            cut_stats(text.as_bytes(), ch, l);
                            let key = match ch {
                                Chunking::Mask(m) if l.mask_shift > 0 => format!("maskblock:{}", m >> l.mask_shift),
                                _ => ch.to_json().to_string(),
                            };
                            run.nontrivial(fnv_parts(&[base.as_bytes(), &[bom as u8, optv as u8], t.name.as_bytes(), e.name().as_bytes(), key.as_bytes()]));
                        }
                    }
                }
            }
        }
    }
    false
}

/// Compare every entry point on `base` (and on BOM+`base` if `with_bom`).
fn check_text(
    run: &Run,
    l: &mut Local,
    section: &'static str,
    base: &str,
    with_bom: bool,
    t: &Target,
    optv: usize,
    scheds_plain: &[Sched],
    scheds_bom: &[Sched],
) {
    run.eval();
    let reference = match catch(|| (t.from_str)(base, opts(optv))) {
        Ok(o) => canon(&o),
        Err(p) => {
            run.violation_capped(
                &format!("C09:panic:{}", panic_site(&p)),
                json!({"section": section, "text": base, "bom": false, "target": t.name, "opts": optv, "entry": "from_str",
                       "schedule": "-", "chunking": "whole"}),
                p,
            );
            return;
        }
    };
    if let Canon::Err(k, _) = &reference {
        l.kinds.insert(k.clone());
        l.add("reference_err", 1);
    } else {
        l.add("reference_ok", 1);
    }
    let whole = Chunking::Whole;
    for e in [Entry::FromSlice, Entry::WithDeStr, Entry::WithDeSlice] {
        compare_one(run, l, section, base, base, false, t, optv, &reference, e, "-", &whole);
    }
    // Once a reader entry point has been seen to spin on this text, no further reader run is made
    // with it: behind a BOM the decoder stops polling the instrumented reader, so the spin could not
    // be detected and would hang the harness.
    let mut dead = false;
    'plain: for s in scheds_plain {
        for e in [Entry::FromReader, Entry::WithDeReader] {
            if compare_one(run, l, section, base, base, false, t, optv, &reference, e, s.label, &s.ch) {
                dead = true;
                break 'plain;
            }
        }
    }
    if !dead && with_bom && scheds_plain.is_empty() {
        // make sure the plain text has been through a reader once before the BOM variant is tried
        dead = compare_one(run, l, section, base, base, false, t, optv, &reference, Entry::WithDeReader, "every-1", &Chunking::Every(1));
    }
    if dead {
        run.count("texts_abandoned_after_reader_runaway", 1);
        return;
    }
    if with_bom && base.starts_with(BOM) {
        // BOM + BOM + x against x: the statement speaks of "a" leading byte-order mark
        run.count("unspecified/bom-variant-of-text-that-already-starts-with-bom", 1);
    } else if with_bom {
        let text = format!("{BOM}{base}");
        l.add("bom_variants", 1);
        for e in [Entry::FromStr, Entry::FromSlice, Entry::WithDeStr, Entry::WithDeSlice] {
            compare_one(run, l, section, base, &text, true, t, optv, &reference, e, "-", &whole);
        }
        for s in scheds_bom {
            for e in [Entry::FromReader, Entry::WithDeReader] {
                compare_one(run, l, section, base, &text, true, t, optv, &reference, e, s.label, &s.ch);
            }
        }
    }
}

/// The schedule family of DESIGN §5 C09 for a text of arbitrary length.
fn schedules(bytes: &[u8], rng: &mut Rng, singles: usize) -> Vec<Sched> {
    let n = bytes.len();
    let mut v = Vec::new();
    if n > 4096 {
        for (label, ch) in [
            ("every-1", Chunking::Every(1)),
            ("every-7", Chunking::Every(7)),
            ("every-4096", Chunking::Every(4096)),
            ("every-8191", Chunking::Every(8191)),
            ("whole", Chunking::Whole),
        ] {
            v.push(Sched { label, ch });
        }
    } else {
        for (label, k) in [("every-1", 1), ("every-2", 2), ("every-3", 3), ("every-5", 5), ("every-7", 7), ("every-4096", 4096)] {
            v.push(Sched { label, ch: Chunking::Every(k) });
        }
    }
    for (label, den) in [("random-1/2", 2usize), ("random-1/8", 8)] {
        let cuts: Vec<usize> = (1..n).filter(|_| rng.chance(1, den)).collect();
        v.push(Sched { label, ch: Chunking::Cuts(cuts) });
    }
    let adv = adversarial_positions(bytes);
    if !adv.is_empty() {
        v.push(Sched { label: "adversarial-all", ch: Chunking::Cuts(adv.clone()) });
        for _ in 0..singles.min(adv.len()) {
            let p = *rng.pick(&adv);
            v.push(Sched { label: "adversarial-single", ch: Chunking::Cuts(vec![p]) });
            let mut tri = vec![p.saturating_sub(1).max(1), p, (p + 1).min(n.saturating_sub(1)).max(1)];
            tri.sort_unstable();
            tri.dedup();
            v.push(Sched { label: "adversarial-triple", ch: Chunking::Cuts(tri) });
        }
    }
    v
}

// ------------------------------------------------------------------ borrowing

#[derive(Debug, Deserialize, PartialEq, Eq, PartialOrd, Ord)]
struct CowW<'a>(#[serde(borrow)] Cow<'a, str>);

fn in_range(input: &str, s: &str) -> bool {
    if s.is_empty() {
        return true;
    }
    let a = input.as_ptr() as usize;
    let p = s.as_ptr() as usize;
    p >= a && p + s.len() <= a + input.len()
}

#[derive(Clone, Copy, Debug, PartialEq, Eq)]
enum Shape {
    Root,
    Seq,
    Map,
}

impl Shape {
    fn name(self) -> &'static str {
        match self {
            Shape::Root => "root",
            Shape::Seq => "seq",
            Shape::Map => "map",
        }
    }
}

type SE = serde_saphyr::Error;

/// Flattened observations of one document under one shape.
struct BRes {
    owned: Result<Vec<String>, SE>,
    /// (text, lies inside the input)
    borrowed: Result<Vec<(String, bool)>, SE>,
    borrowed_slice: Result<Vec<(String, bool)>, SE>,
    borrowed_wde: Result<Vec<(String, bool)>, SE>,
    /// (text, Some(in range) when Cow::Borrowed)
    cow: Result<Vec<(String, Option<bool>)>, SE>,
    /// number of &str values obtained through the reader
    reader_borrowed: Result<usize, SE>,
}

fn fo_root(s: String) -> Vec<String> {
    vec![s]
}
fn fo_seq(v: Vec<String>) -> Vec<String> {
    v
}
fn fo_map(m: BTreeMap<String, String>) -> Vec<String> {
    m.into_iter().flat_map(|(k, v)| [k, v]).collect()
}
fn fb_root<'a>(s: &'a str) -> Vec<&'a str> {
    vec![s]
}
fn fb_seq<'a>(v: Vec<&'a str>) -> Vec<&'a str> {
    v
}
fn fb_map<'a>(m: BTreeMap<&'a str, &'a str>) -> Vec<&'a str> {
    m.into_iter().flat_map(|(k, v)| [k, v]).collect()
}
fn fc_root<'a>(s: CowW<'a>) -> Vec<Cow<'a, str>> {
    vec![s.0]
}
fn fc_seq<'a>(v: Vec<CowW<'a>>) -> Vec<Cow<'a, str>> {
    v.into_iter().map(|c| c.0).collect()
}
fn fc_map<'a>(m: BTreeMap<CowW<'a>, CowW<'a>>) -> Vec<Cow<'a, str>> {
    m.into_iter().flat_map(|(k, v)| [k.0, v.0]).collect()
}

macro_rules! borrow_eval {
    ($text:expr, $ch:expr, $O:ty, $B:ty, $C:ty, $fo:ident, $fb:ident, $fc:ident) => {{
        let text: &str = $text;
        let mark = |v: Vec<&str>| v.into_iter().map(|s| (s.to_string(), in_range(text, s))).collect::<Vec<_>>();
        let owned = serde_saphyr::from_str_with_options::<$O>(text, opts(0)).map($fo);
        let borrowed = serde_saphyr::from_str_with_options::<$B>(text, opts(0)).map($fb).map(mark);
        let borrowed_slice = serde_saphyr::from_slice_with_options::<$B>(text.as_bytes(), opts(0)).map($fb).map(mark);
        let borrowed_wde =
            serde_saphyr::with_deserializer_from_str_with_options(text, opts(0), |de| <$B>::deserialize(de)).map($fb).map(mark);
        let cow = serde_saphyr::from_str_with_options::<$C>(text, opts(0)).map($fc).map(|v| {
            v.into_iter()
                .map(|c| match c {
                    Cow::Borrowed(b) => (b.to_string(), Some(in_range(text, b))),
                    Cow::Owned(s) => (s, None),
                })
                .collect::<Vec<_>>()
        });
        let reader_borrowed = {
            let mut r = CutReader::plain(text.as_bytes(), $ch.clone());
            serde_saphyr::with_deserializer_from_reader_with_options(&mut r, opts(0), |de| {
                <$B>::deserialize(de).map(|b| $fb(b).len())
            })
        };
        BRes { owned, borrowed, borrowed_slice, borrowed_wde, cow, reader_borrowed }
    }};
}

fn borrow_run(shape: Shape, text: &str, ch: &Chunking) -> Result<BRes, String> {
    catch(|| match shape {
        Shape::Root => borrow_eval!(text, ch, String, &str, CowW, fo_root, fb_root, fc_root),
        Shape::Seq => borrow_eval!(text, ch, Vec<String>, Vec<&str>, Vec<CowW>, fo_seq, fb_seq, fc_seq),
        Shape::Map => borrow_eval!(
            text,
            ch,
            BTreeMap<String, String>,
            BTreeMap<&str, &str>,
            BTreeMap<CowW, CowW>,
            fo_map,
            fb_map,
            fc_map
        ),
    })
}

#[derive(Clone, Copy, Debug, PartialEq, Eq)]
enum SClass {
    /// single-line plain / single-quoted without '' / double-quoted without \ whose source span is the value
    MustBorrow,
    /// the value does not occur anywhere in the input: borrowing is impossible
    NotVerbatim,
    Unspecified,
}

struct DocInfo {
    classes: Vec<SClass>,
    has_alias_or_tag: bool,
}

/// Classify every scalar of the (BOM-less) document from the raw parser's spans.
fn doc_info(base: &str) -> Option<DocInfo> {
    let root = reftree::parse_one(base)?;
    let mut info = DocInfo { classes: Vec::new(), has_alias_or_tag: false };
    fn go(n: &RNode, base: &str, info: &mut DocInfo) {
        use saphyr_parser::ScalarStyle as S;
        match n {
            RNode::Alias { .. } => info.has_alias_or_tag = true,
            RNode::Seq { items, tag, anchor, .. } => {
                if tag.is_some() || *anchor != 0 {
                    info.has_alias_or_tag = true;
                }
                items.iter().for_each(|i| go(i, base, info));
            }
            RNode::Map { entries, tag, anchor, .. } => {
                if tag.is_some() || *anchor != 0 {
                    info.has_alias_or_tag = true;
                }
                for (k, v) in entries {
                    go(k, base, info);
                    go(v, base, info);
                }
            }
            RNode::Scalar { value, style, tag, anchor, pos } => {
                if tag.is_some() || *anchor != 0 {
                    info.has_alias_or_tag = true;
                }
                let mut class = SClass::Unspecified;
                if !value.is_empty() {
                    if !base.contains(value.as_str()) {
                        class = SClass::NotVerbatim;
                    } else if let (Some(b), Some(e)) = (pos.byte, pos.end_byte)
                        && b <= e
                        && e <= base.len()
                        && base.is_char_boundary(b)
                        && base.is_char_boundary(e)
                    {
                        let span = &base[b..e];
                        let single_line = !span.contains(['\n', '\r']);
                        let verbatim = match style {
                            S::Plain => span == value,
                            S::SingleQuoted => !value.contains('\'') && span.len() == value.len() + 2 && &span[1..span.len() - 1] == value && span.starts_with('\'') && span.ends_with('\''),
                            S::DoubleQuoted => !span.contains('\\') && span.len() == value.len() + 2 && &span[1..span.len() - 1] == value && span.starts_with('"') && span.ends_with('"'),
                            _ => false,
                        };
                        if single_line && verbatim {
                            class = SClass::MustBorrow;
                        }
                    }
                }
                info.classes.push(class);
            }
        }
    }
    go(&root, base, &mut info);
    Some(info)
}

fn same_err(a: &SE, b: &SE) -> bool {
    kind(a) == kind(b) && line_col(a) == line_col(b)
}

fn check_borrow(run: &Run, l: &mut Local, shape: Shape, base: &str, bom: bool, ch: &Chunking) {
    let text = if bom { format!("{BOM}{base}") } else { base.to_string() };
    let case = || json!({"section": "borrow", "text": base, "bom": bom, "shape": shape.name(), "chunking": ch.to_json()});
    run.evals(6);
    let r = match borrow_run(shape, &text, ch) {
        Ok(r) => r,
        Err(p) => {
            run.violation_capped(&format!("C09:panic:{}", panic_site(&p)), case(), p);
            return;
        }
    };
    run.nontrivial(fnv_parts(&[b"borrow", base.as_bytes(), &[bom as u8], shape.name().as_bytes()]));
    let sfx = if bom { ":bom" } else { "" };
    let info = doc_info(base);

    // --- Cow<str> always equals String
    match (&r.owned, &r.cow) {
        (Ok(w), Ok(c)) => {
            let cs: Vec<&String> = c.iter().map(|(s, _)| s).collect();
            let ws: Vec<&String> = w.iter().collect();
            if cs != ws {
                run.violation_capped(&format!("C09:borrow:cow-differs-from-string:value{sfx}"), case(), format!("String: {w:?} | Cow: {c:?}"));
            } else if c.iter().any(|(_, b)| *b == Some(false)) {
                run.violation_capped(&format!("C09:borrow:cow-borrowed-outside-input{sfx}"), case(), format!("Cow: {c:?}"));
            } else {
                l.add("borrow_cow_equals_string", 1);
                l.add("borrow_cow_values_borrowed", c.iter().filter(|(_, b)| b.is_some()).count() as u64);
                l.add("borrow_cow_values_owned", c.iter().filter(|(_, b)| b.is_none()).count() as u64);
            }
        }
        (Err(a), Err(b)) => {
            if !same_err(a, b) {
                run.violation_capped(
                    &format!("C09:borrow:cow-differs-from-string:error:{}-vs-{}{sfx}", kind(a), kind(b)),
                    case(),
                    format!("String: {} @ {:?} | Cow: {} @ {:?}", kind(a), line_col(a), kind(b), line_col(b)),
                );
            } else {
                l.add("borrow_cow_equals_string_err", 1);
            }
        }
        (a, b) => run.violation_capped(
            &format!("C09:borrow:cow-differs-from-string:{}{sfx}", if a.is_ok() { "ok-vs-err" } else { "err-vs-ok" }),
            case(),
            format!("String: {:?} | Cow: {:?}", a.as_ref().map_err(kind), b.as_ref().map_err(kind)),
        ),
    }

    // --- &str through the three in-memory entry points must agree with each other
    for (name, other) in [("from_slice", &r.borrowed_slice), ("with_de_str", &r.borrowed_wde)] {
        let same = match (&r.borrowed, other) {
            (Ok(a), Ok(b)) => a == b,
            (Err(a), Err(b)) => same_err(a, b),
            _ => false,
        };
        if !same {
            run.violation_capped(
                &format!("C09:borrow:{name}-differs-from-from_str{sfx}"),
                case(),
                format!("from_str: {:?} | {name}: {:?}", r.borrowed.as_ref().map_err(kind), other.as_ref().map_err(kind)),
            );
        }
    }

    // --- &str vs String
    match (&r.owned, &r.borrowed) {
        (Err(_), Ok(b)) => run.violation_capped(&format!("C09:borrow:str-ok-but-string-err{sfx}"), case(), format!("&str: {b:?}")),
        (Err(_), Err(_)) => l.add("borrow_both_err", 1),
        (Ok(w), Ok(b)) => {
            let bs: Vec<&String> = b.iter().map(|(s, _)| s).collect();
            let ws: Vec<&String> = w.iter().collect();
            if bs != ws {
                run.violation_capped(&format!("C09:borrow:str-differs-from-string{sfx}"), case(), format!("String: {w:?} | &str: {b:?}"));
            } else if b.iter().any(|(_, inr)| !*inr) {
                run.violation_capped(&format!("C09:borrow:str-not-a-subslice-of-input{sfx}"), case(), format!("&str: {b:?}"));
            } else {
                l.add("borrow_str_ok_subslice_and_equal", 1);
                l.add("borrow_str_values_checked", b.len() as u64);
                if let Some(i) = &info
                    && i.classes.iter().any(|c| *c == SClass::NotVerbatim)
                {
                    // cannot happen together with the sub-slice check; kept as an explicit monitor
                    run.violation_capped(&format!("C09:borrow:must-fail-accepted{sfx}"), case(), format!("&str: {b:?}"));
                }
            }
        }
        (Ok(w), Err(e)) => {
            let k = kind(e);
            match &info {
                None => {
                    run.count("unspecified/borrow-raw-parse-not-one-document", 1);
                }
                Some(i) if i.has_alias_or_tag => {
                    run.count("unspecified/borrow-alias-anchor-or-tag", 1);
                }
                Some(i) => {
                    if k != "CannotBorrowTransformedString" {
                        run.violation_capped(
                            &format!("C09:borrow:wrong-error-kind:{k}{sfx}"),
                            case(),
                            format!("String: {w:?} | &str: Err({k}) {}", e.without_snippet()),
                        );
                    } else if !i.classes.is_empty() && i.classes.iter().all(|c| *c == SClass::MustBorrow) {
                        run.violation_capped(
                            &format!("C09:borrow:must-borrow-refused{sfx}"),
                            case(),
                            format!("every scalar is verbatim single-line plain/quoted, String: {w:?} | &str: Err({k})"),
                        );
                    } else if i.classes.iter().any(|c| *c == SClass::NotVerbatim) {
                        l.add("borrow_must_fail_refused_with_dedicated_error", 1);
                    } else {
                        run.count("unspecified/borrow-verbatim-undetermined (block scalar, empty string, multi-line)", 1);
                    }
                }
            }
        }
    }
    if let (Some(i), Ok(_)) = (&info, &r.borrowed)
        && !i.classes.is_empty()
        && i.classes.iter().all(|c| *c == SClass::MustBorrow)
    {
        l.add("borrow_must_borrow_succeeded", 1);
    }

    // --- reader never lends
    match &r.reader_borrowed {
        Ok(n) if *n > 0 => run.violation_capped(
            &format!("C09:borrow:reader-lent{sfx}"),
            case(),
            format!("with_deserializer_from_reader produced {n} borrowed &str value(s)"),
        ),
        Ok(_) => l.add("borrow_reader_ok_without_strings", 1),
        Err(e) => {
            l.add("borrow_reader_refused", 1);
            if let Ok(w) = &r.owned
                && !w.is_empty()
            {
                l.kinds.insert(format!("reader-borrow:{}", kind(e)));
            }
        }
    }
}

// ------------------------------------------------------------------ replay

fn replay(run: &Run, case: &Value) {
    let base = case["text"].as_str().unwrap_or("").to_string();
    let bom = case["bom"].as_bool().unwrap_or(false);
    let ch = Chunking::from_json(&case["chunking"]);
    let mut l = Local::default();
    if case["section"].as_str() == Some("utf16") {
        let t = targets::by_name(case["target"].as_str().unwrap_or("Val")).unwrap_or(targets::by_name("Val").unwrap());
        let optv = case["opts"].as_u64().unwrap_or(0) as usize;
        let le = case["wire"].as_str() != Some("utf-16be");
        let e = Entry::from_name(case["entry"].as_str().unwrap_or("from_reader"));
        if let Ok(o) = catch(|| (t.from_str)(&base, opts(optv))) {
            let bytes = extra::utf16_bytes(&base, le);
            extra::compare_wire(run, &mut l, &base, le, &bytes, t, optv, &canon(&o), e, "replay", &ch, 0);
        }
        return;
    }
    if case["section"].as_str() == Some("stream") {
        let t = targets::by_name(case["target"].as_str().unwrap_or("Val")).unwrap_or(targets::by_name("Val").unwrap());
        let optv = case["opts"].as_u64().unwrap_or(0) as usize;
        extra::check_stream(run, &mut l, &base, t, optv, &[Sched { label: "replay", ch }]);
        return;
    }
    if case["section"].as_str() == Some("finalisation") {
        let t = targets::by_name(case["target"].as_str().unwrap_or("Val")).unwrap_or(targets::by_name("Val").unwrap());
        finalisation::check_final(run, &mut l, &base, t, case["fopts"].as_u64().unwrap_or(0) as usize, &[ch]);
        return;
    }
    if case["section"].as_str() == Some("borrow") {
        let shape = match case["shape"].as_str() {
            Some("root") => Shape::Root,
            Some("map") => Shape::Map,
            _ => Shape::Seq,
        };
        check_borrow(run, &mut l, shape, &base, bom, &ch);
        return;
    }
    let t = targets::by_name(case["target"].as_str().unwrap_or("Val")).unwrap_or(targets::by_name("Val").unwrap());
    let optv = case["opts"].as_u64().unwrap_or(0) as usize;
    let e = Entry::from_name(case["entry"].as_str().unwrap_or("from_str"));
    let reference = match catch(|| (t.from_str)(&base, opts(optv))) {
        Ok(o) => canon(&o),
        Err(p) => {
            run.violation_capped(&format!("C09:panic:{}", panic_site(&p)), case.clone(), p);
            return;
        }
    };
    let text = if bom { format!("{BOM}{base}") } else { base.clone() };
    compare_one(run, &mut l, "replay", &base, &text, bom, t, optv, &reference, e, "replay", &ch);
}

// ------------------------------------------------------------------ main

const TARGETS_QUICK: &[&str] = &["Val", "json", "VecString", "MapStrVal", "Mixed", "String"];
const TARGETS_PART: &[&str] = &["Val", "VecString", "MapStrVal", "Mixed", "json"];

fn target_list(names: &[&str]) -> Vec<&'static Target> {
    names.iter().filter_map(|n| targets::by_name(n)).collect()
}

fn main() {
    let run = Run::from_args("C09");
    if let Some(rep) = run.is_replay() {
        replay(&run, &rep["case"]);
        run.finish(Finish::new("replay"));
    }
    let tier = run.tier;
    let thorough = tier == Tier::Thorough;
    let general_targets: Vec<&'static Target> =
        if thorough { targets::all().iter().collect() } else { target_list(TARGETS_QUICK) };
    let part_targets = target_list(TARGETS_PART);
    let val_t = targets::by_name("Val").unwrap();
    // development aid: C09_SECTIONS=1,3 runs only those sections (default: all)
    let only: Option<Vec<usize>> =
        std::env::var("C09_SECTIONS").ok().map(|s| s.split(',').filter_map(|x| x.trim().parse().ok()).collect());
    let on = |k: usize| only.as_ref().is_none_or(|v| v.contains(&k));

    // ================= 1. all 2^(n-1) partitions of short inputs
    let bound = tier.pick(16usize, 20usize);
    let shorts: Vec<String> = corpus::short_inputs().into_iter().filter(|s| s.len() <= bound && s.len() >= 2).collect();
    run.count("partition_inputs", shorts.len() as u64);
    // work items: (input index, with bom?, mask block)
    let mut items: Vec<(usize, bool, u64, u64)> = Vec::new();
    for (i, s) in shorts.iter().enumerate() {
        for bom in [false, true] {
            let n = s.len() + if bom { 3 } else { 0 };
            if n > bound || (bom && s.starts_with(BOM)) {
                continue;
            }
            let total: u64 = 1u64 << (n - 1);
            let block = 1024u64;
            let mut lo = 0;
            while lo < total {
                items.push((i, bom, lo, (lo + block).min(total)));
                lo += block;
            }
        }
    }
    par_range(if on(1) { items.len() } else { 0 }, |ix| {
        let (i, bom, lo, hi) = items[ix];
        let base = &shorts[i];
        let text = if bom { format!("{BOM}{base}") } else { base.clone() };
        let mut l = Local::default();
        if text.len() > 14 {
            l.mask_shift = (text.len() - 14) as u32 + 2;
        }
        for t in &part_targets {
            let reference = match catch(|| (t.from_str)(base, opts(0))) {
                Ok(o) => canon(&o),
                Err(p) => {
                    run.violation_capped(&format!("C09:panic:{}", panic_site(&p)), json!({"section":"partitions","text":base,"bom":false,"target":t.name,"opts":0,"entry":"from_str","chunking":"whole"}), p);
                    continue;
                }
            };
            if lo == 0 {
                run.eval();
                for e in [Entry::FromStr, Entry::FromSlice, Entry::WithDeStr, Entry::WithDeSlice] {
                    compare_one(&run, &mut l, "partitions", base, &text, bom, t, 0, &reference, e, "-", &Chunking::Whole);
                }
            }
            for m in lo..hi {
                let ch = Chunking::Mask(m);
                for e in [Entry::FromReader, Entry::WithDeReader] {
                    compare_one(&run, &mut l, "partitions", base, &text, bom, t, 0, &reference, e, "all-partitions", &ch);
                }
            }
        }
        l.add("partition_masks_run", (hi - lo) * part_targets.len() as u64);
        if lo == 0 && i % 7 == 0 {
            run.sample(|| json!({"section": "partitions", "text": base, "bom": bom, "partitions": (1u64 << (text.len() - 1)).to_string()}));
        }
        l.flush(&run);
    });

    // ================= 2. token strings: every string over the 28-token alphabet up to length L
    let toks = corpus::TOKENS;
    let max_len = 4usize;
    let mut n_strings = 0usize;
    let mut pow = 1usize;
    let mut offsets = vec![0usize];
    for _ in 1..=max_len {
        pow *= toks.len();
        n_strings += pow;
        offsets.push(n_strings);
    }
    run.count("token_strings", n_strings as u64);
    par_range(if on(2) { n_strings } else { 0 }, |ix| {
        // decode ix -> (len, digits)
        let len = (1..=max_len).find(|l| ix < offsets[*l]).unwrap();
        let mut k = ix - offsets[len - 1];
        let mut s = String::new();
        for _ in 0..len {
            s.push_str(toks[k % toks.len()]);
            k /= toks.len();
        }
        let mut l = Local::default();
        let mut rng = Rng::stream(run.seed, ix as u64 ^ 0x7001);
        // quick: every string of <= 3 tokens and a seeded half of the 4-token strings
        if len == 4 && !thorough && rng.below(2) != 0 {
            return;
        }
        if len == 4 {
            l.mask_shift = 3;
            l.add("token_strings_of_4_tokens_run", 1);
        }
        let n = s.len();
        let mut scheds = vec![Sched { label: "every-1", ch: Chunking::Every(1) }];
        if n <= 8 && n >= 2 && (len <= 3 || thorough) {
            // all partitions of short token strings (at most 128 each)
            for m in 1..(1u64 << (n - 1)) {
                scheds.push(Sched { label: "all-partitions", ch: Chunking::Mask(m) });
            }
            l.add("token_strings_with_all_partitions", 1);
        } else {
            scheds.push(Sched { label: "every-2", ch: Chunking::Every(2) });
            scheds.push(Sched { label: "every-3", ch: Chunking::Every(3) });
            let cuts: Vec<usize> = (1..n).filter(|_| rng.bool()).collect();
            scheds.push(Sched { label: "random-1/2", ch: Chunking::Cuts(cuts) });
            scheds.push(Sched { label: "adversarial-all", ch: Chunking::Cuts(adversarial_positions(s.as_bytes())) });
        }
        let bom_scheds = [Sched { label: "every-1", ch: Chunking::Every(1) }, Sched { label: "every-2", ch: Chunking::Every(2) }];
        let with_bom = len <= 3 || ix % 5 == 0;
        check_text(&run, &mut l, "tokens", &s, with_bom, val_t, 0, &scheds, &bom_scheds);
        // a typed target with one reader schedule
        let t2 = part_targets[1 + ix % 2];
        check_text(&run, &mut l, "tokens", &s, false, t2, ix % 4, &scheds[..1], &[]);
        if ix % 50_021 == 0 {
            run.sample(|| json!({"section": "tokens", "text": s}));
        }
        l.flush(&run);
    });

    // ================= 3. hand-made documents (failing and otherwise), every target, every option vector
    let hand = corpus::hand_made();
    run.count("hand_made_documents", hand.len() as u64);
    let all_targets: Vec<&'static Target> = targets::all().iter().collect();
    par_range(if on(3) { hand.len() } else { 0 }, |i| {
        let base = &hand[i];
        let mut l = Local::default();
        let mut rng = Rng::stream(run.seed, i as u64 ^ 0x3003);
        let scheds = schedules(base.as_bytes(), &mut rng, 12);
        let with = format!("{BOM}{base}");
        let scheds_bom = schedules(with.as_bytes(), &mut rng, 6);
        for t in &all_targets {
            for optv in 0..4 {
                check_text(&run, &mut l, "hand-made", base, true, t, optv, &scheds, &scheds_bom);
            }
        }
        if i % 5 == 0 {
            run.sample(|| json!({"section": "hand-made", "text": base}));
        }
        l.flush(&run);
    });

    // ================= 4. generated documents, their mutants, and harvested literals
    let harvested = corpus::harvest_repo_tests(std::path::Path::new("/repo/tests"));
    run.count("harvested_literals_total", harvested.len() as u64);
    if harvested.is_empty() {
        run.note("no string literals could be harvested from /repo/tests (optional corpus absent)");
    }
    let n_harvest = if thorough { harvested.len() } else { harvested.len().min(3000) };
    let harvest_pick: Vec<usize> = {
        let mut idx: Vec<usize> = (0..harvested.len()).collect();
        let mut rng = Rng::stream(run.seed, 0x4a11);
        rng.shuffle(&mut idx);
        idx.truncate(n_harvest);
        idx
    };
    let n_gen = tier.pick(400_000usize, 500_000usize);
    let n_items = n_gen + harvest_pick.len();
    par_range(if on(4) { n_items } else { 0 }, |i| {
        let mut rng = Rng::stream(run.seed, i as u64 ^ 0x9009);
        let mut l = Local::default();
        let (section, base): (&'static str, String) = if i < n_gen {
            let d = corpus::random_document(&mut rng);
            match i % 3 {
                0 => ("generated", d),
                1 => ("generated-mutant", corpus::mutate(&d, &mut rng)),
                _ => {
                    let m = corpus::mutate(&d, &mut rng);
                    ("generated-mutant", corpus::mutate(&m, &mut rng))
                }
            }
        } else {
            let h = &harvested[harvest_pick[i - n_gen]];
            if rng.chance(1, 4) { ("harvested-mutant", corpus::mutate(h, &mut rng)) } else { ("harvested", h.clone()) }
        };
        l.add(
            match section {
                "generated" => "docs_generated",
                "generated-mutant" => "docs_generated_mutants",
                "harvested" => "docs_harvested",
                _ => "docs_harvested_mutants",
            },
            1,
        );
        if !base.is_ascii() {
            l.add("docs_with_multibyte", 1);
        }
        if base.contains('\r') {
            l.add("docs_with_cr", 1);
        }
        let singles = if thorough { 6 } else { 3 };
        let scheds = schedules(base.as_bytes(), &mut rng, singles);
        let with_bom = i % 3 == 0;
        let scheds_bom = if with_bom { schedules(format!("{BOM}{base}").as_bytes(), &mut rng, 1) } else { Vec::new() };
        // two targets per document in quick (rotating), all in thorough for a third of the documents
        let n_t = if thorough && i % 6 == 0 { general_targets.len() } else { 2 };
        for j in 0..n_t {
            let t = general_targets[(i + j * 5) % general_targets.len()];
            let optv = if j == 0 { 0 } else { (i / 7 + j) % 4 };
            check_text(&run, &mut l, section, &base, with_bom, t, optv, &scheds, &scheds_bom);
        }
        if i % 2503 == 0 {
            run.sample(|| json!({"section": section, "text": base.chars().take(400).collect::<String>()}));
        }
        l.flush(&run);
    });

    // ================= 5. large multi-byte documents: BufReader (8 KiB) boundaries fall inside characters
    let n_large = tier.pick(24usize, 96usize);
    par_range(if on(5) { n_large } else { 0 }, |i| {
        let mut rng = Rng::stream(run.seed, i as u64 ^ 0x1a46e);
        let mut l = Local::default();
        let base = corpus::large_multibyte_document(i, &mut rng);
        let scheds = schedules(base.as_bytes(), &mut rng, 2);
        let sb = [Sched { label: "whole", ch: Chunking::Whole }, Sched { label: "every-4096", ch: Chunking::Every(4096) }];
        for t in [val_t, targets::by_name("VecString").unwrap(), targets::by_name("MapStrVal").unwrap()] {
            check_text(&run, &mut l, "large-multibyte", &base, true, t, 0, &scheds, &sb);
        }
        l.add("docs_large_multibyte", 1);
        l.flush(&run);
    });

    // ================= 6. invalid UTF-8: unspecified (no verdict), only executed for totality
    for bad in corpus::invalid_utf8() {
        for t in [val_t] {
            let r = catch(|| {
                let a = (t.from_slice)(&bad, opts(0));
                let mut rd = CutReader::plain(&bad, Chunking::Every(1));
                let b = (t.from_reader)(&mut rd, opts(0));
                (a.err().map(|e| kind(&e)), b.err().map(|e| kind(&e)))
            });
            run.evals(2);
            match r {
                Ok((a, b)) => {
                    run.count("unspecified/invalid-utf8", 1);
                    run.observe("invalid_utf8_outcomes(from_slice|from_reader)", &format!("{a:?}|{b:?}"));
                }
                Err(p) => run.violation_capped(
                    &format!("C09:panic:{}", panic_site(&p)),
                    json!({"section":"invalid-utf8","bytes": bad}),
                    p,
                ),
            }
        }
    }

    // ================= 8. finalisation: breaches evaluated at the end of the stream, budget reports
    let fdocs: Vec<String> = {
        let mut v = finalisation::documents();
        v.extend(hand.iter().cloned());
        v
    };
    run.count("finalisation_documents", fdocs.len() as u64);
    let ftargets = target_list(&["Val", "VecString", "MapStrVal", "Ignored", "json"]);
    par_range(if on(8) { fdocs.len() * 5 } else { 0 }, |ix| {
        let mut l = Local::default();
        let text = &fdocs[ix / 5];
        let fv = ix % 5;
        let chunkings = [Chunking::Every(1), Chunking::Whole, Chunking::Every(7)];
        for (j, t) in ftargets.iter().enumerate() {
            if !thorough && j >= 2 && (ix + j) % 2 == 0 {
                continue;
            }
            finalisation::check_final(&run, &mut l, text, t, fv, &chunkings);
        }
        if ix % 101 == 0 {
            run.sample(|| json!({"section": "finalisation", "fopts": fv, "text": text.chars().take(200).collect::<String>()}));
        }
        l.flush(&run);
    });
    // generated documents with anchors/aliases under the tightened ratio vectors
    let n_fgen = tier.pick(4000usize, 40_000usize);
    par_range(if on(8) { n_fgen } else { 0 }, |i| {
        let mut rng = Rng::stream(run.seed, i as u64 ^ 0xf17a1);
        let mut l = Local::default();
        let mut text = corpus::random_document(&mut rng);
        if !text.contains('*') {
            // make sure aliases occur: wrap into a sequence with an anchored head and some aliases
            let m = rng.range(1, 6);
            let mut s = String::from("- &zz head\n");
            for _ in 0..m {
                s.push_str("- *zz\n");
            }
            if rng.bool() {
                text = s;
            }
        }
        let fv = 1 + rng.below(3);
        let cuts: Vec<usize> = (1..text.len()).filter(|_| rng.chance(1, 4)).collect();
        let chunkings = [Chunking::Every(1), Chunking::Cuts(cuts)];
        let t = ftargets[i % ftargets.len()];
        finalisation::check_final(&run, &mut l, &text, t, fv, &chunkings);
        l.add("final_generated_documents", 1);
        l.flush(&run);
    });

    // ================= 9. the same text as UTF-16 LE / BE (with BOM) through the reader entry points
    let u16_targets = target_list(&["Val", "VecString", "MapStrVal", "Mixed"]);
    let n_u16_short = shorts.iter().filter(|s| s.len() <= 16).count();
    par_range(if on(9) { n_u16_short + hand.len() } else { 0 }, |i| {
        let mut l = Local::default();
        let mut rng = Rng::stream(run.seed, i as u64 ^ 0x1616);
        // all partitions of the UTF-16 form for short inputs (BOM + 2 bytes per unit <= bound)
        let all_up_to = tier.pick(14usize, 18usize);
        if i < n_u16_short {
            let text = shorts.iter().filter(|s| s.len() <= 16).nth(i).unwrap();
            if text.contains('\u{FEFF}') {
                return;
            }
            for t in &u16_targets[..3] {
                extra::check_utf16(&run, &mut l, text, t, 0, &mut rng, all_up_to);
            }
        } else {
            let text = &hand[i - n_u16_short];
            if text.trim_start_matches(BOM).contains('\u{FEFF}') {
                run.count("unspecified/utf16-text-with-inner-bom", 1);
                return;
            }
            for t in &u16_targets {
                for optv in [0usize, 1, 3] {
                    extra::check_utf16(&run, &mut l, text, t, optv, &mut rng, 0);
                }
            }
        }
        l.add("utf16_texts", 1);
        l.flush(&run);
    });
    let n_u16_gen = tier.pick(80_000usize, 300_000usize);
    par_range(if on(9) { n_u16_gen } else { 0 }, |i| {
        let mut l = Local::default();
        let mut rng = Rng::stream(run.seed, i as u64 ^ 0x16160);
        let mut text = corpus::random_document(&mut rng);
        if i % 2 == 1 {
            text = corpus::mutate(&text, &mut rng);
        }
        if text.contains('\u{FEFF}') {
            return;
        }
        let t = u16_targets[i % u16_targets.len()];
        extra::check_utf16(&run, &mut l, &text, t, if i % 5 == 0 { 1 } else { 0 }, &mut rng, 0);
        l.add("utf16_texts", 1);
        l.flush(&run);
    });

    // ================= 10. the streaming iterator as one more reader entry point
    let st_targets = target_list(&["Val", "MapStrVal", "VecString", "String", "json"]);
    let n_streams = tier.pick(200_000usize, 600_000usize);
    par_range(if on(10) { n_streams + hand.len() } else { 0 }, |i| {
        let mut l = Local::default();
        let mut rng = Rng::stream(run.seed, i as u64 ^ 0x57e4);
        let text = if i < hand.len() { hand[i].clone() } else { extra::random_stream(&mut rng) };
        let scheds = schedules(text.as_bytes(), &mut rng, 2);
        let n_t = if i < hand.len() { st_targets.len() } else { 1 };
        for j in 0..n_t {
            let t = st_targets[(i + j) % st_targets.len()];
            extra::check_stream(&run, &mut l, &text, t, if i % 4 == 0 { 3 } else { 0 }, &scheds);
        }
        l.add("stream_texts", 1);
        if i % 4001 == 0 {
            run.sample(|| json!({"section": "stream", "text": text.chars().take(300).collect::<String>()}));
        }
        l.flush(&run);
    });

    // ================= 11. readers that report ErrorKind::Interrupted: outside the statement, observed only
    if on(11) {
        for text in hand.iter() {
            extra::observe_interrupted(&run, text, val_t);
        }
    }

    // ================= 7. borrowing
    let leaves = corpus::borrow_leaves();
    run.count("borrow_leaf_alphabet", leaves.len() as u64);
    let max_k = 4usize;
    let nl = leaves.len();
    let mut seqs = 0usize;
    let mut boff = vec![0usize];
    let mut p = 1usize;
    for _ in 1..=max_k {
        p *= nl;
        seqs += p;
        boff.push(seqs);
    }
    // every sequence of <= 3 leaves, plus a seeded sample of the 4-leaf sequences
    let _ = seqs;
    let n_b = boff[3] + tier.pick(20_000usize, 250_000usize);
    par_range(if on(7) { n_b } else { 0 }, |ix| {
        let mut l = Local::default();
        let mut rng = Rng::stream(run.seed, ix as u64 ^ 0xb0b0);
        let ix2 = if ix < boff[3] { ix } else { boff[3] + rng.below(boff[4] - boff[3]) };
        let len = (1..=max_k).find(|l| ix2 < boff[*l]).unwrap();
        let mut k = ix2 - boff[len - 1];
        let mut picked: Vec<Node> = Vec::new();
        for _ in 0..len {
            picked.push(leaves[k % nl].clone());
            k /= nl;
        }
        let mut docs: Vec<(Shape, Node)> = Vec::new();
        if len == 1 {
            docs.push((Shape::Root, picked[0].clone()));
        }
        docs.push((Shape::Seq, Node::seq(picked.clone())));
        docs.push((Shape::Seq, Node::fseq(picked.clone())));
        let entries: Vec<(Node, Node)> = picked.iter().enumerate().map(|(i, n)| (Node::plain(&format!("k{}", i + 1)), n.clone())).collect();
        docs.push((Shape::Map, Node::map(entries.clone())));
        docs.push((Shape::Map, Node::fmap(entries)));
        if len <= 2 {
            // leaves in key position
            let kentries: Vec<(Node, Node)> = picked.iter().enumerate().map(|(i, n)| (n.clone(), Node::plain(&format!("v{}", i + 1)))).collect();
            docs.push((Shape::Map, Node::map(kentries.clone())));
            docs.push((Shape::Map, Node::fmap(kentries)));
        }
        for (shape, node) in docs {
            for brk in ["\n", "\r\n"] {
                if brk == "\r\n" && ix % 4 != 0 {
                    continue;
                }
                let ro = RenderOpts { indent: 2, brk, compact: true };
                let base = ydoc::render(&node, &ro).text;
                let ch = match ix % 3 {
                    0 => Chunking::Every(1),
                    1 => Chunking::Every(3),
                    _ => Chunking::Whole,
                };
                check_borrow(&run, &mut l, shape, &base, false, &ch);
                if ix % 3 == 0 {
                    check_borrow(&run, &mut l, shape, &base, true, &ch);
                }
                if ix % 1511 == 0 {
                    run.sample(|| json!({"section": "borrow", "shape": shape.name(), "text": base}));
                }
            }
        }
        l.flush(&run);
    });
    // borrowing on hand-written documents too (comments, indentation, anchors …)
    for (shape, base) in corpus::borrow_hand_made() {
        let mut l = Local::default();
        for bom in [false, true] {
            check_borrow(&run, &mut l, shape_of(shape), base, bom, &Chunking::Every(1));
        }
        l.flush(&run);
    }

    let _ = Style::Plain;
    let scope = format!(
        "(a) all 2^(n-1) partitions of each of the {} listed short inputs of <= {bound} bytes (and of their BOM-prefixed variants that still fit the bound) into read calls, x {{from_reader, with_deserializer_from_reader}} x targets {{Val, VecString, MapStrVal, Mixed, json}}; (b) {} over the 28-token alphabet, all 2^(n-1) partitions for those of <= {} tokens and <= 8 bytes (target Val); (c) borrowing: every sequence of <= 3 leaves over the {}-leaf scalar alphabet x {{root, block/flow seq, block/flow map values, map keys}}; (d) UTF-16 LE and BE forms of the short inputs whose encoded length is <= {} bytes: all partitions (splits inside code units and surrogate pairs included); (e) finalisation: the fixed alias/anchor-ratio document family x 5 budget vectors",
        shorts.len(),
        if thorough { "every string of <= 4 tokens" } else { "every string of <= 3 tokens and a seeded half of the 4-token strings" },
        if thorough { 4 } else { 3 },
        leaves.len(),
        tier.pick(14, 18)
    );
    let fin = Finish::new(
        "a reader case is non-trivial when the instrumented reader delivered data in >= 2 read calls (a real split happened), distinct by hash(text, bom, options, target, entry point, exact cut set) — in the all-partitions sweeps of inputs above 14 bytes (and of 4-token strings, and of UTF-16 forms) one hash stands for a block of 2^k consecutive partition masks, so the count is a lower bound there; the same rule for the UTF-16 forms and for the streaming iterator as an entry point; a borrowing case always is (the target borrows), distinct by hash(text, bom, shape)",
    )
    .exhaustive(scope)
    .assume("reference outcome = from_str_with_options on the BOM-less text; errors compared by variant name of without_snippet() and (line, column); byte offsets not compared")
    .assume("instrumented readers never return Ok(0) before the end of data and never ErrorKind::Interrupted")
    .assume("invalid UTF-8 is unspecified (executed, no verdict); readers reporting ErrorKind::Interrupted are outside 'every partition of the bytes into read calls' (executed, counted, no verdict)")
    .assume("UTF-16 input with a byte-order mark is decoded by the reader path (documented in buffered_input.rs); its result is compared with from_str on the same text; texts containing U+FEFF are left out")
    .assume("iterator vs from_multiple only under option vectors without a tightened budget (the iterator enforces the budget per document)")
    .assume("borrowing: must-borrow only for single-line plain / single-quoted without '' / double-quoted without backslash scalars whose raw-parser span equals the value; documents with anchors, aliases or tags give no must-borrow verdict; block scalars and empty strings are unspecified for must-borrow")
    .min_nontrivial(tier.pick(1_000_000, 10_000_000));
    run.finish(fin);
}

fn shape_of(s: &str) -> Shape {
    match s {
        "root" => Shape::Root,
        "map" => Shape::Map,
        _ => Shape::Seq,
    }
}
