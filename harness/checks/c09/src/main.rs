use std::borrow::Cow;
use std::collections::BTreeMap;
use vcore::errs::{kind, line_col};
use vcore::rdr::{Chunking, CutReader, RFault};
use vcore::targets;

fn show(o: &targets::Outcome) -> String {
    match o {
        Ok(v) => format!("Ok({v})"),
        Err(e) => format!("Err({} @ {:?})", kind(e), line_col(e)),
    }
}

#[derive(Debug, serde::Deserialize)]
struct B<'a> {
    #[serde(borrow)]
    k1: Cow<'a, str>,
    k2: &'a str,
}

fn main() {
    let docs = [
        "a: 1\n",
        "\u{FEFF}a: 1\n",
        "\u{FEFF}a: [\n",
        "a: [\n",
        "é: [\n",
        "\u{FEFF}é: é: [\n",
        "é: é: [\n",
        "a: 1\r\nb: [\r\n",
        "a: 1\rb: [\r",
        "a:\t1\n\tb: 2\n",
        "a\0b\n",
        "- a\0\n- b\n",
        "- *x\n",
        "a\n---\nb\n",
        "\"\\xZZ\"",
        "k: \"é\\q\"",
        "'abc",
    ];
    for t in ["Val", "VecString"] {
        let t = targets::by_name(t).unwrap();
        for d in docs {
            let o = || serde_saphyr::Options::default();
            let a = (t.from_str)(d, o());
            let mut r = CutReader::plain(d.as_bytes(), Chunking::Every(1));
            let b = (t.from_reader)(&mut r, o());
            let mut r = CutReader::plain(d.as_bytes(), Chunking::Every(1));
            let c = (t.with_de_reader)(&mut r, o());
            let fl = if show(&a) != show(&b) || show(&a) != show(&c) { "DIFF" } else { "" };
            println!("{:?} [{}] str={} rdr={} wdr={} {}", d, t.name, show(&a), show(&b), show(&c), fl);
        }
    }
    // truncated char with and without BOM
    for d in ["a: é\n", "\u{FEFF}a: é\n", "é", "\u{FEFF}é"] {
        let bytes = d.as_bytes();
        let k = d.find('é').unwrap() + 1;
        let t = targets::by_name("Val").unwrap();
        let mut r = CutReader::new(bytes, Chunking::Every(1), RFault::EofAfterBytes(k));
        let b = (t.from_reader)(&mut r, serde_saphyr::Options::default());
        println!("trunc {:?} k={k} -> {} {}", d, show(&b), b.as_ref().err().map(|e| e.to_string()).unwrap_or_default());
    }
    // borrow
    for d in [
        "k1: abc\nk2: def\n",
        "k1: \"a\\tb\"\nk2: def\n",
        "k1: abc\nk2: \"d\\tf\"\n",
        "k1: abc\nk2: 'd''f'\n",
        "k1: abc\nk2: 'df'\n",
        "k1: abc\nk2: \"df\"\n",
        "k1: abc\nk2: d\n  f\n",
        "k1: abc\nk2: |\n  df\n",
        "k1: abc\nk2: \"\"\n",
        "k1: &a abc\nk2: *a\n",
        "{k1: abc, k2: def}",
        "k1: abc\nk2: ~\n",
    ] {
        let r: Result<B, _> = serde_saphyr::from_str(d);
        match r {
            Ok(b) => println!(
                "borrow {:?} -> k1 borrowed={} k2={:?} in_range={}",
                d,
                matches!(b.k1, Cow::Borrowed(_)),
                b.k2,
                {
                    let p = b.k2.as_ptr() as usize;
                    let s = d.as_ptr() as usize;
                    p >= s && p + b.k2.len() <= s + d.len()
                }
            ),
            Err(e) => println!("borrow {:?} -> Err({} @ {:?}) {}", d, kind(&e), line_col(&e), e.without_snippet()),
        }
        let r2 = serde_saphyr::with_deserializer_from_reader(d.as_bytes(), |de| {
            use serde::Deserialize;
            let r: Result<B, _> = B::deserialize(de);
            r.map(|b| format!("{b:?}"))
        });
        println!("    reader: {}", show(&r2));
        let r3: Result<BTreeMap<&str, &str>, _> = serde_saphyr::from_str(d);
        println!("    map<&str,&str>: {}", show(&r3.map(|m| format!("{m:?}"))));
        let r4: Result<Vec<&str>, _> = serde_saphyr::from_str("- abc\n- \"x\\ty\"\n");
        println!("    vec: {}", show(&r4.map(|m| format!("{m:?}"))));
    }
}
