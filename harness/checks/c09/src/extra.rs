//! Further families of C09:
//!  * the same text sent through the reader entry points as UTF-16 LE / BE with a byte-order
//!    mark (the reader path decodes BOM-marked Unicode encodings) under chunkings that split code
//!    units and surrogate pairs: result must be what `from_str` gives on the text;
//!  * the streaming iterator `read_with_options` as one more reader entry point: its items must
//!    not depend on the partition of the bytes, and must agree with `from_multiple`;
//!  * readers that report `ErrorKind::Interrupted` now and then: outside the statement
//!    ("every partition of the bytes into read calls"), observed only.

use super::{Canon, Entry, Local, Sched, canon, diff, opts, show_c};
use serde_json::json;
use std::io::Read;
use vcore::capped::Capped;
use vcore::obs::{catch, panic_site};
use vcore::rdr::{Chunking, CutReader, RUNAWAY_MSG};
use vcore::rng::{Rng, fnv_parts};
use vcore::run::Run;
use vcore::targets::Target;

pub fn utf16_bytes(text: &str, le: bool) -> Vec<u8> {
    let mut out = Vec::with_capacity(2 + 2 * text.len());
    let mut push = |u: u16| out.extend_from_slice(&if le { u.to_le_bytes() } else { u.to_be_bytes() });
    push(0xFEFF);
    for u in text.encode_utf16() {
        push(u);
    }
    out
}

/// Byte offsets that fall inside a UTF-16 code unit or between the halves of a surrogate pair.
pub fn utf16_inner_positions(bytes: &[u8], le: bool) -> Vec<usize> {
    let n = bytes.len();
    (1..n)
        .filter(|k| {
            k % 2 == 1 || (*k >= 4 && {
                let u = if le { u16::from_le_bytes([bytes[k - 2], bytes[k - 1]]) } else { u16::from_be_bytes([bytes[k - 2], bytes[k - 1]]) };
                (0xD800..0xDC00).contains(&u)
            })
        })
        .collect()
}

pub fn utf16_schedules(bytes: &[u8], le: bool, rng: &mut Rng) -> Vec<Sched> {
    let n = bytes.len();
    let mut v = vec![
        Sched { label: "every-1", ch: Chunking::Every(1) },
        Sched { label: "every-2", ch: Chunking::Every(2) },
        Sched { label: "every-3", ch: Chunking::Every(3) },
        Sched { label: "every-7", ch: Chunking::Every(7) },
        Sched { label: "whole", ch: Chunking::Whole },
    ];
    v.push(Sched { label: "utf16-inside-every-unit", ch: Chunking::Cuts(utf16_inner_positions(bytes, le)) });
    v.push(Sched { label: "random-1/2", ch: Chunking::Cuts((1..n).filter(|_| rng.bool()).collect()) });
    v.push(Sched { label: "random-1/8", ch: Chunking::Cuts((1..n).filter(|_| rng.chance(1, 8)).collect()) });
    let inner = utf16_inner_positions(bytes, le);
    for _ in 0..3.min(inner.len()) {
        v.push(Sched { label: "utf16-single-inner-cut", ch: Chunking::Cuts(vec![*rng.pick(&inner)]) });
    }
    v
}

fn run_wire(t: &Target, e: Entry, bytes: &[u8], optv: usize, ch: &Chunking) -> Result<(Canon, usize), String> {
    catch(|| {
        let mut r = CutReader::plain(bytes, ch.clone());
        let dc = r.data_calls_handle();
        let o = match e {
            Entry::WithDeReader => (t.with_de_reader)(&mut r, opts(optv)),
            _ => (t.from_reader)(&mut r, opts(optv)),
        };
        let n = *dc.borrow();
        (canon(&o), n)
    })
}

/// One comparison: `e` on the UTF-16 bytes of `text` under `ch` against `reference` = from_str(text).
#[allow(clippy::too_many_arguments)]
pub fn compare_wire(
    run: &Run,
    l: &mut Local,
    text: &str,
    le: bool,
    bytes: &[u8],
    t: &Target,
    optv: usize,
    reference: &Canon,
    e: Entry,
    label: &'static str,
    ch: &Chunking,
    mask_shift: u32,
) -> bool {
    run.eval();
    let enc = if le { "utf-16le" } else { "utf-16be" };
    let case = || {
        json!({"section": "utf16", "text": text, "bom": false, "wire": enc, "target": t.name, "opts": optv, "entry": e.name(), "schedule": label, "chunking": ch.to_json()})
    };
    match run_wire(t, e, bytes, optv, ch) {
        Err(p) if p.contains(RUNAWAY_MSG) => {
            run.violation_capped(&format!("C09:reader-path-never-returns:{enc}"), case(), p);
            return true;
        }
        Err(p) => run.violation_capped(&format!("C09:panic:{}", panic_site(&p)), case(), p),
        Ok((c, data_calls)) => match diff(reference, &c) {
            Some(d) if super::bare_tag_position_only(text, &d) => run.count("unspecified/bare-tag-handle-error-position", 1),
            Some(d) => run.violation_capped(
                &if let Some(sig) = super::bare_tag_class(text, reference, &c) {
                    sig.to_string()
                } else {
                    format!("C09:{}:{}:{enc}{}", e.name(), d, super::rare_features(text))
                },
                case(),
                format!("from_str on the text: {} | {} on its {enc} bytes: {}", show_c(reference), e.name(), show_c(&c)),
            ),
            None => {
                l.add("utf16_runs_agree", 1);
                if data_calls >= 2 {
                    let key = match ch {
                        Chunking::Mask(m) if mask_shift > 0 => format!("maskblock:{}", m >> mask_shift),
                        _ => ch.to_json().to_string(),
                    };
                    run.nontrivial(fnv_parts(&[b"utf16", text.as_bytes(), &[le as u8, optv as u8], t.name.as_bytes(), e.name().as_bytes(), key.as_bytes()]));
                }
            }
        },
    }
    false
}

pub fn check_utf16(run: &Run, l: &mut Local, text: &str, t: &Target, optv: usize, rng: &mut Rng, all_partitions_up_to: usize) {
    let text = text.trim_start_matches('\u{FEFF}');
    run.eval();
    let reference = match catch(|| (t.from_str)(text, opts(optv))) {
        Ok(o) => canon(&o),
        Err(_) => return, // reported by the main differential
    };
    for le in [true, false] {
        let bytes = utf16_bytes(text, le);
        let n = bytes.len();
        let mut dead = false;
        if n >= 2 && n <= all_partitions_up_to {
            l.add("utf16_inputs_with_all_partitions", 1);
            for m in 0..(1u64 << (n - 1)) {
                for e in [Entry::FromReader, Entry::WithDeReader] {
                    if compare_wire(run, l, text, le, &bytes, t, optv, &reference, e, "all-partitions", &Chunking::Mask(m), 4) {
                        dead = true;
                    }
                }
                if dead {
                    break;
                }
            }
        } else {
            'o: for s in utf16_schedules(&bytes, le, rng) {
                for e in [Entry::FromReader, Entry::WithDeReader] {
                    if compare_wire(run, l, text, le, &bytes, t, optv, &reference, e, s.label, &s.ch, 0) {
                        break 'o;
                    }
                }
            }
        }
    }
}

// ------------------------------------------------------------------ iterator as an entry point

fn iter_items(t: &Target, bytes: &[u8], optv: usize, ch: &Chunking) -> Result<(Vec<Canon>, usize), String> {
    catch(|| {
        let mut r = CutReader::plain(bytes, ch.clone());
        let dc = r.data_calls_handle();
        let items: Vec<Canon> = (t.read_iter)(&mut r, opts(optv), 100_000).iter().map(canon).collect();
        let n = *dc.borrow();
        (items, n)
    })
}

fn show_items(v: &[Canon]) -> String {
    let p: Vec<String> = v.iter().take(6).map(show_c).collect();
    format!("[{}]{}", p.join(", "), if v.len() > 6 { format!(" (+{})", v.len() - 6) } else { String::new() })
}

/// `optv` must be an option vector without a tightened budget: the iterator enforces the budget per
/// document, `from_multiple` over the whole stream.
pub fn check_stream(run: &Run, l: &mut Local, text: &str, t: &Target, optv: usize, scheds: &[Sched]) {
    let case = |entry: &str, ch: &Chunking| json!({"section": "stream", "text": text, "bom": false, "target": t.name, "opts": optv, "entry": entry, "chunking": ch.to_json()});
    run.eval();
    let whole = Chunking::Whole;
    let base = match iter_items(t, text.as_bytes(), optv, &whole) {
        Ok((i, _)) => i,
        Err(p) => {
            let sig = if p.contains(RUNAWAY_MSG) { "C09:read_iter:never-returns".to_string() } else { format!("C09:panic:{}", panic_site(&p)) };
            run.violation_capped(&sig, case("read_iter", &whole), p);
            return;
        }
    };
    // (1) the items do not depend on the partition of the bytes
    for s in scheds {
        run.eval();
        match iter_items(t, text.as_bytes(), optv, &s.ch) {
            Err(p) => {
                let sig = if p.contains(RUNAWAY_MSG) { "C09:read_iter:never-returns".to_string() } else { format!("C09:panic:{}", panic_site(&p)) };
                run.violation_capped(&sig, case("read_iter", &s.ch), p);
                return;
            }
            Ok((items, data_calls)) => {
                if items != base {
                    run.violation_capped(
                        "C09:read_iter:items-depend-on-chunking",
                        case("read_iter", &s.ch),
                        format!("one read call per buffer: {} | {}: {}", show_items(&base), s.label, show_items(&items)),
                    );
                } else {
                    l.add("iter_runs_agree_with_unsplit_run", 1);
                    if data_calls >= 2 {
                        run.nontrivial(fnv_parts(&[b"stream", text.as_bytes(), &[optv as u8], t.name.as_bytes(), s.ch.to_json().to_string().as_bytes()]));
                    }
                }
            }
        }
    }
    // (2) against from_multiple on the same text
    run.eval();
    let Ok(fm) = catch(|| (t.from_multiple)(text, opts(optv))) else { return };
    match &fm {
        Ok(v) => {
            let all_ok: Option<Vec<&String>> = base.iter().map(|c| if let Canon::Ok(s) = c { Some(s) } else { None }).collect();
            match all_ok {
                Some(items) => {
                    let joined = format!("[{}]", items.iter().map(|s| s.as_str()).collect::<Vec<_>>().join(", "));
                    if &joined != v {
                        run.violation_capped(
                            "C09:read_iter:items-differ-from-from_multiple:value",
                            case("read_iter", &whole),
                            format!("from_multiple: {} | read items: {}", v.chars().take(300).collect::<String>(), show_items(&base)),
                        );
                    } else {
                        l.add("iter_equals_from_multiple_ok", 1);
                        if items.len() >= 2 {
                            l.add("iter_equals_from_multiple_ok_with_2+_documents", 1);
                        }
                    }
                }
                None => run.violation_capped(
                    if super::has_bare_tag_handle(text) && base.iter().any(|c| matches!(c, Canon::Err(k, _) if k == "ExternalMessage")) {
                        super::bare_tag_signature(text)
                    } else {
                        "C09:read_iter:items-differ-from-from_multiple:iterator-reports-error"
                    },
                    case("read_iter", &whole),
                    format!("from_multiple: Ok({}) | read items: {}", v.chars().take(200).collect::<String>(), show_items(&base)),
                ),
            }
        }
        Err(e) => {
            if base.iter().any(|c| matches!(c, Canon::Err(..))) {
                l.add("iter_and_from_multiple_both_report_an_error", 1);
            } else {
                run.violation_capped(
                    &format!("C09:read_iter:items-differ-from-from_multiple:only-from_multiple-fails:{}", vcore::errs::kind(e)),
                    case("read_iter", &whole),
                    format!("from_multiple: Err({}) | read items: {}", vcore::errs::kind(e), show_items(&base)),
                );
            }
        }
    }
}

/// Streams of 1..5 documents (some invalid) with `---` / `...` separators.
pub fn random_stream(rng: &mut Rng) -> String {
    let n = rng.range(1, 5);
    let mut s = String::new();
    for i in 0..n {
        if i > 0 || rng.chance(1, 3) {
            if i > 0 && rng.chance(1, 4) {
                s.push_str("...\n");
            }
            s.push_str("---");
            s.push_str(if rng.chance(1, 5) { " " } else { "\n" });
        }
        let mut d = super::corpus::random_body(rng);
        if rng.chance(1, 8) {
            d = super::corpus::mutate(&d, rng);
        }
        if !d.ends_with('\n') && !d.ends_with('\r') {
            d.push('\n');
        }
        s.push_str(&d);
    }
    s
}

// ------------------------------------------------------------------ Interrupted (observed only)

struct IntrReader<'a> {
    inner: CutReader<'a>,
    every: usize,
    calls: usize,
}

impl Read for IntrReader<'_> {
    fn read(&mut self, buf: &mut [u8]) -> std::io::Result<usize> {
        self.calls += 1;
        if self.calls % self.every == 0 {
            return Err(std::io::Error::from(std::io::ErrorKind::Interrupted));
        }
        self.inner.read(buf)
    }
}

pub fn observe_interrupted(run: &Run, text: &str, t: &Target) {
    let Ok(reference) = catch(|| canon(&(t.from_str)(text, opts(0)))) else { return };
    for every in [2usize, 3, 5] {
        for with_de in [false, true] {
            run.eval();
            let r = catch(|| {
                let mut r = IntrReader { inner: CutReader::plain(text.as_bytes(), Chunking::Every(3)), every, calls: 0 };
                canon(&if with_de { (t.with_de_reader)(&mut r, opts(0)) } else { (t.from_reader)(&mut r, opts(0)) })
            });
            match r {
                Ok(c) => {
                    let same = diff(&reference, &c).is_none();
                    run.count(if same { "unspecified/interrupted-reads:same-result" } else { "unspecified/interrupted-reads:different-result" }, 1);
                    if !same && let Canon::Err(k, _) = &c {
                        run.observe("interrupted_reads_outcomes", k);
                    }
                }
                Err(p) => {
                    if !p.contains(RUNAWAY_MSG) {
                        run.violation_capped(&format!("C09:panic:{}", panic_site(&p)), json!({"section": "interrupted", "text": text, "target": t.name}), p);
                    }
                }
            }
        }
    }
}
