//! What only happens when an entry point *finishes*: breaches evaluated at the end of
//! the stream (alias/anchor ratio) and the budget report callback. Every entry point
//! must give the same outcome on the same text, and on success must deliver exactly one
//! budget report with the same fields as `from_str`.

use super::{Canon, Entry, Local, canon, diff, show_c};
use serde_json::json;
use std::cell::RefCell;
use std::rc::Rc;
use vcore::capped::Capped;
use vcore::obs::{catch, panic_site};
use vcore::rdr::{Chunking, CutReader};
use vcore::rng::fnv_parts;
use vcore::run::Run;
use vcore::targets::{Outcome, Target};

type Reports = Rc<RefCell<Vec<String>>>;

/// Option vectors of this section; every one installs a report callback.
pub fn fopts(v: usize, sink: &Reports) -> serde_saphyr::Options {
    let mut o = serde_saphyr::Options::default();
    #[allow(deprecated)]
    {
        let mut b = serde_saphyr::Budget::default();
        match v {
            1 => {
                b.alias_anchor_min_aliases = 2;
                b.alias_anchor_ratio_multiplier = 1;
            }
            2 => {
                b.alias_anchor_min_aliases = 1;
                b.alias_anchor_ratio_multiplier = 0;
            }
            3 => {
                b.alias_anchor_min_aliases = 3;
                b.alias_anchor_ratio_multiplier = 2;
            }
            4 => {
                b.enforce_alias_anchor_ratio = false;
            }
            _ => {}
        }
        o.budget = Some(b);
    }
    let s = sink.clone();
    o.with_budget_report(move |r| s.borrow_mut().push(format!("{r:?}")))
}

struct Obs {
    outcome: Outcome,
    data_calls: usize,
    reports: Vec<String>,
}

fn run_one(t: &Target, e: Entry, text: &str, fv: usize, ch: &Chunking) -> Result<Obs, String> {
    catch(|| {
        let sink: Reports = Default::default();
        let o = fopts(fv, &sink);
        let (outcome, data_calls) = match e {
            Entry::FromStr => ((t.from_str)(text, o), 0),
            Entry::FromSlice => ((t.from_slice)(text.as_bytes(), o), 0),
            Entry::WithDeStr => ((t.with_de_str)(text, o), 0),
            Entry::WithDeSlice => ((t.with_de_slice)(text.as_bytes(), o), 0),
            Entry::FromReader => {
                let mut r = CutReader::plain(text.as_bytes(), ch.clone());
                let dc = r.data_calls_handle();
                let out = (t.from_reader)(&mut r, o);
                let n = *dc.borrow();
                (out, n)
            }
            Entry::WithDeReader => {
                let mut r = CutReader::plain(text.as_bytes(), ch.clone());
                let dc = r.data_calls_handle();
                let out = (t.with_de_reader)(&mut r, o);
                let n = *dc.borrow();
                (out, n)
            }
        };
        let reports = sink.borrow().clone();
        Obs { outcome, data_calls, reports }
    })
}

pub fn check_final(run: &Run, l: &mut Local, text: &str, t: &Target, fv: usize, chunkings: &[Chunking]) {
    let case = |e: Entry, ch: &Chunking| {
        json!({"section": "finalisation", "text": text, "bom": false, "target": t.name, "fopts": fv, "entry": e.name(), "chunking": ch.to_json()})
    };
    run.eval();
    let whole = Chunking::Whole;
    let reference = match run_one(t, Entry::FromStr, text, fv, &whole) {
        Ok(o) => o,
        Err(p) => {
            run.violation_capped(&format!("C09:panic:{}", panic_site(&p)), case(Entry::FromStr, &whole), p);
            return;
        }
    };
    let rc = canon(&reference.outcome);
    match &rc {
        Canon::Ok(_) => {
            l.add("final_reference_ok", 1);
            // the premise of "exactly once on success" is checked on the reference too
            if reference.reports.len() != 1 {
                run.violation_capped(
                    &format!("C09:budget-report:from_str:delivered-{}-times-on-success", reference.reports.len()),
                    case(Entry::FromStr, &whole),
                    format!("from_str succeeded and the budget report callback ran {} times", reference.reports.len()),
                );
                return;
            }
        }
        Canon::Err(k, _) => {
            l.kinds.insert(k.clone());
            if k == "Budget" {
                l.add("final_reference_rejected_by_budget", 1);
                if reference.reports.first().is_some_and(|r| r.contains("AliasAnchorRatio")) {
                    l.add("final_reference_rejected_only_at_finalisation(alias_anchor_ratio)", 1);
                }
            } else {
                l.add("final_reference_other_err", 1);
            }
        }
    }
    let mut plan: Vec<(Entry, &Chunking)> = vec![(Entry::FromSlice, &whole), (Entry::WithDeStr, &whole), (Entry::WithDeSlice, &whole)];
    for ch in chunkings {
        plan.push((Entry::FromReader, ch));
        plan.push((Entry::WithDeReader, ch));
    }
    for (e, ch) in plan {
        run.eval();
        let o = match run_one(t, e, text, fv, ch) {
            Ok(o) => o,
            Err(p) => {
                run.violation_capped(&format!("C09:panic:{}", panic_site(&p)), case(e, ch), p);
                continue;
            }
        };
        let c = canon(&o.outcome);
        if let Some(d) = diff(&rc, &c) {
            if super::bare_tag_position_only(text, &d) {
                run.count("unspecified/bare-tag-handle-error-position", 1);
                continue;
            }
            let reader = matches!(e, Entry::FromReader | Entry::WithDeReader);
            run.violation_capped(
                &match super::bare_tag_class(text, &rc, &c) {
                    Some(sig) if reader => sig.to_string(),
                    _ => format!("C09:{}:{}:finalisation", e.name(), d),
                },
                case(e, ch),
                format!("from_str: {} | {}: {}", show_c(&rc), e.name(), show_c(&c)),
            );
            continue;
        }
        l.add("final_outcomes_agree", 1);
        if o.data_calls >= 2 {
            run.nontrivial(fnv_parts(&[b"final", text.as_bytes(), &[fv as u8], t.name.as_bytes(), e.name().as_bytes(), ch.to_json().to_string().as_bytes()]));
        }
        match &rc {
            Canon::Ok(_) => {
                if o.reports.len() != 1 {
                    run.violation_capped(
                        &format!("C09:budget-report:{}:delivered-{}-times-on-success", e.name(), o.reports.len()),
                        case(e, ch),
                        format!("{} succeeded and the budget report callback ran {} times (from_str: once)", e.name(), o.reports.len()),
                    );
                } else if o.reports != reference.reports {
                    run.violation_capped(
                        &format!("C09:budget-report:{}:fields-differ-from-from_str", e.name()),
                        case(e, ch),
                        format!("from_str: {} | {}: {}", reference.reports[0], e.name(), o.reports[0]),
                    );
                } else {
                    l.add("final_reports_equal_on_success", 1);
                }
            }
            Canon::Err(..) => {
                // whether / what is reported on a failing call is not pinned down by the statement
                if o.reports != reference.reports {
                    run.count("unspecified/budget-report-differs-on-failing-call", 1);
                } else {
                    l.add("final_reports_equal_on_failure", 1);
                }
            }
        }
    }
}

/// Documents around the alias/anchor ratio rule (and a few ordinary ones).
pub fn documents() -> Vec<String> {
    let mut v = Vec::new();
    // default budget: >= 100 aliases and > 10 per anchor
    for n in [98usize, 99, 100, 101, 120] {
        let mut s = String::from("- &a x\n");
        for _ in 0..n {
            s.push_str("- *a\n");
        }
        v.push(s);
    }
    // 10 anchors, 100 / 101 aliases (101 > 10*10)
    for n in [100usize, 101] {
        let mut s = String::new();
        for i in 0..10 {
            s.push_str(&format!("- &a{i} v{i}\n"));
        }
        for j in 0..n {
            s.push_str(&format!("- *a{}\n", j % 10));
        }
        v.push(s);
    }
    // mapping form
    {
        let mut s = String::from("base: &b {k: v}\n");
        for j in 0..110 {
            s.push_str(&format!("m{j}: *b\n"));
        }
        v.push(s);
    }
    // small documents for the tightened vectors: a anchors, m aliases
    for a in 1..=3usize {
        for m in 0..=7usize {
            let mut s = String::new();
            let mut f = String::from("[");
            for i in 0..a {
                s.push_str(&format!("- &x{i} é{i}\n"));
                f.push_str(&format!("&x{i} é{i}, "));
            }
            for j in 0..m {
                s.push_str(&format!("- *x{}\n", j % a));
                f.push_str(&format!("*x{}, ", j % a));
            }
            f.push_str("z]\n");
            v.push(s);
            v.push(f);
            if m > 0 {
                let mut mp = String::new();
                for i in 0..a {
                    mp.push_str(&format!("k{i}: &x{i} [1, 2]\n"));
                }
                for j in 0..m {
                    mp.push_str(&format!("r{j}: *x{}\n", j % a));
                }
                v.push(mp);
            }
        }
    }
    // merge keys, nested aliases, CRLF, trailing document end marker
    v.push("a: &a {k1: 1}\nb:\n  <<: *a\nc:\n  <<: *a\nd: *a\n".into());
    v.push("- &a [&b x, *b]\n- *a\n- *a\n- *b\n".into());
    v.push("- &a x\r\n- *a\r\n- *a\r\n- *a\r\n".into());
    v.push("- &a x\n- *a\n- *a\n...\n".into());
    v.push("- &a x\n- *a\n- *a\n...\ngarbage: [\n".into());
    v.push("--- \n- &a x\n- *a\n- *a\n".into());
    // ordinary documents: the report must still be the same everywhere
    v.push("k1: hello\nk2: 7\nk3: [a, b]\n".into());
    v.push("- 1\n- [2, 3]\n- {a: b}\n".into());
    v.push("plain scalar\n".into());
    v.push("".into());
    v.push("~\n".into());
    v.push("a: [1, 2\n".into());
    v.push("a: 1\n---\nb: 2\n".into());
    v
}
