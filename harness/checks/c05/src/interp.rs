//! Reference interpreter: what must a (type, raw parser tree) pair deserialize to?
//!
//! Works on `vcore::reftree::RNode` (what the raw parser reported), never on the
//! generator's intention. Scalars are not interpreted here: the value of a scalar
//! node for a scalar type is whatever the library returns for that scalar alone
//! as a one-scalar document (`Leaf`), so the verdict isolates *position*
//! faithfulness. Null handling, arity, field names, enum notations and kind
//! mismatches are decided here, independently of the library.

use saphyr_parser::ScalarStyle;
use vcore::reftree::RNode;
use vcore::ty::{EnumTy, Fields, TVal, Ty, VariantTy};

#[derive(Clone, Debug, PartialEq)]
pub enum Expect {
    MustBe(TVal),
    /// reason class (first one met in document order)
    MustErr(&'static str),
    /// unspecified class with a bounded answer: `Err` or exactly this value
    ErrOr(TVal, &'static str),
    /// no verdict
    Unspecified(&'static str),
}

impl Expect {
    fn map(self, f: impl FnOnce(TVal) -> TVal) -> Expect {
        match self {
            Expect::MustBe(v) => Expect::MustBe(f(v)),
            Expect::ErrOr(v, c) => Expect::ErrOr(f(v), c),
            other => other,
        }
    }
}

/// Result of the library on one scalar alone (MustBe / MustErr / Unspecified).
pub trait Leaf {
    fn leaf(&mut self, ty: &Ty, value: &str, style: ScalarStyle, tag: Option<&str>) -> Expect;
}

/// Folds child expectations into the parent's.
#[derive(Default)]
struct Comb {
    err: Option<&'static str>,
    unspec: Option<&'static str>,
    err_or: Option<&'static str>,
    vals: Vec<TVal>,
}

impl Comb {
    fn push(&mut self, e: Expect) {
        match e {
            Expect::MustBe(v) => self.vals.push(v),
            Expect::MustErr(r) => {
                self.err.get_or_insert(r);
                self.vals.push(TVal::Unit);
            }
            Expect::ErrOr(v, c) => {
                self.err_or.get_or_insert(c);
                self.vals.push(v);
            }
            Expect::Unspecified(c) => {
                self.unspec.get_or_insert(c);
                self.vals.push(TVal::Unit);
            }
        }
    }
    fn fail(&mut self, r: &'static str) {
        self.err.get_or_insert(r);
    }
    fn unspecified(&mut self, c: &'static str) {
        self.unspec.get_or_insert(c);
    }
    fn finish(self, f: impl FnOnce(Vec<TVal>) -> TVal) -> Expect {
        if let Some(r) = self.err {
            Expect::MustErr(r)
        } else if let Some(c) = self.unspec {
            Expect::Unspecified(c)
        } else if let Some(c) = self.err_or {
            Expect::ErrOr(f(self.vals), c)
        } else {
            Expect::MustBe(f(self.vals))
        }
    }
}

#[derive(Clone, Copy, PartialEq, Eq, Debug)]
enum Nullness {
    Null,
    NotNull,
    Ambiguous,
}

#[derive(Clone, PartialEq, Eq, Debug)]
enum TagKind {
    None,
    /// `!!str`, `!!int`, ... (name without the bangs)
    Core(String),
    /// `!Name` / `!!Name` with a simple non-core name
    Name(String),
    Odd,
}

const CORE: &[&str] = &[
    "str", "int", "float", "bool", "null", "seq", "map", "binary", "timestamp", "time", "degrees", "radians", "set", "omap",
    "pairs", "merge", "value",
];

fn tag_kind(tag: Option<&str>) -> TagKind {
    let Some(t) = tag else { return TagKind::None };
    let t = t.strip_prefix("tag:yaml.org,2002:").unwrap_or(t);
    let name = t.trim_start_matches('!');
    if name.is_empty() || name.contains([':', '!', '<', '>']) {
        return TagKind::Odd;
    }
    if CORE.contains(&name) {
        TagKind::Core(name.to_string())
    } else {
        TagKind::Name(name.to_string())
    }
}

fn plain_nullish(v: &str) -> bool {
    v.is_empty() || v == "~" || v.eq_ignore_ascii_case("null")
}

fn nullness(value: &str, style: ScalarStyle, tag: Option<&str>) -> Nullness {
    match tag_kind(tag) {
        TagKind::None => match style {
            ScalarStyle::Plain => {
                if plain_nullish(value) {
                    Nullness::Null
                } else {
                    Nullness::NotNull
                }
            }
            ScalarStyle::SingleQuoted | ScalarStyle::DoubleQuoted => Nullness::NotNull,
            _ => {
                if value.is_empty() {
                    Nullness::Ambiguous
                } else {
                    Nullness::NotNull
                }
            }
        },
        TagKind::Core(c) if c == "null" => {
            if style == ScalarStyle::Plain && plain_nullish(value) {
                Nullness::Null
            } else {
                Nullness::Ambiguous
            }
        }
        _ => {
            if (style == ScalarStyle::Plain && plain_nullish(value)) || value.is_empty() {
                Nullness::Ambiguous
            } else {
                Nullness::NotNull
            }
        }
    }
}

fn node_tag(n: &RNode) -> Option<&str> {
    match n {
        RNode::Scalar { tag, .. } | RNode::Seq { tag, .. } | RNode::Map { tag, .. } => tag.as_deref(),
        RNode::Alias { .. } => None,
    }
}

/// Key identity as the crate documents it for duplicate detection: text + tag, not style.
fn fingerprint(n: &RNode) -> String {
    match n {
        RNode::Alias { id, .. } => format!("*{id}"),
        RNode::Scalar { value, tag, .. } => format!("{}{:?}", tag.as_deref().unwrap_or(""), value),
        RNode::Seq { items, tag, .. } => {
            format!("{}[{}]", tag.as_deref().unwrap_or(""), items.iter().map(fingerprint).collect::<Vec<_>>().join(","))
        }
        RNode::Map { entries, tag, .. } => format!(
            "{}{{{}}}",
            tag.as_deref().unwrap_or(""),
            entries.iter().map(|(k, v)| format!("{}:{}", fingerprint(k), fingerprint(v))).collect::<Vec<_>>().join(",")
        ),
    }
}

fn is_merge_key(k: &RNode) -> bool {
    matches!(k, RNode::Scalar { value, style: ScalarStyle::Plain, .. } if value == "<<")
}

#[derive(PartialEq)]
enum Keys {
    Fine,
    Merge,
    /// identical nodes (same text, tag and style)
    Duplicate,
    /// same fingerprint, different style
    DuplicateModuloStyle,
}

fn key_check(entries: &[(RNode, RNode)]) -> Keys {
    if entries.iter().any(|(k, _)| is_merge_key(k)) {
        return Keys::Merge;
    }
    let fps: Vec<String> = entries.iter().map(|(k, _)| fingerprint(k)).collect();
    for i in 0..fps.len() {
        for j in 0..i {
            if fps[i] == fps[j] {
                return if entries[i].0.shape() == entries[j].0.shape() { Keys::Duplicate } else { Keys::DuplicateModuloStyle };
            }
        }
    }
    Keys::Fine
}

/// Can this node be skipped as the value of an unknown field without any
/// question (no tags, aliases, merge keys or duplicate keys inside)?
fn plainly_ignorable(n: &RNode) -> bool {
    match n {
        RNode::Alias { .. } => false,
        RNode::Scalar { tag, .. } => tag.is_none(),
        RNode::Seq { items, tag, .. } => tag.is_none() && items.iter().all(plainly_ignorable),
        RNode::Map { entries, tag, .. } => {
            tag.is_none()
                && key_check(entries) == Keys::Fine
                && entries.iter().all(|(k, v)| plainly_ignorable(k) && plainly_ignorable(v))
        }
    }
}

/// Duplicate-key policy the document is read under (`Options::duplicate_keys`).
#[derive(Clone, Copy, PartialEq, Eq, Debug)]
pub enum Dup {
    Error,
    /// later duplicate pairs are skipped (key + value consumed and ignored)
    First,
    /// later duplicate pairs are passed through to the target
    Last,
}

/// For every entry: 0 = first occurrence of its key, 1 = an earlier entry has the identical key
/// node, 2 = an earlier entry has the same key text + tag in a different style.
fn dup_marks(entries: &[(&RNode, &RNode)]) -> Vec<u8> {
    let fps: Vec<String> = entries.iter().map(|(k, _)| fingerprint(k)).collect();
    let mut out = vec![0u8; entries.len()];
    for i in 0..fps.len() {
        for j in 0..i {
            if fps[i] == fps[j] {
                out[i] = if entries[i].0.shape() == entries[j].0.shape() { 1 } else { 2 };
                break;
            }
        }
    }
    out
}

/// Effective entries of a mapping with merge keys (`<<`), by the YAML merge rule: the
/// mapping's own entries in order, then the entries of the merged mapping(s) whose key
/// is not present yet. `Err(class)` = a form this reference does not decide.
fn resolve_merges(entries: &[(RNode, RNode)]) -> Result<Vec<(&RNode, &RNode)>, &'static str> {
    let mut own: Vec<(&RNode, &RNode)> = Vec::new();
    let mut merges: Vec<&RNode> = Vec::new();
    for (k, v) in entries {
        if is_merge_key(k) {
            if node_tag(k).is_some() {
                return Err("merge-key-tagged");
            }
            merges.push(v);
        } else {
            own.push((k, v));
        }
    }
    if merges.is_empty() {
        return Ok(own);
    }
    if merges.len() > 1 {
        return Err("multiple-merge-keys");
    }
    let sources: Vec<&RNode> = match merges[0] {
        m @ RNode::Map { tag: None, .. } => vec![m],
        RNode::Seq { items, tag: None, .. } if items.iter().all(|i| matches!(i, RNode::Map { tag: None, .. })) => {
            items.iter().collect()
        }
        _ => return Err("merge-value-not-a-plain-mapping"),
    };
    let mut seen: Vec<String> = own.iter().map(|(k, _)| fingerprint(k)).collect();
    let own_len = seen.len();
    let mut out = own;
    for src in sources {
        let RNode::Map { entries: se, .. } = src else { unreachable!() };
        for (k, v) in resolve_merges(se)? {
            let fp = fingerprint(k);
            match seen.iter().position(|s| *s == fp) {
                Some(i) if i < own_len => {} // overridden by an own entry
                Some(_) => return Err("merge-sources-overlap"),
                None => {
                    seen.push(fp);
                    out.push((k, v));
                }
            }
        }
    }
    Ok(out)
}

pub struct Interp<'l> {
    pub leaf: &'l mut dyn Leaf,
    pub dup: Dup,
    /// set when a bare scalar names a non-unit variant at an enum position
    /// (classifier input for violation signatures)
    pub bare_nonunit_seen: bool,
    /// set when `!Variant <plain null>` selects a newtype variant whose payload type is a
    /// string or char (classifier input for violation signatures)
    pub tagged_null_payload_seen: bool,
    /// set when a *mapping* node carries a tag naming a variant of the expected enum
    pub tagged_map_payload_seen: bool,
    /// set when a *scalar* node carries a tag naming a variant of the expected enum (`!Variant payload`)
    pub tagged_scalar_payload_seen: bool,
    /// Some(context) while interpreting a sub-document that the crate deserializes
    /// from a recorded buffer ("tagged-variant" payload, "map-key"). Only used to
    /// give surplus elements inside such a sub-document their own reason class.
    pub tail_ctx: Option<&'static str>,
}

impl Interp<'_> {
    pub fn interp(&mut self, ty: &Ty, n: &RNode) -> Expect {
        if n.has_alias() {
            // anchors/aliases are transparent: judge the alias-free expansion (by anchor id)
            return match n.expand() {
                Some(x) => self.go(ty, &x, false),
                None => Expect::Unspecified("alias-without-earlier-anchor"),
            };
        }
        self.go(ty, n, false)
    }

    /// `tag_used`: the node's tag was consumed by an enclosing enum notation.
    fn go(&mut self, ty: &Ty, n: &RNode, tag_used: bool) -> Expect {
        if let RNode::Alias { .. } = n {
            return Expect::Unspecified("alias");
        }
        let tag = if tag_used { None } else { node_tag(n) };
        match ty {
            Ty::Newtype(_, inner) => self.go(inner, n, tag_used),
            Ty::Option(inner) => match n {
                RNode::Scalar { value, style, .. } => match nullness(value, *style, tag) {
                    Nullness::Null => {
                        if inner.absorbs_null() {
                            Expect::Unspecified("option-of-nullable")
                        } else {
                            Expect::MustBe(TVal::None)
                        }
                    }
                    Nullness::Ambiguous => Expect::Unspecified("ambiguous-null"),
                    Nullness::NotNull => self.go(inner, n, tag_used).map(TVal::some),
                },
                _ => self.go(inner, n, tag_used).map(TVal::some),
            },
            Ty::Enum(e) => self.enumeration(e, n, tag_used),
            _ if !matches!(n, RNode::Scalar { .. }) && tag.is_some() => Expect::Unspecified("tagged-container"),
            t if t.is_scalar() => self.scalar_ty(t, n, tag),
            Ty::Seq(inner) => match n {
                RNode::Seq { items, .. } => {
                    let mut c = Comb::default();
                    for it in items {
                        c.push(self.go(inner, it, false));
                    }
                    c.finish(TVal::Seq)
                }
                RNode::Map { .. } => Expect::MustErr("map-for-seq"),
                RNode::Scalar { value, style, .. } => match self.scalar_for_container(value, *style, tag) {
                    Ok(()) => Expect::ErrOr(TVal::Seq(vec![]), "null-for-container"),
                    Err(e) => e,
                },
                RNode::Alias { .. } => unreachable!(),
            },
            Ty::Tuple(ts) | Ty::TupleStruct(_, ts) => self.tuple(ts, n, tag),
            Ty::Map(k, v) => match n {
                RNode::Map { entries, .. } => {
                    let mut c = Comb::default();
                    if entries.iter().any(|(k, _)| is_merge_key(k)) {
                        c.unspecified("merge-key");
                    }
                    let refs: Vec<(&RNode, &RNode)> = entries.iter().map(|(a, b)| (a, b)).collect();
                    let marks = dup_marks(&refs);
                    for ((kn, vn), m) in entries.iter().zip(marks) {
                        match (m, self.dup) {
                            (0, _) | (1, Dup::Last) => {}
                            (2, _) => c.unspecified("duplicate-key-modulo-style"),
                            (_, Dup::Error) => {
                                c.fail("duplicate-key");
                                continue;
                            }
                            (_, Dup::First) => continue, // pair skipped entirely
                            _ => {}
                        }
                        let saved = self.tail_ctx.replace("map-key");
                        let ke = self.go(k, kn, false);
                        self.tail_ctx = saved;
                        c.push(ke);
                        c.push(self.go(v, vn, false));
                    }
                    c.finish(|vals| {
                        let mut ps = Vec::new();
                        let mut it = vals.into_iter();
                        while let (Some(a), Some(b)) = (it.next(), it.next()) {
                            ps.push((a, b));
                        }
                        TVal::Map(ps)
                    })
                }
                RNode::Seq { .. } => Expect::MustErr("seq-for-map"),
                RNode::Scalar { value, style, .. } => match self.scalar_for_container(value, *style, tag) {
                    Ok(()) => Expect::ErrOr(TVal::Map(vec![]), "null-for-container"),
                    Err(e) => e,
                },
                RNode::Alias { .. } => unreachable!(),
            },
            Ty::Struct(s) => self.fields(&s.body, n, tag),
            _ => unreachable!(),
        }
    }

    /// A scalar met where a container is required: Ok(()) = null (caller decides the
    /// empty-container answer), Err(expectation) otherwise.
    fn scalar_for_container(&mut self, value: &str, style: ScalarStyle, tag: Option<&str>) -> Result<(), Expect> {
        if tag_kind(tag) == TagKind::Core("binary".into()) {
            return Err(Expect::Unspecified("binary-scalar-as-sequence"));
        }
        match nullness(value, style, tag) {
            Nullness::Null => Ok(()),
            Nullness::Ambiguous => Err(Expect::Unspecified("ambiguous-null")),
            Nullness::NotNull => Err(Expect::MustErr("scalar-for-container")),
        }
    }

    fn scalar_ty(&mut self, t: &Ty, n: &RNode, tag: Option<&str>) -> Expect {
        match n {
            RNode::Scalar { value, style, .. } => self.leaf.leaf(t, value, *style, tag),
            RNode::Seq { items, .. } => {
                if *t == Ty::Bytes {
                    // documented: a sequence of integers 0..=255
                    let mut c = Comb::default();
                    for it in items {
                        match it {
                            RNode::Scalar { .. } => c.push(self.go(&Ty::U8, it, false)),
                            _ => c.fail("container-for-scalar"),
                        }
                    }
                    c.finish(|vals| {
                        TVal::Bytes(vals.into_iter().map(|v| if let TVal::U(u) = v { u as u8 } else { 0 }).collect())
                    })
                } else {
                    Expect::MustErr("container-for-scalar")
                }
            }
            RNode::Map { entries, .. } => {
                if matches!(t, Ty::Unit | Ty::UnitStruct(_)) && entries.is_empty() {
                    Expect::ErrOr(TVal::Unit, "unit-from-empty-map")
                } else {
                    Expect::MustErr("container-for-scalar")
                }
            }
            RNode::Alias { .. } => unreachable!(),
        }
    }

    fn tuple(&mut self, ts: &[Ty], n: &RNode, tag: Option<&str>) -> Expect {
        match n {
            RNode::Seq { items, .. } => {
                let mut c = Comb::default();
                if items.len() != ts.len() {
                    // Inside a sub-document that the crate deserializes from a recorded buffer, every
                    // arity mismatch gets one class of its own (surplus and missing elements can
                    // compensate each other there).
                    c.fail(match (self.tail_ctx, items.len() > ts.len()) {
                        (Some("tagged-variant"), _) => "tuple-arity-inside-tagged-variant",
                        (Some(_), _) => "tuple-arity-inside-map-key",
                        (None, true) => "tuple-surplus",
                        (None, false) => "tuple-short",
                    });
                }
                for (t, it) in ts.iter().zip(items) {
                    c.push(self.go(t, it, false));
                }
                c.finish(TVal::Tuple)
            }
            RNode::Map { .. } => Expect::MustErr("map-for-tuple"),
            RNode::Scalar { value, style, .. } => match self.scalar_for_container(value, *style, tag) {
                Ok(()) => Expect::MustErr("null-for-tuple"),
                Err(e) => e,
            },
            RNode::Alias { .. } => unreachable!(),
        }
    }

    fn fields_from_nothing(&self, f: &Fields) -> Expect {
        let mut vals = Vec::new();
        for i in 0..f.fields.len() {
            match f.missing_value(i) {
                Some(v) => vals.push(v),
                None => return Expect::MustErr("null-for-struct-with-required-field"),
            }
        }
        Expect::ErrOr(TVal::Struct(vals), "null-for-container")
    }

    fn fields(&mut self, f: &Fields, n: &RNode, tag: Option<&str>) -> Expect {
        match n {
            RNode::Map { entries, .. } => {
                let mut c = Comb::default();
                let eff = match resolve_merges(entries) {
                    Ok(v) => v,
                    Err(class) => return Expect::Unspecified(class),
                };
                let marks = dup_marks(&eff);
                let mut slots: Vec<Option<Expect>> = vec![None; f.fields.len()];
                for ((kn, vn), m) in eff.iter().zip(marks) {
                    let name = match kn {
                        RNode::Scalar { value, style, tag, .. }
                            if matches!(tag_kind(tag.as_deref()), TagKind::None)
                                && nullness(value, *style, None) == Nullness::NotNull =>
                        {
                            value.as_str()
                        }
                        _ => {
                            c.unspecified("struct-key-not-a-plain-string");
                            continue;
                        }
                    };
                    match (m, self.dup) {
                        (0, _) | (1, Dup::Last) => {}
                        (2, _) => {
                            c.unspecified("duplicate-key-modulo-style");
                            continue;
                        }
                        (_, Dup::Error) => {
                            c.fail(if f.index_of(name).is_some() { "duplicate-field" } else { "duplicate-key" });
                            continue;
                        }
                        (_, Dup::First) => continue, // later duplicate pair skipped entirely
                        _ => {}
                    }
                    match f.index_of(name) {
                        Some(i) => {
                            if slots[i].is_some() {
                                // passed through under LastWins: derived code reports duplicate_field
                                c.fail("duplicate-field");
                            } else {
                                slots[i] = Some(self.go(&f.fields[i].ty, vn, false));
                            }
                        }
                        None => {
                            if f.deny_unknown {
                                c.fail("unknown-field");
                            } else if !plainly_ignorable(vn) {
                                c.unspecified("ignored-value-exotic");
                            }
                        }
                    }
                }
                for (i, s) in slots.into_iter().enumerate() {
                    match s {
                        Some(e) => c.push(e),
                        None => match f.missing_value(i) {
                            Some(v) => c.push(Expect::MustBe(v)),
                            None => c.push(Expect::MustErr("missing-field")),
                        },
                    }
                }
                c.finish(TVal::Struct)
            }
            RNode::Seq { .. } => Expect::MustErr("seq-for-struct"),
            RNode::Scalar { value, style, .. } => match self.scalar_for_container(value, *style, tag) {
                Ok(()) => self.fields_from_nothing(f),
                Err(e) => e,
            },
            RNode::Alias { .. } => unreachable!(),
        }
    }

    fn payload(&mut self, e: &EnumTy, i: usize, p: &RNode, tag_used: bool) -> Expect {
        let saved = self.tail_ctx;
        if tag_used {
            self.tail_ctx = Some("tagged-variant");
        }
        let r = self.payload_inner(e, i, p, tag_used);
        self.tail_ctx = saved;
        r.map(|v| TVal::variant(i, v))
    }

    fn payload_inner(&mut self, e: &EnumTy, i: usize, p: &RNode, tag_used: bool) -> Expect {
        match &e.variants[i] {
            VariantTy::Unit => match p {
                RNode::Scalar { value, style, tag, .. } => {
                    let tag = if tag_used { None } else { tag.as_deref() };
                    match nullness(value, *style, tag) {
                        Nullness::Null => Expect::MustBe(TVal::Unit),
                        Nullness::Ambiguous => Expect::Unspecified("ambiguous-null"),
                        Nullness::NotNull => Expect::MustErr("unit-variant-with-payload"),
                    }
                }
                _ => Expect::MustErr("unit-variant-with-payload"),
            },
            VariantTy::Newtype(t) => self.go(t, p, tag_used),
            VariantTy::Tuple(ts) => {
                if !tag_used && !matches!(p, RNode::Scalar { .. }) && node_tag(p).is_some() {
                    Expect::Unspecified("tagged-container")
                } else {
                    self.tuple(ts, p, if tag_used { None } else { node_tag(p) })
                }
            }
            VariantTy::Struct(f) => {
                if !tag_used && !matches!(p, RNode::Scalar { .. }) && node_tag(p).is_some() {
                    Expect::Unspecified("tagged-container")
                } else {
                    self.fields(f, p, if tag_used { None } else { node_tag(p) })
                }
            }
        }
    }

    fn by_name(&mut self, e: &EnumTy, name: &str) -> Expect {
        match e.index_of(name) {
            None => Expect::MustErr("unknown-variant"),
            Some(i) => match &e.variants[i] {
                VariantTy::Unit => Expect::MustBe(TVal::variant(i, TVal::Unit)),
                VariantTy::Newtype(t) if t.absorbs_null() => {
                    self.bare_nonunit_seen = true;
                    // payload absent: Err, or the variant around "nothing"
                    let absent = match t.peel_newtypes() {
                        Ty::Option(_) => TVal::None,
                        _ => TVal::Unit,
                    };
                    Expect::ErrOr(TVal::variant(i, absent), "bare-name-for-nullable-newtype-variant")
                }
                _ => {
                    self.bare_nonunit_seen = true;
                    Expect::MustErr("bare-name-for-nonunit-variant")
                }
            },
        }
    }

    fn enumeration(&mut self, e: &EnumTy, n: &RNode, tag_used: bool) -> Expect {
        let tk = if tag_used { TagKind::None } else { tag_kind(node_tag(n)) };
        match n {
            RNode::Scalar { value, style, .. } => match tk {
                TagKind::None => self.by_name(e, value),
                TagKind::Core(c) if c == "str" => self.by_name(e, value),
                TagKind::Core(_) => Expect::Unspecified("core-tag-on-enum-scalar"),
                TagKind::Odd => Expect::Unspecified("odd-tag"),
                TagKind::Name(t) if t == e.name() => self.by_name(e, value),
                TagKind::Name(t) => match e.index_of(&t) {
                    None => Expect::MustErr("tag-names-other-enum"),
                    Some(i) => match {
                        self.tagged_scalar_payload_seen = true;
                        &e.variants[i]
                    } {
                        VariantTy::Unit => match nullness(value, *style, None) {
                            Nullness::Null => Expect::MustBe(TVal::variant(i, TVal::Unit)),
                            Nullness::Ambiguous => Expect::Unspecified("ambiguous-null"),
                            Nullness::NotNull => Expect::MustErr("tagged-unit-variant-with-payload"),
                        },
                        VariantTy::Newtype(t) => {
                            // `!Variant P` means the same as `{Variant: P}`: the payload is the scalar
                            // as written (same text and style) without the variant tag. The crate's
                            // documentation makes no exception for tag-selected payloads.
                            if matches!(t.peel_newtypes(), Ty::Str | Ty::Char) && nullness(value, *style, None) == Nullness::Null {
                                self.tagged_null_payload_seen = true;
                            }
                            self.scalar_payload(t, value, *style, None).map(|v| TVal::variant(i, v))
                        }
                        _ => self.payload(e, i, n, true),
                    },
                },
            },
            RNode::Seq { .. } => match tk {
                TagKind::Name(t) => match e.index_of(&t) {
                    Some(i) => match &e.variants[i] {
                        VariantTy::Unit => Expect::MustErr("tagged-unit-variant-with-payload"),
                        _ => self.payload(e, i, n, true),
                    },
                    None => Expect::MustErr("seq-for-enum"),
                },
                TagKind::None => Expect::MustErr("seq-for-enum"),
                _ => Expect::Unspecified("tagged-container"),
            },
            RNode::Map { entries, .. } => {
                match &tk {
                    TagKind::None => {}
                    // `!Variant {..}` means `{Variant: {..}}`, like for scalar and sequence payloads
                    TagKind::Name(t) if e.index_of(t).is_some() => {
                        self.tagged_map_payload_seen = true;
                        let i = e.index_of(t).unwrap();
                        return self.payload(e, i, n, true);
                    }
                    _ => return Expect::Unspecified("tagged-map-at-enum"),
                }
                if key_check(entries) == Keys::Merge {
                    return Expect::Unspecified("merge-key");
                }
                match entries.len() {
                    0 => Expect::MustErr("empty-map-for-enum"),
                    1 => {
                        let (k, p) = &entries[0];
                        match k {
                            RNode::Scalar { value, style, tag, .. }
                                if tag.is_none() && nullness(value, *style, None) == Nullness::NotNull =>
                            {
                                match e.index_of(value) {
                                    None => Expect::MustErr("unknown-variant"),
                                    Some(i) => self.payload(e, i, p, false),
                                }
                            }
                            RNode::Scalar { .. } => Expect::Unspecified("enum-key-exotic"),
                            _ => Expect::MustErr("container-key-for-enum"),
                        }
                    }
                    _ => Expect::MustErr("multi-entry-map-for-enum"),
                }
            }
            RNode::Alias { .. } => unreachable!(),
        }
    }

    /// interp of a scalar (value, style, given tag) against a type, without an RNode.
    fn scalar_payload(&mut self, t: &Ty, value: &str, style: ScalarStyle, tag: Option<&str>) -> Expect {
        let n = RNode::Scalar {
            value: value.to_string(),
            style,
            tag: tag.map(|s| s.to_string()),
            anchor: 0,
            pos: Default::default(),
        };
        self.go(t, &n, false)
    }
}
