use serde::Deserialize;
#[derive(Debug, Deserialize, PartialEq)]
enum E { V0, V1(i32), V2(i32, i32), V3 { f0: i32 }, V4(String), V5(Option<i32>), V6(Vec<i32>) }
#[derive(Debug, Deserialize, PartialEq)]
enum F { W0, W1(i32) }
#[derive(Debug, Deserialize, PartialEq)]
struct S { a: E, b: i32 }
#[derive(Debug, Deserialize, PartialEq)]
struct U;
fn p<T: for<'a> Deserialize<'a> + std::fmt::Debug>(label: &str, y: &str) {
    let r = serde_saphyr::from_str::<T>(y);
    match r { Ok(v) => println!("{label:<28} {y:?} => Ok({v:?})"), Err(e) => println!("{label:<28} {y:?} => Err({})", vcore::errs::kind(&e)) }
}
fn main() {
    p::<Vec<E>>("vec enum newtype bare", "[V1, 5]");
    p::<Vec<E>>("vec enum newtype bare blk", "- V1\n- 5\n");
    p::<Vec<E>>("vec enum V4 bare", "[V4, V0]");
    p::<Vec<E>>("vec enum V5 bare", "[V5]");
    p::<Vec<E>>("vec enum V5 bare2", "[V5, V0]");
    p::<Vec<E>>("vec enum V6 bare", "[V6, [1]]");
    p::<Vec<E>>("vec enum V2 bare", "[V2, [1,2]]");
    p::<Vec<E>>("vec enum V3 bare", "[V3, {f0: 1}]");
    p::<E>("root V1 bare", "V1");
    p::<S>("struct V1 bare", "a: V1\nb: 5\n");
    p::<S>("struct V1 bare flow", "{a: V1, b: 5}");
    p::<std::collections::BTreeMap<String,E>>("map V1 bare", "{a: V1, 5: V0}");
    p::<std::collections::BTreeMap<String,E>>("map V4 bare", "{a: V4, b: V0}");
    p::<(E,i32)>("tuple V1 bare", "[V1, 5]");
    p::<E>("tag unit payload", "!V0 s17");
    p::<E>("tag unit empty", "!V0");
    p::<E>("tag unit null", "!V0 ~");
    p::<Vec<E>>("tag unit seq payload", "[!V0 [1,2]]");
    p::<E>("tag newtype", "!V1 7");
    p::<E>("tag newtype seq", "!V6 [7]");
    p::<E>("tag tuple", "!V2 [7, 8]");
    p::<E>("tag tuple surplus", "!V2 [7, 8, 9]");
    p::<E>("tag tuple short", "!V2 [7]");
    p::<E>("tag struct", "!V3 {f0: 1}");
    p::<E>("tag struct blk", "!V3\nf0: 1\n");
    p::<E>("tag other enum", "!F V0");
    p::<E>("tag other enum variant", "!W1 7");
    p::<E>("tag self enum", "!E V0");
    p::<E>("tag!! self enum", "!!E V0");
    p::<E>("tag self enum newtype map", "!E {V1: 7}");
    p::<E>("map unit payload", "{V0: 7}");
    p::<E>("map unit null", "{V0: ~}");
    p::<E>("map unit empty", "{V0: }");
    p::<E>("map two", "{V1: 7, V0: ~}");
    p::<E>("map empty", "{}");
    p::<E>("map tuple surplus", "{V2: [1,2,3]}");
    p::<E>("map tuple short", "{V2: [1]}");
    p::<Vec<E>>("vec map tuple surplus", "[{V2: [1,2,3]}]");
    p::<(i32,i32)>("tuple surplus", "[1,2,3]");
    p::<Vec<(i32,i32)>>("vec tuple surplus", "[[1,2,3]]");
    p::<Vec<((i32,i32),i32)>>("steal", "[[[1,2,3]]]");
    p::<Vec<((i32,i32),Option<i32>)>>("steal opt", "[[[1,2,3]]]");
    p::<((i32,i32),i32)>("steal root", "[[1,2,3]]");
    p::<U>("unit struct {}", "{}");
    p::<()>("unit {}", "{}");
    p::<Vec<i32>>("null vec", "~");
    p::<(i32,i32)>("null tuple", "~");
    p::<S>("null struct", "~");
    p::<Option<Option<i32>>>("optopt", "~");
    p::<Vec<u8>>("binary", "!!binary AQI=");
    p::<Vec<Option<i32>>>("vec opt", "[1, ~, 3]");
    p::<Vec<()>>("vec unit", "[~, ~]");
    p::<(i32, Option<i32>)>("tuple short opt", "[1]");
    p::<(i32, ())>("tuple short unit", "[1]");
    p::<Vec<E>>("enum from seq", "[[V0]]");
    p::<i32>("scalar from seq", "[1]");
    p::<i32>("scalar from map", "{a: 1}");
    p::<Vec<i32>>("seq from scalar", "s1");
    p::<Vec<i32>>("seq from map", "{a: 1}");
    p::<S>("struct from seq", "[1]");
}
