//! C05 — typed deserialization is position-faithful; shape mismatches are errors.
//!
//! Independent reference model: `interp(Ty, RNode)` over the raw parser tree says
//! what a (run-time type description, document) pair must give — `MustBe(v)`,
//! `MustErr`, `ErrOr(v)` (bounded unspecified class) or `Unspecified`. The real
//! code is `with_deserializer_from_str_with_options(doc, opts, |de| SchemaSeed(ty).deserialize(de))`
//! (a DeserializeSeed that behaves like derived code) and, for a family of real
//! derived types, `from_str::<T>`. Scalars are not interpreted by the reference:
//! a scalar's value is what the library returns for that scalar alone.

mod derived;
mod docgen;
mod interp;

use docgen::{Builder, Chooser, Edit, Intent};
use interp::{Expect, Interp, Leaf};
use saphyr_parser::ScalarStyle;
use serde::de::DeserializeSeed;
use serde_json::json;
use std::collections::{BTreeMap, HashMap};
use vcore::reftree::{self, RNode};
use vcore::rng::{Rng, fnv_parts};
use vcore::run::{Finish, Run, Tier, par_range};
use vcore::ty::{self, SchemaSeed, TVal, Ty, TyCfg, TyGrammar};
use vcore::ydoc::{self, Node, RenderOpts, Style};

/// Safety cap on documents per type in the exhaustive part (never reached at the registered bounds;
/// `exhaustive/truncated_types` counts the types where it was).
const TAPE_CAP: u64 = 3_000_000;

/// Signatures of open known findings (only to avoid building the replay JSON for cases that
/// `Run::violation` will fold into a KNOWN-FINDING line anyway).
fn known_open(sig: &str) -> bool {
    static K: std::sync::OnceLock<Vec<String>> = std::sync::OnceLock::new();
    K.get_or_init(|| {
        vcore::run::load_known_findings()
            .into_iter()
            .filter(|k| k.property == "C05" && k.status == "open")
            .map(|k| k.signature)
            .collect()
    })
    .iter()
    .any(|k| k == sig)
}

fn report(run: &Run, sig: &str, case: impl FnOnce() -> serde_json::Value, detail: impl FnOnce() -> String) {
    if known_open(sig) {
        run.violation(sig, serde_json::Value::Null, String::new());
    } else {
        run.violation(sig, case(), detail());
    }
}

const SIG_TAGGED_MAP: &str = "C05:tag-on-mapping-payload-ignored";
const SIG_NOSCHEMA_TAGGED: &str = "C05:no_schema:tagged-variant-scalar-payload-rejected-as-unquoted-string";
const SIG_TAGGED_NULL: &str = "C05:tagged-newtype-payload:plain-null-read-as-string";

/// Option vectors crossed into the workloads. The statement's clauses apply under each of them;
/// only the duplicate-key clause changes its answer (see `interp::Dup`).
const OPT_NAMES: [&str; 4] = ["default", "strict_booleans+no_schema", "duplicate_keys=LastWins", "duplicate_keys=FirstWins"];

fn options(ov: usize) -> serde_saphyr::Options {
    let mut o = serde_saphyr::Options::default();
    #[allow(deprecated)]
    match ov {
        1 => {
            o.strict_booleans = true;
            o.no_schema = true;
        }
        2 => o.duplicate_keys = serde_saphyr::DuplicateKeyPolicy::LastWins,
        3 => o.duplicate_keys = serde_saphyr::DuplicateKeyPolicy::FirstWins,
        _ => {}
    }
    o
}

fn dup_of(ov: usize) -> interp::Dup {
    match ov {
        2 => interp::Dup::Last,
        3 => interp::Dup::First,
        _ => interp::Dup::Error,
    }
}

fn run_seed(ty: &Ty, doc: &str, ov: usize) -> Result<Result<TVal, serde_saphyr::Error>, String> {
    vcore::obs::catch(|| {
        serde_saphyr::with_deserializer_from_str_with_options(doc, options(ov), |de| SchemaSeed(ty).deserialize(de))
    })
}

// ------------------------------------------------------------------ leaf oracle

#[derive(Default)]
struct LeafOracle {
    cache: HashMap<(String, String, u8, Option<String>, u8), Expect>,
    /// option vector the scalars are read under (set by the caller before each case)
    ov: usize,
    calls: u64,
    panics: Vec<(String, String)>,
}

fn style_of(s: ScalarStyle) -> Style {
    reftree::style_of(s)
}

impl Leaf for LeafOracle {
    fn leaf(&mut self, ty: &Ty, value: &str, style: ScalarStyle, tag: Option<&str>) -> Expect {
        let key = (format!("{ty:?}"), value.to_string(), reftree::style_char(style) as u8, tag.map(|s| s.to_string()), self.ov as u8);
        if let Some(e) = self.cache.get(&key) {
            return e.clone();
        }
        let node = Node::Scalar { text: value.to_string(), style: style_of(style), tag: tag.map(|s| s.to_string()), anchor: None };
        let text = ydoc::render(&node, &RenderOpts::new()).text;
        let confirmed = matches!(
            reftree::parse_one(&text),
            Some(RNode::Scalar { value: v, style: s, tag: t, .. }) if v == value && s == style && t.as_deref() == tag
        );
        let e = if !confirmed {
            Expect::Unspecified("leaf-document-not-confirmed-by-parser")
        } else {
            self.calls += 1;
            match run_seed(ty, &text, self.ov) {
                Ok(Ok(v)) => Expect::MustBe(v),
                Ok(Err(_)) => Expect::MustErr("scalar-rejected-for-type"),
                Err(p) => {
                    self.panics.push((text.clone(), p));
                    Expect::Unspecified("leaf-panic")
                }
            }
        };
        if self.cache.len() < 200_000 {
            self.cache.insert(key, e.clone());
        }
        e
    }
}

// ------------------------------------------------------------------ verdicts

/// Per work-item counters (flushed once, to keep the hot loop lock-free).
#[derive(Default)]
struct Local {
    c: BTreeMap<String, u64>,
    obs: BTreeMap<&'static str, std::collections::BTreeSet<String>>,
}

impl Local {
    fn count(&mut self, k: &str) {
        *self.c.entry(k.to_string()).or_insert(0) += 1;
    }
    fn add(&mut self, k: &str, n: u64) {
        *self.c.entry(k.to_string()).or_insert(0) += n;
    }
    fn observe(&mut self, set: &'static str, v: String) {
        self.obs.entry(set).or_default().insert(v);
    }
    fn flush(self, run: &Run) {
        for (k, v) in self.c {
            run.count(&k, v);
        }
        for (s, vs) in self.obs {
            for v in vs {
                run.observe(s, &v);
            }
        }
    }
}

/// Kind of the type at the first place where two values differ.
fn diff_kind(ty: &Ty, a: &TVal, b: &TVal) -> String {
    fn kind(t: &Ty) -> &'static str {
        match t {
            Ty::Option(_) => "option",
            Ty::Seq(_) => "seq",
            Ty::Tuple(_) => "tuple",
            Ty::TupleStruct(..) => "tuple-struct",
            Ty::Map(..) => "map",
            Ty::Struct(_) => "struct",
            Ty::Enum(_) => "enum",
            Ty::Newtype(..) => "newtype",
            _ => "scalar",
        }
    }
    fn list(tys: &mut dyn Iterator<Item = &Ty>, xs: &[TVal], ys: &[TVal], me: &'static str) -> String {
        if xs.len() != ys.len() {
            return format!("{me}-length");
        }
        for ((t, x), y) in tys.zip(xs).zip(ys) {
            if x != y {
                return diff_kind(t, x, y);
            }
        }
        me.to_string()
    }
    match (ty, a, b) {
        (Ty::Newtype(_, t), _, _) => diff_kind(t, a, b),
        (Ty::Option(t), TVal::Some(x), TVal::Some(y)) => diff_kind(t, x, y),
        (Ty::Seq(t), TVal::Seq(xs), TVal::Seq(ys)) => list(&mut std::iter::repeat(&**t), xs, ys, "seq"),
        (Ty::Tuple(ts), TVal::Tuple(xs), TVal::Tuple(ys)) | (Ty::TupleStruct(_, ts), TVal::Tuple(xs), TVal::Tuple(ys)) => {
            list(&mut ts.iter(), xs, ys, kind(ty))
        }
        (Ty::Struct(s), TVal::Struct(xs), TVal::Struct(ys)) => list(&mut s.body.fields.iter().map(|f| &f.ty), xs, ys, "struct"),
        (Ty::Map(k, v), TVal::Map(xs), TVal::Map(ys)) => {
            if xs.len() != ys.len() {
                return "map-length".into();
            }
            for ((ka, va), (kb, vb)) in xs.iter().zip(ys) {
                if ka != kb {
                    return format!("map-key:{}", diff_kind(k, ka, kb));
                }
                if va != vb {
                    return diff_kind(v, va, vb);
                }
            }
            "map".into()
        }
        (Ty::Enum(e), TVal::Variant(i, x), TVal::Variant(j, y)) => {
            if i != j {
                return "enum-variant".into();
            }
            match e.variants.get(*i as usize) {
                Some(ty::VariantTy::Newtype(t)) => diff_kind(t, x, y),
                Some(ty::VariantTy::Tuple(ts)) => match (&**x, &**y) {
                    (TVal::Tuple(xs), TVal::Tuple(ys)) => list(&mut ts.iter(), xs, ys, "tuple-variant"),
                    _ => "enum".into(),
                },
                Some(ty::VariantTy::Struct(f)) => match (&**x, &**y) {
                    (TVal::Struct(xs), TVal::Struct(ys)) => list(&mut f.fields.iter().map(|f| &f.ty), xs, ys, "struct-variant"),
                    _ => "enum".into(),
                },
                _ => "enum".into(),
            }
        }
        _ => kind(ty).to_string(),
    }
}

/// Maps with repeated keys collapsed to the last pair per key (input: maps already sorted stably by key).
fn last_wins(v: &TVal) -> TVal {
    match v {
        TVal::Some(x) => TVal::some(last_wins(x)),
        TVal::Variant(i, x) => TVal::Variant(*i, Box::new(last_wins(x))),
        TVal::Seq(xs) => TVal::Seq(xs.iter().map(last_wins).collect()),
        TVal::Tuple(xs) => TVal::Tuple(xs.iter().map(last_wins).collect()),
        TVal::Struct(xs) => TVal::Struct(xs.iter().map(last_wins).collect()),
        TVal::Map(ps) => {
            let mut out: Vec<(TVal, TVal)> = Vec::new();
            for (k, x) in ps {
                let (k, x) = (last_wins(k), last_wins(x));
                match out.last_mut() {
                    Some(l) if l.0 == k => l.1 = x,
                    _ => out.push((k, x)),
                }
            }
            TVal::Map(out)
        }
        other => other.clone(),
    }
}

struct CaseMeta<'a> {
    /// "seed" or "derived:<name>"
    mode: &'a str,
    edit: Option<&'a Edit>,
    intent: Option<Intent>,
    exact: bool,
    flow: bool,
    part: &'static str,
    /// option vector (index into OPT_NAMES)
    ov: usize,
    /// stable hash and depth of the type (computed once per type)
    ty_hash: u64,
    ty_depth: usize,
}

enum Runner<'a> {
    Seed,
    Derived(&'a derived::Derived),
}

/// Judge one (type, document) pair. Returns false if the case was not evaluated.
#[allow(clippy::too_many_arguments)]
fn check_pair(
    run: &Run,
    lo: &mut LeafOracle,
    loc: &mut Local,
    ty: &Ty,
    doc: &str,
    pre: Option<&RNode>,
    runner: &Runner,
    meta: &CaseMeta,
) -> bool {
    let ov = meta.ov;
    let case = || {
        json!({
            "ty": ty.to_json(), "ty_text": ty.to_string(), "doc": doc, "mode": meta.mode, "options": OPT_NAMES[ov], "ov": ov,
            "edit": meta.edit.map(|e| e.label()), "flow": meta.flow, "part": meta.part,
        })
    };
    let t0 = std::time::Instant::now();
    let parsed;
    let rnode: &RNode = match pre {
        Some(r) => r,
        None => {
            let Some(r) = reftree::parse_one(doc) else {
                run.inconclusive("generator-invalid: document is not one parser-confirmed document");
                return false;
            };
            parsed = r;
            &parsed
        }
    };
    let t1 = std::time::Instant::now();
    lo.ov = ov;
    let mut ip = Interp {
        leaf: lo,
        dup: dup_of(ov),
        bare_nonunit_seen: false,
        tagged_null_payload_seen: false,
        tagged_map_payload_seen: false,
        tagged_scalar_payload_seen: false,
        tail_ctx: None,
    };
    let expect = ip.interp(ty, rnode);
    let t2 = std::time::Instant::now();
    loc.add("time_us/raw_parse", (t1 - t0).as_micros() as u64);
    loc.add("time_us/interp_and_leaf_oracle", (t2 - t1).as_micros() as u64);
    let bare_nonunit = ip.bare_nonunit_seen;
    let tagged_null = ip.tagged_null_payload_seen;
    let tagged_map = ip.tagged_map_payload_seen;
    let tagged_scalar = ip.tagged_scalar_payload_seen;
    // One root cause, several symptoms: a bare scalar naming a non-unit variant makes the
    // library read the *following* node as the payload. Any wrongly accepted document that
    // contains such a scalar is classified under this one signature.
    let ok_sig = |default: String| {
        if tagged_map {
            SIG_TAGGED_MAP.to_string()
        } else if bare_nonunit {
            "C05:bare-name-for-nonunit-variant:following-node-consumed".to_string()
        } else if tagged_null {
            SIG_TAGGED_NULL.to_string()
        } else {
            default
        }
    };
    for (text, p) in lo.panics.drain(..) {
        run.violation(
            &format!("C05:panic:{}", vcore::obs::panic_site(&p)),
            json!({"ty": ty.to_json(), "ty_text": ty.to_string(), "doc": text, "mode": "seed", "part": "leaf"}),
            p,
        );
    }
    // soundness guards on my own generator/model
    if meta.exact
        && let Expect::MustErr(r) = &expect
        && *r != "scalar-rejected-for-type"
    {
        run.inconclusive(&format!("model disagreement: exact document judged MustErr({r})"));
        return false;
    }
    if meta.intent == Some(Intent::MustErr) && matches!(expect, Expect::MustBe(_) | Expect::ErrOr(..)) {
        run.inconclusive(&format!(
            "model disagreement: edit {} intended MustErr but interpreter allows a value",
            meta.edit.map(|e| e.class()).unwrap_or("?")
        ));
        return false;
    }
    run.eval();
    loc.count(&format!("part/{}", meta.part));
    let t3 = std::time::Instant::now();
    let actual = match runner {
        Runner::Seed => run_seed(ty, doc, ov),
        Runner::Derived(d) => vcore::obs::catch(|| (d.run)(doc, options(ov))),
    };
    loc.add("time_us/library_call", t3.elapsed().as_micros() as u64);
    let actual = match actual {
        Err(p) => {
            run.violation(&format!("C05:panic:{}", vcore::obs::panic_site(&p)), case(), p);
            return true;
        }
        Ok(a) => a,
    };
    let sorted = matches!(runner, Runner::Derived(_));
    if matches!(runner, Runner::Derived(d) if !d.buffered) && matches!(expect, Expect::MustBe(_) | Expect::MustErr(_)) {
        // harness soundness guard: the dynamic seed must behave like the derived code on the same input
        match (run_seed(ty, doc, ov), &actual) {
            (Ok(Ok(a)), Ok(b))
                if (ov == 2 && last_wins(&a.sorted_maps()) == last_wins(&b.sorted_maps())) || a.sorted_maps() == b.sorted_maps() =>
            {
                loc.count("seed_vs_derive/agree:value")
            }
            (Ok(Err(_)), Err(_)) => loc.count("seed_vs_derive/agree:error"),
            _ => {
                loc.count("seed_vs_derive/DISAGREE");
                if std::env::var("C05_DEBUG").is_ok() {
                    eprintln!("DISAGREE ov={ov} {} doc={doc:?}\n   seed={:?}\n   real={:?}", meta.mode, run_seed(ty, doc, ov).map(|r| r.map_err(|e| vcore::errs::kind(&e))), actual.as_ref().map_err(vcore::errs::kind));
                }
                run.inconclusive("harness: SchemaSeed and the derived type disagree on the same document");
            }
        }
    }
    // derived map targets (BTreeMap) do not keep delivery order, and under LastWins a passed-through
    // duplicate overwrites the earlier pair
    let same = |a: &TVal, b: &TVal| {
        if !sorted {
            a == b
        } else if ov == 2 {
            last_wins(&a.sorted_maps()) == last_wins(&b.sorted_maps())
        } else {
            a.sorted_maps() == b.sorted_maps()
        }
    };
    let edit_class = meta.edit.map(|e| e.class()).unwrap_or("exact");
    if let Err(e) = &actual {
        loc.observe("error_kinds", vcore::errs::kind(e));
    }
    match (&expect, &actual) {
        (Expect::Unspecified(c), _) => {
            loc.count(&format!("unspecified/{c}"));
            loc.count("verdict/unspecified");
        }
        (Expect::MustBe(v), Ok(got)) => {
            if same(v, got) {
                loc.count("verdict/held:value");
                loc.count(&format!("held_value_by_edit/{edit_class}"));
            } else {
                report(run, &ok_sig(format!("C05:wrong-value:{}", diff_kind(ty, v, got))), case, || {
                    format!("expected {v:?} | got {got:?}")
                });
            }
        }
        (Expect::MustBe(v), Err(e)) => {
            let sig = if tagged_scalar && ov == 1 && e.to_string().contains("must be quoted") {
                // no_schema: the payload of `!Variant payload` is refused as if it were an unquoted string
                SIG_NOSCHEMA_TAGGED.to_string()
            } else if tagged_map {
                SIG_TAGGED_MAP.to_string()
            } else {
                format!("C05:rejected:{}", vcore::errs::kind(e))
            };
            report(run, &sig, case, || {
                format!("expected Ok({v:?}) | got Err({e})")
            });
        }
        (Expect::MustErr(r), Ok(got)) => {
            report(run, &ok_sig(format!("C05:accepted:{r}")), case, || format!("must fail ({r}) | got Ok({got:?})"));
        }
        (Expect::MustErr(r), Err(_)) => {
            loc.count("verdict/held:error");
            loc.count(&format!("held_error_by_reason/{r}"));
            loc.count(&format!("held_error_by_edit/{edit_class}"));
        }
        (Expect::ErrOr(v, c), Ok(got)) => {
            if same(v, got) {
                loc.count(&format!("unspecified/{c}:value"));
                loc.count("verdict/unspecified-bounded");
            } else {
                report(run, &ok_sig(format!("C05:wrong-value-in-bounded-class:{c}")), case, || {
                    format!("allowed Err or {v:?} | got {got:?}")
                });
            }
        }
        (Expect::ErrOr(_, c), Err(_)) => {
            loc.count(&format!("unspecified/{c}:error"));
            loc.count("verdict/unspecified-bounded");
        }
    }
    if meta.ty_depth >= 2 {
        run.nontrivial(fnv_parts(&[&meta.ty_hash.to_le_bytes(), doc.as_bytes(), meta.mode.as_bytes(), &[ov as u8]]));
    }
    true
}


// ------------------------------------------------------------------ part D: the enum notations agree

/// Class of a payload node (for signatures and evidence).
fn payload_class(n: &Node) -> &'static str {
    match n {
        Node::Scalar { text, style: Style::Plain, .. } if text.is_empty() => "plain-empty",
        Node::Scalar { text, style: Style::Plain, .. } if text == "~" || text.eq_ignore_ascii_case("null") => "plain-null",
        Node::Scalar { style: Style::Plain, .. } => "plain-scalar",
        Node::Scalar { text, .. } if text.is_empty() || text == "~" || text.eq_ignore_ascii_case("null") => "quoted-null-like",
        Node::Scalar { .. } => "quoted-scalar",
        Node::Seq { .. } => "seq",
        Node::Map { .. } => "map",
        Node::Alias(_) => "alias",
    }
}

fn type_class(t: &Ty) -> &'static str {
    match t.peel_newtypes() {
        Ty::Str => "string",
        Ty::Char => "char",
        Ty::Bool => "bool",
        Ty::F32 | Ty::F64 => "float",
        Ty::Bytes => "bytes",
        Ty::Unit | Ty::UnitStruct(_) => "unit",
        Ty::Option(_) => "option",
        Ty::Seq(_) => "seq",
        Ty::Tuple(_) | Ty::TupleStruct(..) => "tuple",
        Ty::Map(..) => "map",
        Ty::Struct(_) => "struct",
        Ty::Enum(_) => "enum",
        _ => "int",
    }
}

fn scalar_payloads() -> Vec<Node> {
    let mut v = Vec::new();
    for t in ["", "~", "null", "Null", "NULL", "s17", "17", "-3", "1.5", "true", "a", "V0", "x y", "0x1F"] {
        for st in [Style::Plain, Style::Single, Style::Double] {
            if st == Style::Plain && !(t.is_empty() || t == "~" || ydoc::plain_safe(t)) {
                continue;
            }
            v.push(Node::styled(t, st));
        }
    }
    v
}

fn container_payloads() -> Vec<Node> {
    let p = Node::plain;
    vec![
        Node::seq(vec![]),
        Node::seq(vec![p("1")]),
        Node::seq(vec![p("1"), p("2")]),
        Node::seq(vec![p("1"), p("a")]),
        Node::seq(vec![p("a"), p("b")]),
        Node::seq(vec![p("1"), p("a"), p("3")]),
        Node::seq(vec![p("~")]),
        Node::seq(vec![Node::seq(vec![p("1")]), p("2")]),
        Node::map(vec![]),
        Node::map(vec![(p("f0"), p("1"))]),
        Node::map(vec![(p("f0"), p("1")), (p("f1"), p("a"))]),
        Node::map(vec![(p("f0"), p("1")), (p("f9"), p("a"))]),
        Node::map(vec![(p("a"), p("1"))]),
        Node::map(vec![(p("a"), p("1")), (p("b"), p("2"))]),
        Node::map(vec![(p("V0"), p("~"))]),
    ]
}

/// `enum E0 { V0, V1(T), V2(i32, String), V3 { f0: i32, f1: Option<String> } }`
fn notation_enum(t: Ty) -> Ty {
    Ty::enumeration(
        0,
        0,
        vec![
            ty::VariantTy::Unit,
            ty::VariantTy::Newtype(t),
            ty::VariantTy::Tuple(vec![Ty::I32, Ty::Str]),
            ty::VariantTy::Struct(ty::Fields::new(vec![Ty::I32, Ty::opt(Ty::Str)], false)),
        ],
    )
}

fn notation_payload_types() -> Vec<Ty> {
    vec![
        Ty::opt(Ty::Str),
        Ty::opt(Ty::U32),
        Ty::opt(Ty::I64),
        Ty::opt(Ty::Bool),
        Ty::opt(Ty::Char),
        Ty::opt(Ty::seq(Ty::I32)),
        Ty::Str,
        Ty::I32,
        Ty::U8,
        Ty::F64,
        Ty::Bool,
        Ty::Char,
        Ty::Unit,
        Ty::UnitStruct(4),
        Ty::Bytes,
        Ty::seq(Ty::I32),
        Ty::seq(Ty::Str),
        Ty::seq(Ty::opt(Ty::I32)),
        Ty::map(Ty::Str, Ty::I32),
        Ty::Tuple(vec![Ty::I32, Ty::Str]),
        Ty::strukt(1, vec![Ty::I32, Ty::opt(Ty::Str)], false),
        Ty::newtype(2, Ty::opt(Ty::Str)),
        Ty::enumeration(1, 4, vec![ty::VariantTy::Unit, ty::VariantTy::Newtype(Ty::I32)]),
    ]
}

/// Relation: `!Variant P` and `{Variant: P}` denote the same value — equal Ok values or both Err —
/// in every parent position. Both documents are also judged by the reference interpreter.
#[allow(clippy::too_many_arguments)]
fn check_notations(
    run: &Run,
    lo: &mut LeafOracle,
    loc: &mut Local,
    enum_ty: &Ty,
    variant: usize,
    payload: &Node,
    ctx: usize,
    flow: bool,
    ov: usize,
    ro: &RenderOpts,
    part: &'static str,
) {
    let Ty::Enum(e) = enum_ty else { return };
    if matches!(payload, Node::Alias(_))
        || matches!(payload, Node::Scalar { tag: Some(_), .. } | Node::Seq { tag: Some(_), .. } | Node::Map { tag: Some(_), .. })
    {
        return; // a node carries one tag only
    }
    let vname = e.names()[variant];
    let tagged = payload.clone().with_tag(&format!("!{vname}"));
    // An empty plain node is YAML null; the raw parser reports an empty mapping value as plain `~`,
    // so the map-notation twin of the empty payload `!V` is `{V: }` == `{V: ~}`.
    let map_payload = match payload {
        Node::Scalar { text, style: Style::Plain, .. } if text.is_empty() => Node::plain("~"),
        p => p.clone(),
    };
    let mapped = Node::map(vec![(Node::plain(vname), map_payload)]);
    let (ty, wrap): (Ty, Box<dyn Fn(Node) -> Node>) = match ctx {
        0 => (enum_ty.clone(), Box::new(|n| n)),
        1 => (Ty::seq(enum_ty.clone()), Box::new(|n| Node::seq(vec![n]))),
        2 => (Ty::map(Ty::Str, enum_ty.clone()), Box::new(|n| Node::map(vec![(Node::plain("k1"), n)]))),
        _ => (Ty::Tuple(vec![enum_ty.clone(), Ty::I32]), Box::new(|n| Node::seq(vec![n, Node::plain("1777")]))),
    };
    let (Some((dt, rt)), Some((dm, rm))) = (render(&wrap(tagged), flow, ro), render(&wrap(mapped), flow, ro)) else {
        if std::env::var("C05_DEBUG").is_ok() {
            let mut t = wrap(payload.clone().with_tag(&format!("!{vname}")));
            t.set_flow(flow);
            eprintln!("GENINV ctx={ctx} flow={flow} {:?}", ydoc::render(&t, ro).text);
        }
        run.inconclusive("generator-invalid: notation pair not parsed as intended");
        return;
    };
    let vkind = match &e.variants[variant] {
        ty::VariantTy::Unit => "unit",
        ty::VariantTy::Newtype(_) => "newtype",
        ty::VariantTy::Tuple(_) => "tuple",
        ty::VariantTy::Struct(_) => "struct",
    };
    let tclass = match &e.variants[variant] {
        ty::VariantTy::Newtype(t) => type_class(t),
        _ => "-",
    };
    let pclass = payload_class(payload);
    // each notation against the reference interpreter
    let (ty_hash, ty_depth) = ty_id(&ty);
    for (d, r) in [(&dt, &rt), (&dm, &rm)] {
        let meta = CaseMeta { mode: "seed", edit: None, intent: None, exact: false, flow, part, ov, ty_hash, ty_depth };
        check_pair(run, lo, loc, &ty, d, Some(r), &Runner::Seed, &meta);
    }
    // the two notations against each other
    run.evals(2);
    let (a, b) = match (run_seed(&ty, &dt, ov), run_seed(&ty, &dm, ov)) {
        (Ok(a), Ok(b)) => (a, b),
        _ => return, // panics were reported by check_pair
    };
    let case = || {
        json!({"ty": ty.to_json(), "ty_text": ty.to_string(), "doc": dt, "doc_map_notation": dm, "mode": "seed",
               "part": part, "flow": flow, "options": OPT_NAMES[ov], "ov": ov, "relation": "tag-notation == map-notation"})
    };
    let shape = match (&a, &b) {
        (Ok(x), Ok(y)) if x == y => {
            loc.count("notations/agree:value");
            loc.observe("notation_pairs_ok", format!("{vkind}:{tclass}:{pclass}"));
            return;
        }
        (Err(_), Err(_)) => {
            loc.count("notations/agree:error");
            return;
        }
        (Ok(_), Ok(_)) => "values-differ",
        (Ok(_), Err(_)) => "tag-ok-map-err",
        (Err(_), Ok(_)) => "tag-err-map-ok",
    };
    let show = |r: &Result<TVal, serde_saphyr::Error>| match r {
        Ok(v) => format!("Ok({v:?})"),
        Err(e) => format!("Err({})", vcore::errs::kind(e)),
    };
    // Signature classes. Two root causes get one signature each:
    //  * a tag on a *mapping* node is not looked at by the enum reader at all;
    //  * a tag-selected scalar payload is handed on as `!!str`, so a plain null becomes a string/char.
    let quoting = matches!(&a, Err(e) if e.to_string().contains("must be quoted"));
    let sig = if pclass == "map" {
        SIG_TAGGED_MAP.to_string()
    } else if ov == 1 && shape == "tag-err-map-ok" && quoting && matches!(payload, Node::Scalar { .. }) {
        SIG_NOSCHEMA_TAGGED.to_string()
    } else if vkind == "newtype" && matches!(tclass, "string" | "char") && matches!(pclass, "plain-null" | "plain-empty") && shape == "tag-ok-map-err" {
        SIG_TAGGED_NULL.to_string()
    } else {
        format!("C05:notations-disagree:{vkind}:{tclass}:{pclass}:{shape}")
    };
    report(run, &sig, case, || format!("`!{vname} P` gave {} | `{{{vname}: P}}` gave {}", show(&a), show(&b)));
}

// ------------------------------------------------------------------ workloads

fn render(n: &Node, flow: bool, ro: &RenderOpts) -> Option<(String, RNode)> {
    let mut t = n.clone();
    t.set_flow(flow);
    reftree::render_checked(&t, ro)
}

fn ty_id(ty: &Ty) -> (u64, usize) {
    (vcore::rng::fnv(format!("{ty:?}").as_bytes()), ty.depth())
}

/// Edits kept in the 4-node space with aliases / merge keys woven in (the ones that interact with
/// replayed or merged entries): arity, kind swaps, null, duplicate / missing / unknown fields and keys.
fn woven_edit_filter(e: &Edit) -> bool {
    matches!(
        e,
        Edit::Surplus(0, 0)
            | Edit::Short(0)
            | Edit::ScalarForContainer
            | Edit::NullForContainer
            | Edit::DuplicateKey
            | Edit::DuplicateField(_)
            | Edit::MissingField(_)
            | Edit::UnknownField(2)
    )
}

/// Edits kept in the 4-node space with merge keys woven in: the ones about field sets.
fn merge_edit_filter(e: &Edit) -> bool {
    matches!(e, Edit::DuplicateField(_) | Edit::MissingField(_))
}

struct TapeCfg<'a> {
    rich: bool,
    max_len: usize,
    /// anchors/aliases and merge keys woven into the documents
    aliases: bool,
    merges: bool,
    flows: &'a [bool],
    ro: &'a RenderOpts,
    runner: &'a Runner<'a>,
    mode: &'a str,
    part: &'static str,
    /// option vectors every document is read under
    ovs: &'a [usize],
    /// additional option vectors for duplicate-key / duplicate-field edits
    dup_ovs: &'a [usize],
    /// restrict the edits applied (None = all)
    edit_filter: Option<fn(&Edit) -> bool>,
    sample_every: u64,
}

impl TapeCfg<'_> {
    fn builder<'c>(&self, ch: &'c mut Chooser) -> Builder<'c> {
        let mut b = Builder::new(ch, self.rich, self.max_len);
        b.aliases = self.aliases;
        b.merges = self.merges;
        b
    }
}

/// Build the exact document for the current tape, then every (or a sample of) single edits.
fn run_tape(
    run: &Run,
    lo: &mut LeafOracle,
    loc: &mut Local,
    ty: &Ty,
    ch: &mut Chooser,
    cfg: &TapeCfg,
    mut pick_edits: impl FnMut(usize) -> Option<Vec<usize>>,
) {
    let (ty_hash, ty_depth) = ty_id(ty);
    ch.rewind();
    let (exact, sites, features) = {
        let mut b = cfg.builder(ch);
        let n = b.build(ty);
        (n, b.sites, (b.aliases_made, b.merges_made))
    };
    for s in &sites {
        loc.observe("sites", format!("{}@{}", s.kind, s.parent));
    }
    loc.add("docs/aliases_woven_in", features.0 as u64);
    loc.add("docs/merge_keys_woven_in", features.1 as u64);
    let judge = |loc: &mut Local, lo: &mut LeafOracle, node: &Node, edit: Option<(&Edit, Intent)>, site: Option<&docgen::Site>| {
        for &flow in cfg.flows {
            let Some((doc, rnode)) = render(node, flow, cfg.ro) else {
                if let Some((e, _)) = edit {
                    loc.count(&format!("generator_invalid_by_edit/{}", e.class()));
                }
                if std::env::var("C05_DEBUG").is_ok() {
                    let mut t = node.clone();
                    t.set_flow(flow);
                    eprintln!("GENINV {:?}", ydoc::render(&t, cfg.ro).text);
                }
                run.inconclusive("generator-invalid: document not parsed as intended");
                continue;
            };
            let is_dup = matches!(edit, Some((Edit::DuplicateField(_) | Edit::DuplicateKey, _)));
            let extra: &[usize] = if is_dup { cfg.dup_ovs } else { &[] };
            for &ov in cfg.ovs.iter().chain(extra.iter().filter(|o| !cfg.ovs.contains(o))) {
                // under FirstWins / LastWins a duplicate is not (always) an error
                let intent = match edit {
                    Some(_) if is_dup && ov >= 2 => Some(Intent::Any),
                    Some((_, i)) => Some(i),
                    None => None,
                };
                let meta = CaseMeta {
                    mode: cfg.mode,
                    edit: edit.map(|(e, _)| e),
                    intent,
                    exact: edit.is_none(),
                    flow,
                    part: cfg.part,
                    ov,
                    ty_hash,
                    ty_depth,
                };
                if check_pair(run, lo, loc, ty, &doc, Some(&rnode), cfg.runner, &meta) {
                    match edit {
                        None => loc.count(if flow { "cases/exact:flow" } else { "cases/exact:block" }),
                        Some((e, _)) => {
                            loc.count(&format!("cases/edit:{}", e.class()));
                            if let Some(st) = site {
                                loc.observe("edit_at", format!("{}:{}@{}", e.class(), st.kind, st.parent));
                            }
                        }
                    }
                    loc.count(&format!("cases/options:{}", OPT_NAMES[ov]));
                    if cfg.sample_every > 0 && fnv_parts(&[doc.as_bytes()]) % cfg.sample_every == 0 {
                        run.sample(|| {
                            json!({"ty": ty.to_string(), "doc": doc, "edit": edit.map(|(e, _)| e.label()), "mode": cfg.mode, "options": OPT_NAMES[ov]})
                        });
                    }
                }
            }
        }
    };
    judge(loc, lo, &exact, None, None);
    // flat list of (site, edit index)
    let mut all: Vec<(usize, usize)> = Vec::new();
    for (si, s) in sites.iter().enumerate() {
        for ei in 0..s.edits.len() {
            all.push((si, ei));
        }
    }
    if let Some(f) = cfg.edit_filter {
        all.retain(|(si, ei)| f(&sites[*si].edits[*ei].0));
    }
    let chosen: Vec<usize> = match pick_edits(all.len()) {
        Some(v) => v,
        None => (0..all.len()).collect(),
    };
    for k in chosen {
        let (si, ei) = all[k];
        let (edit, intent) = sites[si].edits[ei].clone();
        ch.rewind();
        ch.frozen = true;
        let (node, applied) = {
            let mut b = cfg.builder(ch);
            b.edit = Some((si, edit.clone()));
            let n = b.build(ty);
            (n, b.edit_applied)
        };
        ch.frozen = false;
        if !applied {
            run.inconclusive("generator-invalid: edit site not reached on rebuild");
            continue;
        }
        judge(loc, lo, &node, Some((&edit, intent)), Some(&sites[si]));
    }
}

fn main() {
    let run = Run::from_args("C05");
    if let Some(rep) = run.is_replay() {
        let case = &rep["case"];
        let ty = Ty::from_json(&case["ty"]).unwrap_or(Ty::Unit);
        let doc = case["doc"].as_str().unwrap_or("").to_string();
        let mode = case["mode"].as_str().unwrap_or("seed").to_string();
        let fam = derived::family();
        let runner = match mode.strip_prefix("derived:") {
            Some(n) => fam.iter().find(|d| d.name == n).map(Runner::Derived).unwrap_or(Runner::Seed),
            None => Runner::Seed,
        };
        let mut lo = LeafOracle::default();
        let mut loc = Local::default();
        let ov = case["ov"].as_u64().unwrap_or(0) as usize % OPT_NAMES.len();
        let (ty_hash, ty_depth) = ty_id(&ty);
        let meta =
            CaseMeta { mode: &mode, edit: None, intent: None, exact: false, flow: false, part: "replay", ov, ty_hash, ty_depth };
        check_pair(&run, &mut lo, &mut loc, &ty, &doc, None, &runner, &meta);
        if let Some(dm) = case["doc_map_notation"].as_str() {
            // notation-agreement case: re-run the relation itself
            let (a, b) = (run_seed(&ty, &doc, ov), run_seed(&ty, dm, ov));
            if let (Ok(a), Ok(b)) = (a, b) {
                let same = match (&a, &b) {
                    (Ok(x), Ok(y)) => x == y,
                    (Err(_), Err(_)) => true,
                    _ => false,
                };
                if !same {
                    run.violation(rep["signature"].as_str().unwrap_or("C05:notations-disagree"), case.clone(), "notations disagree");
                }
            }
        }
        run.finish(Finish::new("replay"));
    }

    let tier = run.tier;
    let ro = RenderOpts::new();

    // ---- self-check of the shared machinery (harness sanity, not a verdict)
    {
        let pairs = ty::small_pairs(3, &TyGrammar::full(), 6);
        let bad = pairs.iter().filter(|(t, v)| !t.check(v)).count();
        run.count("selfcheck/small_pairs", pairs.len() as u64);
        if bad > 0 {
            run.inconclusive("harness self-check: small_pairs produced an ill-typed value");
        }
        let mut rng = Rng::stream(run.seed, 0xC05);
        let mut bad = 0;
        for _ in 0..2000 {
            let t = ty::random_ty(&mut rng, 4);
            let v = ty::random_val(&mut rng, &t);
            if !t.check(&v) {
                bad += 1;
            }
        }
        if bad > 0 {
            run.inconclusive("harness self-check: random_val produced an ill-typed value");
        }
    }

    let only = std::env::var("C05_ONLY").unwrap_or_default();
    let part_on = |p: &str| only.is_empty() || only.contains(p);
    if !only.is_empty() {
        run.note(format!("debug run: only parts {only} executed (C05_ONLY)"));
    }
    let truncated = std::sync::atomic::AtomicU64::new(0);
    let seed_runner = Runner::Seed;

    // ---- parts A: exhaustive small schemas x all documents x all single edits
    // (name, grammar, max nodes, aliases+merges woven in, flows)
    let small = TyGrammar::small();
    let full = TyGrammar::full();
    let nodes_override: Vec<usize> =
        std::env::var("C05_NODES").map(|v| v.split(',').filter_map(|x| x.parse().ok()).collect()).unwrap_or_default();
    if !nodes_override.is_empty() {
        run.note(format!("debug run: node bounds overridden by C05_NODES={nodes_override:?}"));
    }
    let nb = |i: usize, d: usize| nodes_override.get(i).copied().unwrap_or(d);
    // weave: 0 = plain documents, 1 = aliases, 2 = merge keys, 3 = both
    let mut spaces: Vec<(&'static str, &TyGrammar, usize, u8, &[bool])> = vec![
        ("A1", &small, nb(0, 4), 0, &[false, true]),
        ("A2", &full, nb(1, tier.pick(3, 4)), 0, &[false, true]),
        ("A3", &small, nb(2, 3), 3, &[false]),
    ];
    if tier == Tier::Thorough {
        spaces.push(("A4", &small, nb(3, 4), 1, &[false]));
        spaces.push(("A5", &small, nb(4, 4), 2, &[false]));
    }
    let mut scope_lines = Vec::new();
    for (name, grammar, max_nodes, woven, flows) in &spaces {
        if !part_on(name) {
            continue;
        }
        // woven spaces: only types in which an alias / a merge key can be placed at all
        // (for the others the documents are exactly those of A1)
        fn has_coll(t: &Ty) -> bool {
            matches!(t, Ty::Seq(_) | Ty::Map(..)) || t.children().iter().any(|c| has_coll(c))
        }
        fn has_wide_struct(t: &Ty) -> bool {
            let here = match t {
                Ty::Struct(s) => s.body.fields.len() >= 2,
                Ty::Enum(e) => e.variants.iter().any(|v| matches!(v, ty::VariantTy::Struct(f) if f.fields.len() >= 2)),
                _ => false,
            };
            here || t.children().iter().any(|c| has_wide_struct(c))
        }
        let tys: Vec<Ty> = ty::small_tys(*max_nodes, grammar)
            .into_iter()
            .filter(|t| *woven == 0 || (*woven & 1 != 0 && has_coll(t)) || (*woven & 2 != 0 && has_wide_struct(t)))
            .collect();
        run.count(&format!("exhaustive/{name}/types"), tys.len() as u64);
        let cfg = TapeCfg {
            rich: false,
            max_len: 2,
            aliases: *woven & 1 != 0,
            merges: *woven & 2 != 0,
            flows,
            ro: &ro,
            runner: &seed_runner,
            mode: "seed",
            part: name,
            ovs: &[0],
            dup_ovs: if *woven == 2 && *max_nodes >= 4 { &[3] } else { &[2, 3] },
            edit_filter: if *woven == 2 && *max_nodes >= 4 {
                Some(merge_edit_filter)
            } else if *woven != 0 && *max_nodes >= 4 {
                Some(woven_edit_filter)
            } else {
                None
            },
            sample_every: 40_009,
        };
        // cost estimate per type (number of documents x edits), biggest first, so the long ones start early
        let costs: Vec<std::sync::atomic::AtomicU64> = tys.iter().map(|_| std::sync::atomic::AtomicU64::new(0)).collect();
        par_range(tys.len(), |i| {
            let mut ch = Chooser::enumerating();
            let (mut cases, mut tapes) = (0u64, 0u64);
            loop {
                ch.rewind();
                let mut b = cfg.builder(&mut ch);
                let _ = b.build(&tys[i]);
                let n_edits = b
                    .sites
                    .iter()
                    .map(|s| s.edits.iter().filter(|(e, _)| cfg.edit_filter.is_none_or(|f| f(e))).count() as u64)
                    .sum::<u64>();
                cases += flows.len() as u64 * (1 + n_edits);
                tapes += 1;
                if !ch.next_tape() || tapes >= TAPE_CAP {
                    break;
                }
            }
            costs[i].store(cases, std::sync::atomic::Ordering::Relaxed);
        });
        let mut order: Vec<usize> = (0..tys.len()).collect();
        order.sort_by_key(|&i| std::cmp::Reverse(costs[i].load(std::sync::atomic::Ordering::Relaxed)));
        let planned: u64 = costs.iter().map(|c| c.load(std::sync::atomic::Ordering::Relaxed)).sum();
        run.count(&format!("exhaustive/{name}/planned_documents_x_edits_x_layouts"), planned);
        eprintln!("part {name}: {} types, {} planned cases, at {:.1}s", tys.len(), planned, run.elapsed_s());
        if std::env::var("C05_PLAN_ONLY").is_ok() {
            continue;
        }
        vcore::run::par_range_chunk(tys.len(), 1, |k| {
            let ty = &tys[order[k]];
            let mut lo = LeafOracle::default();
            let mut loc = Local::default();
            let mut ch = Chooser::enumerating();
            let mut tapes = 0u64;
            loop {
                run_tape(&run, &mut lo, &mut loc, ty, &mut ch, &cfg, |_| None);
                tapes += 1;
                if !ch.next_tape() {
                    break;
                }
                if tapes >= TAPE_CAP {
                    loc.count("exhaustive/truncated_types");
                    truncated.fetch_add(1, std::sync::atomic::Ordering::Relaxed);
                    break;
                }
            }
            loc.add(&format!("exhaustive/{name}/documents"), tapes);
            loc.add("leaf_oracle_calls", lo.calls);
            loc.flush(&run);
        });
        scope_lines.push(format!(
            "[{name}] all types with <= {max_nodes} nodes of {}{} x every matching document{} x every single near-miss edit at every site x layouts {:?} (flow?), read under default options, duplicate-key/-field edits also under {}",
            if std::ptr::eq(*grammar, &small) {
                "the small grammar (leaves i32, String, (), unit-only enum; unary Option / newtype / Vec / Map<String,_> / struct{f0} (+deny_unknown_fields) / enum{V0|V1(T)} / enum{V0|V1{f0:T}}; binary tuple / tuple struct / struct{f0,f1} (+deny) / enum{V0|V1(T,U)})"
            } else {
                "the full shape grammar of vcore::ty::TyGrammar::full() (leaves bool, i32, f64, char, String, (), unit struct, unit-only enum; the same constructors plus Map with String / i32 / bool / char / tuple / struct keys)"
            },
            match *woven {
                1 => " that contain a Vec or Map",
                2 => " that contain a struct with two fields",
                3 => " that contain a Vec, a Map or a struct with two fields",
                _ => "",
            },
            if *woven == 1 {
                " with every placement of an alias (a Vec item / Map value replaced by an alias of an earlier one); edits restricted to arity / kind / null / duplicate / missing / unknown-field ones"
            } else if *woven == 2 {
                " with every merge-key form on structs (`<<: {..}`, `<<: [{..},{..}]`, anchored `<<: &m {..}` / `<<: *m`); edits restricted to duplicate / missing field"
            } else if *woven == 3 { " with every placement of an alias (a Vec item / Map value replaced by an alias of an earlier one) and every merge-key form (`<<: {..}`, `<<: [{..},{..}]`, anchored `<<: &m {..}` / `<<: *m`, with and without an overridden entry, at front / middle / end)" } else { "" },
            flows,
            if *woven == 2 && *max_nodes >= 4 { "FirstWins" } else { "LastWins and FirstWins" }
        ));
    }

    // ---- part B: random schemas of depth <= 3 / 4, half of them with aliases and merge keys, random option vector
    eprintln!("parts A done at {:.1}s", run.elapsed_s());
    let n_types = tier.pick(60_000, 600_000);
    let depth = tier.pick(3, 4);
    par_range(if part_on("B") { n_types } else { 0 }, |i| {
        let mut rng = Rng::stream(run.seed, i as u64);
        let cfg = TyCfg { nullable_in_option: rng.chance(1, 8), ..TyCfg::default() };
        let d = if rng.chance(1, 4) { 2 } else { depth };
        let ty = ty::random_ty_with(&mut rng, d, &cfg);
        let mut lo = LeafOracle::default();
        let mut loc = Local::default();
        loc.count(&format!("random/type_depth:{}", ty.depth()));
        for j in 0..4u64 {
            let mut ch = Chooser::random(Rng::stream(run.seed ^ 0x5EED, (i as u64) * 8 + j));
            let flow = [rng.chance(1, 3)];
            let ro = RenderOpts { indent: *rng.pick(&[1usize, 2, 4]), brk: "\n", compact: rng.bool() };
            let mut erng = Rng::stream(run.seed ^ 0xED17, (i as u64) * 8 + j);
            let woven = rng.bool();
            let ov = [if rng.chance(1, 2) { 0 } else { rng.below(OPT_NAMES.len()) }];
            let tcfg = TapeCfg {
                rich: true,
                max_len: 3,
                aliases: woven,
                merges: woven,
                flows: &flow,
                ro: &ro,
                runner: &seed_runner,
                mode: "seed",
                part: "random",
                ovs: &ov,
                dup_ovs: &[2, 3],
                edit_filter: None,
                sample_every: 200_003,
            };
            run_tape(&run, &mut lo, &mut loc, &ty, &mut ch, &tcfg, |n| {
                Some((0..n.min(6)).map(|_| erng.below(n.max(1))).filter(|_| n > 0).collect())
            });
        }
        loc.add("leaf_oracle_calls", lo.calls);
        loc.flush(&run);
    });

    // ---- part C: real derived types through from_str_with_options, same oracle
    eprintln!("part B done at {:.1}s", run.elapsed_s());
    let fam = derived::family();
    let n_derived = tier.pick(20_000, 150_000);
    par_range(if part_on("C") { fam.len() * n_derived } else { 0 }, |idx| {
        let d = &fam[idx % fam.len()];
        let mut rng = Rng::stream(run.seed ^ 0xDE71, idx as u64);
        let mut lo = LeafOracle::default();
        let mut loc = Local::default();
        let mut ch = Chooser::random(Rng::stream(run.seed ^ 0xD0C5, idx as u64));
        let flow = [rng.chance(1, 3)];
        let ro = RenderOpts { indent: *rng.pick(&[2usize, 4]), brk: "\n", compact: rng.bool() };
        let mode = format!("derived:{}", d.name);
        let runner = Runner::Derived(d);
        let woven = rng.bool();
        let ov = [if d.buffered || rng.chance(1, 2) { 0 } else { rng.below(OPT_NAMES.len()) }];
        let tcfg = TapeCfg {
            rich: true,
            max_len: 3,
            aliases: woven,
            merges: woven,
            flows: &flow,
            ro: &ro,
            runner: &runner,
            mode: &mode,
            part: "derived",
            ovs: &ov,
            dup_ovs: if d.buffered { &[] } else { &[2, 3] },
            edit_filter: None,
            sample_every: 100_003,
        };
        run_tape(&run, &mut lo, &mut loc, &d.ty, &mut ch, &tcfg, |n| {
            Some((0..n.min(8)).map(|_| rng.below(n.max(1))).filter(|_| n > 0).collect())
        });
        loc.flush(&run);
    });

    // ---- part D: `!Variant P` == `{Variant: P}` (metamorphic, no table): fixed product + random payloads
    eprintln!("part C done at {:.1}s", run.elapsed_s());
    {
        let ptys = notation_payload_types();
        let mut payloads = scalar_payloads();
        payloads.extend(container_payloads());
        run.count("notations/payload_pool", payloads.len() as u64);
        run.count("notations/payload_types", ptys.len() as u64);
        par_range(if part_on("D") { ptys.len() * 4 } else { 0 }, |w| {
            let (i, ctx) = (w / 4, w % 4);
            let ety = notation_enum(ptys[i].clone());
            let mut lo = LeafOracle::default();
            let mut loc = Local::default();
            // unit / tuple / struct variants do not depend on T: run them for the first T only
            let variants: &[usize] = if i == 0 { &[0, 1, 2, 3] } else { &[1] };
            for &v in variants {
                for p in &payloads {
                    for flow in [false, true] {
                        for ov in [0, 1] {
                            check_notations(&run, &mut lo, &mut loc, &ety, v, p, ctx, flow, ov, &ro, "notations");
                        }
                    }
                }
            }
            loc.flush(&run);
        });
        let n_rand = tier.pick(80_000, 800_000);
        par_range(if part_on("D") { n_rand } else { 0 }, |i| {
            let mut rng = Rng::stream(run.seed ^ 0x7A65, i as u64);
            let cfg = TyCfg { nullable_in_option: rng.chance(1, 8), ..TyCfg::default() };
            let d = rng.range(1, 3);
            let pt = ty::random_ty_with(&mut rng, d, &cfg);
            let ety = notation_enum(pt.clone());
            let mut lo = LeafOracle::default();
            let mut loc = Local::default();
            // payload: a document for T (exact, or with one random near-miss edit)
            let mut ch = Chooser::random(Rng::stream(run.seed ^ 0x7A66, i as u64));
            let sites = {
                let mut b = Builder::new(&mut ch, true, 2);
                let _ = b.build(&pt);
                b.sites
            };
            let mut all: Vec<(usize, Edit)> = Vec::new();
            for (si, st) in sites.iter().enumerate() {
                for (e, _) in &st.edits {
                    all.push((si, e.clone()));
                }
            }
            for k in 0..3 {
                ch.rewind();
                ch.frozen = true;
                let node = {
                    let mut b = Builder::new(&mut ch, true, 2);
                    if k > 0 && !all.is_empty() {
                        b.edit = Some(all[rng.below(all.len())].clone());
                    }
                    b.build(&pt)
                };
                ch.frozen = false;
                let ctx = rng.below(4);
                let flow = rng.chance(1, 3);
                check_notations(&run, &mut lo, &mut loc, &ety, 1, &node, ctx, flow, 0, &ro, "notations-random");
            }
            loc.flush(&run);
        });
    }

    let fin = Finish::new(
        "a case counts when the schema has depth >= 2 and the document is an exact match, exactly one near-miss edit away \
         (every generated case of parts A-C is, by construction), or one side of a notation pair (part D); \
         distinct by hash(type, document, runner, option vector)",
    );
    let scope = format!(
        "{}. Matching documents: Option none/some, Vec/Map lengths 0..=2 (nested: 0..=1), every variant; first variant in every \
         notation `V`, `{{V: ~}}`, `!!E V`, `!E V`, `!V`, later unit variants `V` and `!V`, payload variants `{{V: p}}` and `!V p`; \
         optional fields present/absent, field order straight/rotated. Plus (part D) the product 23 payload types x 57 payload nodes x \
         4 variants x 4 parent positions x block/flow x 2 option vectors of the relation `!V P` == `{{V: P}}`",
        scope_lines.join("; ")
    );
    let all_a = spaces.iter().all(|(n, ..)| part_on(n));
    let fin = if truncated.load(std::sync::atomic::Ordering::Relaxed) == 0 && all_a && std::env::var("C05_PLAN_ONLY").is_err() {
        fin.exhaustive(scope)
    } else {
        fin
    };
    let fin = fin
        .assume("raw saphyr-parser event tree of the document is the ground truth for its shape")
        .assume("value of a scalar for a scalar type = what the library returns for that scalar alone under the same options (leaf values are C06's subject)")
        .assume("anchors/aliases are transparent (C02) and merge keys follow the YAML merge rule, own entries first (C03): documents with them are judged on the expanded / merged raw-parser tree")
        .assume("duplicate keys: error under the default policy, later pair skipped under FirstWins, passed through under LastWins (derived structs then report duplicate_field)")
        .min_nontrivial(if tier == Tier::Quick { 500_000 } else { 5_000_000 });
    run.finish(fin);
}
