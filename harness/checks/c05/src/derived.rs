//! A handful of ordinary `#[derive(Deserialize)]` types, each with its mirror
//! `Ty` and a conversion to `TVal`, so the genuine derive code paths are judged
//! by the same reference interpreter as the dynamic `SchemaSeed`.
//! Names follow vcore::ty's pools (S0.., E0.., f0.., V0..).

#![allow(dead_code)]

use serde::Deserialize;
use serde_saphyr::Spanned;
use std::collections::BTreeMap;
use std::rc::Rc;
use std::sync::Arc;
use vcore::ty::{FieldTy, Fields, StructTy, TVal, Ty, VariantTy};

#[derive(Deserialize, Debug)]
pub enum E0 {
    V0,
    V1(i32),
    V2(i32, String),
    V3 { f0: i32, f1: Option<bool> },
}

#[derive(Deserialize, Debug)]
pub struct S0 {
    f0: i32,
    f1: Option<String>,
    f2: Vec<(i32, String)>,
    #[serde(default)]
    f3: u8,
}

#[derive(Deserialize, Debug)]
pub struct S2(pub i64, pub Option<E0>);

#[derive(Deserialize, Debug)]
#[serde(deny_unknown_fields)]
pub struct S1 {
    f0: E0,
    f1: BTreeMap<String, E0>,
    f2: S2,
}

#[derive(Deserialize, Debug)]
pub struct S3(pub Vec<E0>);

#[derive(Deserialize, Debug)]
pub struct S4;

#[derive(Deserialize, Debug)]
pub struct S5 {
    f0: Spanned<i32>,
    f1: (S4, [i32; 2]),
    f2: Option<Box<S0>>,
    f3: S3,
}

/// Wrapped positions: Rc / Arc / Box / Spanned around containers and enums, the crate's own
/// `RcAnchor` / `ArcAnchor`, and a `#[serde(flatten)]`ed struct (the README says flattening parses).
#[derive(Deserialize, Debug)]
pub struct S6 {
    f0: Rc<S0>,
    f1: Arc<Vec<E0>>,
    f2: Spanned<E0>,
    f3: Spanned<(i32, String)>,
    f4: Box<E0>,
    f5: Option<Rc<(i64, Box<Option<E0>>)>>,
}

#[derive(Deserialize, Debug)]
pub struct S7 {
    f0: serde_saphyr::RcAnchor<S2>,
    f1: Vec<serde_saphyr::ArcAnchor<E0>>,
    f2: Spanned<Vec<Spanned<i32>>>,
}

#[derive(Deserialize, Debug)]
pub struct Inner {
    f1: String,
    f2: Option<i32>,
    f3: Vec<i32>,
}

#[derive(Deserialize, Debug)]
pub struct Flat {
    f0: i32,
    #[serde(flatten)]
    rest: Inner,
}

pub trait ToTVal {
    fn tv(&self) -> TVal;
}

impl ToTVal for i32 {
    fn tv(&self) -> TVal {
        TVal::I(*self as i128)
    }
}
impl ToTVal for i64 {
    fn tv(&self) -> TVal {
        TVal::I(*self as i128)
    }
}
impl ToTVal for u8 {
    fn tv(&self) -> TVal {
        TVal::U(*self as u128)
    }
}
impl ToTVal for bool {
    fn tv(&self) -> TVal {
        TVal::Bool(*self)
    }
}
impl ToTVal for String {
    fn tv(&self) -> TVal {
        TVal::Str(self.clone())
    }
}
impl<T: ToTVal> ToTVal for Option<T> {
    fn tv(&self) -> TVal {
        match self {
            None => TVal::None,
            Some(x) => TVal::some(x.tv()),
        }
    }
}
impl<T: ToTVal> ToTVal for Rc<T> {
    fn tv(&self) -> TVal {
        (**self).tv()
    }
}
impl<T: ToTVal> ToTVal for Arc<T> {
    fn tv(&self) -> TVal {
        (**self).tv()
    }
}
impl<T: ToTVal> ToTVal for serde_saphyr::RcAnchor<T> {
    fn tv(&self) -> TVal {
        (*self.0).tv()
    }
}
impl<T: ToTVal> ToTVal for serde_saphyr::ArcAnchor<T> {
    fn tv(&self) -> TVal {
        (*self.0).tv()
    }
}
impl ToTVal for S6 {
    fn tv(&self) -> TVal {
        TVal::Struct(vec![self.f0.tv(), self.f1.tv(), self.f2.tv(), self.f3.tv(), self.f4.tv(), self.f5.tv()])
    }
}
impl ToTVal for S7 {
    fn tv(&self) -> TVal {
        TVal::Struct(vec![self.f0.tv(), self.f1.tv(), self.f2.tv()])
    }
}
impl ToTVal for Flat {
    fn tv(&self) -> TVal {
        TVal::Struct(vec![self.f0.tv(), self.rest.f1.tv(), self.rest.f2.tv(), self.rest.f3.tv()])
    }
}
impl<T: ToTVal> ToTVal for Box<T> {
    fn tv(&self) -> TVal {
        (**self).tv()
    }
}
impl<T: ToTVal> ToTVal for Vec<T> {
    fn tv(&self) -> TVal {
        TVal::Seq(self.iter().map(|x| x.tv()).collect())
    }
}
impl<T: ToTVal> ToTVal for [T; 2] {
    fn tv(&self) -> TVal {
        TVal::Tuple(self.iter().map(|x| x.tv()).collect())
    }
}
impl<A: ToTVal, B: ToTVal> ToTVal for (A, B) {
    fn tv(&self) -> TVal {
        TVal::Tuple(vec![self.0.tv(), self.1.tv()])
    }
}
impl<K: ToTVal, V: ToTVal> ToTVal for BTreeMap<K, V> {
    fn tv(&self) -> TVal {
        TVal::Map(self.iter().map(|(k, v)| (k.tv(), v.tv())).collect())
    }
}
impl<T: ToTVal> ToTVal for Spanned<T> {
    fn tv(&self) -> TVal {
        self.value.tv()
    }
}
impl ToTVal for E0 {
    fn tv(&self) -> TVal {
        match self {
            E0::V0 => TVal::variant(0, TVal::Unit),
            E0::V1(a) => TVal::variant(1, a.tv()),
            E0::V2(a, b) => TVal::variant(2, TVal::Tuple(vec![a.tv(), b.tv()])),
            E0::V3 { f0, f1 } => TVal::variant(3, TVal::Struct(vec![f0.tv(), f1.tv()])),
        }
    }
}
impl ToTVal for S0 {
    fn tv(&self) -> TVal {
        TVal::Struct(vec![self.f0.tv(), self.f1.tv(), self.f2.tv(), self.f3.tv()])
    }
}
impl ToTVal for S1 {
    fn tv(&self) -> TVal {
        TVal::Struct(vec![self.f0.tv(), self.f1.tv(), self.f2.tv()])
    }
}
impl ToTVal for S2 {
    fn tv(&self) -> TVal {
        TVal::Tuple(vec![self.0.tv(), self.1.tv()])
    }
}
impl ToTVal for S3 {
    fn tv(&self) -> TVal {
        self.0.tv()
    }
}
impl ToTVal for S4 {
    fn tv(&self) -> TVal {
        TVal::Unit
    }
}
impl ToTVal for S5 {
    fn tv(&self) -> TVal {
        TVal::Struct(vec![self.f0.tv(), self.f1.tv(), self.f2.tv(), self.f3.tv()])
    }
}

fn fld(ty: Ty) -> FieldTy {
    FieldTy { ty, default: false }
}

pub fn ty_e0() -> Ty {
    Ty::enumeration(
        0,
        0,
        vec![
            VariantTy::Unit,
            VariantTy::Newtype(Ty::I32),
            VariantTy::Tuple(vec![Ty::I32, Ty::Str]),
            VariantTy::Struct(Fields::new(vec![Ty::I32, Ty::opt(Ty::Bool)], false)),
        ],
    )
}
pub fn ty_s0() -> Ty {
    Ty::Struct(StructTy {
        name: 0,
        body: Fields {
            fields: vec![
                fld(Ty::I32),
                fld(Ty::opt(Ty::Str)),
                fld(Ty::seq(Ty::Tuple(vec![Ty::I32, Ty::Str]))),
                FieldTy { ty: Ty::U8, default: true },
            ],
            deny_unknown: false,
        },
    })
}
pub fn ty_s2() -> Ty {
    Ty::TupleStruct(2, vec![Ty::I64, Ty::opt(ty_e0())])
}
pub fn ty_s1() -> Ty {
    Ty::strukt(1, vec![ty_e0(), Ty::map(Ty::Str, ty_e0()), ty_s2()], true)
}
pub fn ty_s3() -> Ty {
    Ty::newtype(3, Ty::seq(ty_e0()))
}
pub fn ty_s5() -> Ty {
    Ty::strukt(
        5,
        vec![
            Ty::I32,
            Ty::Tuple(vec![Ty::UnitStruct(4), Ty::Tuple(vec![Ty::I32, Ty::I32])]),
            Ty::opt(ty_s0()),
            ty_s3(),
        ],
        false,
    )
}

pub fn ty_s6() -> Ty {
    Ty::strukt(
        6,
        vec![
            ty_s0(),
            Ty::seq(ty_e0()),
            ty_e0(),
            Ty::Tuple(vec![Ty::I32, Ty::Str]),
            ty_e0(),
            Ty::opt(Ty::Tuple(vec![Ty::I64, Ty::opt(ty_e0())])),
        ],
        false,
    )
}
pub fn ty_s7() -> Ty {
    Ty::strukt(7, vec![ty_s2(), Ty::seq(ty_e0()), Ty::seq(Ty::I32)], false)
}
/// `Flat` seen from YAML: one flat mapping f0..f3
pub fn ty_flat() -> Ty {
    Ty::strukt(0, vec![Ty::I32, Ty::Str, Ty::opt(Ty::I32), Ty::seq(Ty::I32)], false)
}

pub struct Derived {
    pub name: &'static str,
    pub ty: Ty,
    pub run: fn(&str, serde_saphyr::Options) -> Result<TVal, serde_saphyr::Error>,
    /// the target goes through serde's buffered `Content` (flatten): scalars are typed by
    /// `deserialize_any` first, so only structure is compared strictly (see main.rs)
    pub buffered: bool,
}

fn run_as<T: for<'de> Deserialize<'de> + ToTVal>(doc: &str, o: serde_saphyr::Options) -> Result<TVal, serde_saphyr::Error> {
    serde_saphyr::from_str_with_options::<T>(doc, o).map(|v| v.tv())
}

pub fn family() -> Vec<Derived> {
    vec![
        Derived { name: "S6", ty: ty_s6(), run: run_as::<S6>, buffered: false },
        Derived { name: "S7", ty: ty_s7(), run: run_as::<S7>, buffered: false },
        Derived { name: "Flat", ty: ty_flat(), run: run_as::<Flat>, buffered: true },
        Derived { name: "E0", ty: ty_e0(), run: run_as::<E0>, buffered: false },
        Derived { name: "S0", ty: ty_s0(), run: run_as::<S0>, buffered: false },
        Derived { name: "S1", ty: ty_s1(), run: run_as::<S1>, buffered: false },
        Derived { name: "S3", ty: ty_s3(), run: run_as::<S3>, buffered: false },
        Derived { name: "S5", ty: ty_s5(), run: run_as::<S5>, buffered: false },
        Derived { name: "VecE0", ty: Ty::seq(ty_e0()), run: run_as::<Vec<E0>>, buffered: false },
        Derived { name: "PairE0S2", ty: Ty::Tuple(vec![ty_e0(), ty_s2()]), run: run_as::<(E0, S2)>, buffered: false },
        Derived { name: "MapStrS0", ty: Ty::map(Ty::Str, ty_s0()), run: run_as::<BTreeMap<String, S0>>, buffered: false },
    ]
}
