//! Document generator: builds a YAML node tree that matches a `Ty` (unique scalar
//! tokens, all enum notations), optionally perturbed by exactly one near-miss
//! edit at one site. All choices go through a `Chooser` tape, so the same code
//! serves random generation (tape filled from an RNG) and exhaustive enumeration
//! (odometer over the tape), and a document can be rebuilt identically with an
//! edit applied.

use vcore::rng::Rng;
use vcore::ty::{ENUM_NAMES, EnumTy, FIELD_NAMES, Fields, Ty, VARIANT_NAMES, VariantTy};
use vcore::ydoc::{Node, Style};

pub struct Chooser {
    tape: Vec<(u32, u32)>,
    pos: usize,
    rng: Option<Rng>,
    /// while frozen, choices past the end of the tape are made but not recorded
    /// (edit rebuilds must not grow the tape the odometer works on)
    pub frozen: bool,
}

impl Chooser {
    pub fn random(rng: Rng) -> Chooser {
        Chooser { tape: Vec::new(), pos: 0, rng: Some(rng), frozen: false }
    }
    pub fn enumerating() -> Chooser {
        Chooser { tape: Vec::new(), pos: 0, rng: None, frozen: false }
    }
    pub fn choose(&mut self, n: usize) -> usize {
        let n = n.max(1);
        if self.pos < self.tape.len() {
            let c = self.tape[self.pos].0 as usize;
            self.pos += 1;
            c.min(n - 1)
        } else {
            let c = match &mut self.rng {
                Some(r) => r.below(n),
                None => 0,
            };
            if !self.frozen {
                self.tape.push((c as u32, n as u32));
                self.pos += 1;
            }
            c
        }
    }
    pub fn rewind(&mut self) {
        self.pos = 0;
    }
    /// Odometer step: next choice vector in lexicographic order; false when exhausted.
    pub fn next_tape(&mut self) -> bool {
        self.pos = 0;
        while let Some((c, n)) = self.tape.pop() {
            if c + 1 < n {
                self.tape.push((c + 1, n));
                return true;
            }
        }
        false
    }
}

#[derive(Clone, Copy, Debug, PartialEq, Eq)]
pub enum Intent {
    MustErr,
    Any,
}

#[derive(Clone, Debug, PartialEq, Eq)]
pub enum Edit {
    /// insert one extra element at position, flavor 0 int-like / 1 string / 2 null / 3 small seq
    Surplus(usize, u8),
    Short(usize),
    ScalarForContainer,
    /// replace by `[tok]` (false) or `{tok: tok}` (true)
    ContainerForScalar(bool),
    /// the other collection kind where one is required
    WrongContainer,
    NullForContainer,
    DuplicateKey,
    UnknownField(u8),
    MissingField(usize),
    DuplicateField(usize),
    UnknownVariant,
    TwoEntryMap,
    UnitPayloadMap,
    UnitPayloadTagScalar,
    UnitPayloadTagSeq,
    TagOtherEnum,
    TagOtherVariant,
    BareName,
    /// `Variant` and its payload as two sibling items of the parent sequence
    SplitIntoSiblings,
    TagOnMapPayload,
    /// `{}` where `()` / a unit struct is expected (unspecified class)
    EmptyMapForUnit,
    /// a `!!binary` scalar where a sequence is expected (unspecified class)
    BinaryForSeq,
}

impl Edit {
    pub fn label(&self) -> String {
        format!("{self:?}")
    }
    pub fn class(&self) -> &'static str {
        match self {
            Edit::Surplus(..) => "surplus",
            Edit::Short(_) => "short",
            Edit::ScalarForContainer => "scalar-for-container",
            Edit::ContainerForScalar(_) => "container-for-scalar",
            Edit::WrongContainer => "wrong-container",
            Edit::NullForContainer => "null-for-container",
            Edit::DuplicateKey => "duplicate-key",
            Edit::UnknownField(_) => "unknown-field",
            Edit::MissingField(_) => "missing-field",
            Edit::DuplicateField(_) => "duplicate-field",
            Edit::UnknownVariant => "unknown-variant",
            Edit::TwoEntryMap => "two-entry-map",
            Edit::UnitPayloadMap => "unit-payload-map",
            Edit::UnitPayloadTagScalar => "unit-payload-tag-scalar",
            Edit::UnitPayloadTagSeq => "unit-payload-tag-seq",
            Edit::TagOtherEnum => "tag-other-enum",
            Edit::TagOtherVariant => "tag-other-variant",
            Edit::BareName => "bare-name",
            Edit::SplitIntoSiblings => "split-into-siblings",
            Edit::TagOnMapPayload => "tag-on-map-payload",
            Edit::EmptyMapForUnit => "empty-map-for-unit",
            Edit::BinaryForSeq => "binary-for-seq",
        }
    }
}

#[derive(Clone, Debug)]
pub struct Site {
    /// kind of the Rust position ("tuple", "struct", "enum", ...)
    pub kind: &'static str,
    /// kind of the parent position ("root", "seq-item", "tuple-item", "map-value", "map-key", "field", "payload", "option")
    pub parent: &'static str,
    pub edits: Vec<(Edit, Intent)>,
}

pub struct Builder<'c> {
    pub ch: &'c mut Chooser,
    tok: usize,
    next_site: usize,
    pub edit: Option<(usize, Edit)>,
    pub sites: Vec<Site>,
    /// more variety (styles, orders, longer collections) — random mode
    pub rich: bool,
    pub max_len: usize,
    parent: &'static str,
    pending_sibling: Option<Node>,
    pub edit_applied: bool,
    /// nesting depth of variable-length collections (Vec / Map) being built
    coll_depth: usize,
    /// weave anchors + aliases into Vec items / Map values (an item becomes an alias of an earlier one)
    pub aliases: bool,
    /// weave merge keys into struct mappings (`<<: {..}`, `<<: [{..}, {..}]`, `<<: *m`)
    pub merges: bool,
    pub aliases_made: usize,
    pub merges_made: usize,
    anchor_ctr: usize,
    /// most recent anchored merge source: (identity of the field list, anchor name, fields it provides)
    last_merge: Option<(usize, String, Vec<usize>)>,
}

fn b64(data: &[u8]) -> String {
    const A: &[u8] = b"ABCDEFGHIJKLMNOPQRSTUVWXYZabcdefghijklmnopqrstuvwxyz0123456789+/";
    let mut s = String::new();
    for ch in data.chunks(3) {
        let b = [ch[0], *ch.get(1).unwrap_or(&0), *ch.get(2).unwrap_or(&0)];
        let n = ((b[0] as u32) << 16) | ((b[1] as u32) << 8) | b[2] as u32;
        s.push(A[(n >> 18) as usize & 63] as char);
        s.push(A[(n >> 12) as usize & 63] as char);
        s.push(if ch.len() > 1 { A[(n >> 6) as usize & 63] as char } else { '=' });
        s.push(if ch.len() > 2 { A[n as usize & 63] as char } else { '=' });
    }
    s
}

fn has_tag(n: &Node) -> bool {
    match n {
        Node::Scalar { tag, .. } | Node::Seq { tag, .. } | Node::Map { tag, .. } => tag.is_some(),
        Node::Alias(_) => false,
    }
}

impl<'c> Builder<'c> {
    pub fn new(ch: &'c mut Chooser, rich: bool, max_len: usize) -> Builder<'c> {
        Builder {
            ch,
            tok: 0,
            next_site: 0,
            edit: None,
            sites: Vec::new(),
            rich,
            max_len,
            parent: "root",
            pending_sibling: None,
            edit_applied: false,
            coll_depth: 0,
            aliases: false,
            merges: false,
            aliases_made: 0,
            merges_made: 0,
            anchor_ctr: 0,
            last_merge: None,
        }
    }

    /// Length choice of a Vec / Map: 0..=max_len; in enumeration mode nested
    /// collections are limited to 0..=1 (the outermost one takes every length).
    fn choose_len(&mut self, cap: usize) -> usize {
        let cap = if !self.rich && self.coll_depth > 0 { cap.min(1) } else { cap };
        self.ch.choose(cap + 1)
    }

    /// A 1-in-3 choice in random mode; in enumeration mode a plain yes/no (no duplicate tapes).
    fn one_in_three(&mut self) -> bool {
        if self.rich { self.ch.choose(3) == 0 } else { self.ch.choose(2) == 0 }
    }

    fn null_text(&mut self) -> &'static str {
        if self.rich && self.ch.choose(2) == 1 { "null" } else { "~" }
    }

    fn next_tok(&mut self) -> usize {
        self.tok += 1;
        self.tok
    }

    fn fresh_int(&mut self) -> Node {
        let t = self.next_tok();
        Node::plain(&format!("{}", 1900 + t))
    }
    fn fresh_str(&mut self) -> Node {
        let t = self.next_tok();
        Node::plain(&format!("x{}", 900 + t))
    }

    fn str_style(&mut self) -> Style {
        if self.rich {
            match self.ch.choose(4) {
                0 | 1 => Style::Plain,
                2 => Style::Single,
                _ => Style::Double,
            }
        } else {
            Style::Plain
        }
    }

    fn leaf(&mut self, ty: &Ty) -> Node {
        let t = self.next_tok();
        match ty {
            Ty::Str => {
                let st = self.str_style();
                Node::styled(&format!("s{t}"), st)
            }
            Ty::I8 => Node::plain(&format!("{}", (t % 100) as i64 + 1)),
            Ty::U8 => Node::plain(&format!("{}", (t % 200) + 1)),
            t2 if t2.is_int() => Node::plain(&format!("{}", 1000 + t)),
            Ty::F32 | Ty::F64 => Node::plain(&format!("{t}.5")),
            Ty::Bool => {
                let v = t % 2 == 0;
                let s = if self.rich {
                    let pool: &[&str] = if v { &["true", "True", "yes", "on"] } else { &["false", "False", "no", "off"] };
                    pool[self.ch.choose(pool.len())]
                } else if v {
                    "true"
                } else {
                    "false"
                };
                Node::plain(s)
            }
            Ty::Char => {
                let c = (b'a' + (t % 26) as u8) as char;
                let st = self.str_style();
                Node::styled(&c.to_string(), st)
            }
            Ty::Unit | Ty::UnitStruct(_) => Node::plain(self.null_text()),
            Ty::Bytes => Node::plain(&b64(&[t as u8, (t >> 8) as u8, 7])).with_tag("!!binary"),
            _ => unreachable!(),
        }
    }

    fn begin_site(&mut self, kind: &'static str, edits: Vec<(Edit, Intent)>) -> Option<Edit> {
        let id = self.next_site;
        self.next_site += 1;
        self.sites.push(Site { kind, parent: self.parent, edits });
        match &self.edit {
            Some((s, e)) if *s == id => {
                self.edit_applied = true;
                Some(e.clone())
            }
            _ => None,
        }
    }

    fn child(&mut self, ty: &Ty, parent: &'static str) -> Node {
        let saved = self.parent;
        self.parent = parent;
        let n = self.build(ty);
        self.parent = saved;
        n
    }

    /// Items of a sequence-like parent; a `SplitIntoSiblings` edit in an item adds a sibling.
    fn items(&mut self, tys: &mut dyn Iterator<Item = &Ty>, parent: &'static str) -> Vec<Node> {
        let mut out: Vec<Node> = Vec::new();
        for t in tys {
            self.pending_sibling = None;
            let before = self.edit_applied;
            let n = self.child(t, parent);
            let touched = self.edit_applied != before || self.pending_sibling.is_some();
            let n = if parent == "seq-item" && !touched { self.maybe_alias(&mut out.iter_mut().collect::<Vec<_>>(), n) } else { n };
            out.push(n);
            if let Some(s) = self.pending_sibling.take() {
                out.push(s);
            }
        }
        out
    }

    /// With `aliases` on: sometimes replace the freshly built node (same type as `earlier`) by an
    /// alias of one of the earlier nodes, which gets an anchor.
    fn maybe_alias(&mut self, earlier: &mut [&mut Node], n: Node) -> Node {
        if !self.aliases || earlier.is_empty() || !self.one_in_three() {
            return n;
        }
        if n.has_anchor() {
            return n; // it defines an anchor that later nodes may refer to
        }
        let j = self.ch.choose(earlier.len());
        let target = &mut *earlier[j];
        let name = match target {
            Node::Alias(a) => a.clone(),
            other => match other.anchor() {
                Some(a) => a.to_string(),
                None => {
                    self.anchor_ctr += 1;
                    let a = format!("a{}", self.anchor_ctr);
                    *other = other.clone().with_anchor(&a);
                    a
                }
            },
        };
        self.aliases_made += 1;
        Node::alias(&name)
    }

    fn container_edits(&self, out: &mut Vec<(Edit, Intent)>) {
        out.push((Edit::ScalarForContainer, Intent::MustErr));
        out.push((Edit::WrongContainer, Intent::MustErr));
        out.push((Edit::NullForContainer, Intent::Any));
    }

    fn apply_container_edit(&mut self, e: &Edit, is_seq_like: bool) -> Option<Node> {
        match e {
            Edit::ScalarForContainer => Some(self.fresh_str()),
            Edit::NullForContainer => Some(Node::plain("~")),
            Edit::BinaryForSeq => Some(Node::plain("AQID").with_tag("!!binary")),
            Edit::WrongContainer => Some(if is_seq_like {
                let (k, v) = (self.fresh_str(), self.fresh_int());
                Node::map(vec![(k, v)])
            } else {
                let v = self.fresh_int();
                Node::seq(vec![v])
            }),
            _ => None,
        }
    }

    pub fn build(&mut self, ty: &Ty) -> Node {
        match ty {
            Ty::Newtype(_, inner) => self.build(inner),
            Ty::Option(inner) => {
                if self.one_in_three() {
                    self.pending_sibling = None;
                    Node::plain(self.null_text())
                } else {
                    self.build(inner)
                }
            }
            t if t.is_scalar() => {
                let mut edits =
                    vec![(Edit::ContainerForScalar(false), Intent::MustErr), (Edit::ContainerForScalar(true), Intent::MustErr)];
                if matches!(t, Ty::Unit | Ty::UnitStruct(_)) {
                    edits.push((Edit::EmptyMapForUnit, Intent::Any));
                }
                let e = self.begin_site("scalar", edits);
                let n = self.leaf(t);
                match e {
                    Some(Edit::EmptyMapForUnit) => Node::map(vec![]),
                    Some(Edit::ContainerForScalar(false)) => {
                        let v = self.fresh_str();
                        Node::seq(vec![v])
                    }
                    Some(Edit::ContainerForScalar(true)) => {
                        let (k, v) = (self.fresh_str(), self.fresh_str());
                        Node::map(vec![(k, v)])
                    }
                    _ => n,
                }
            }
            Ty::Seq(inner) => {
                let mut edits = Vec::new();
                self.container_edits(&mut edits);
                edits.push((Edit::BinaryForSeq, Intent::Any));
                let e = self.begin_site("seq", edits);
                let len = self.choose_len(self.max_len);
                let tys: Vec<&Ty> = (0..len).map(|_| &**inner).collect();
                self.coll_depth += 1;
                let items = self.items(&mut tys.into_iter(), "seq-item");
                self.coll_depth -= 1;
                match e.as_ref().and_then(|e| self.apply_container_edit(e, true)) {
                    Some(n) => n,
                    None => Node::seq(items),
                }
            }
            Ty::Tuple(ts) | Ty::TupleStruct(_, ts) => self.tuple(ts, if matches!(ty, Ty::Tuple(_)) { "tuple" } else { "tuple-struct" }),
            Ty::Map(k, v) => {
                let mut edits = Vec::new();
                self.container_edits(&mut edits);
                edits.push((Edit::DuplicateKey, Intent::MustErr));
                let e = self.begin_site("map", edits);
                let cap = if matches!(k.peel_newtypes(), Ty::Bool) { 2 } else { self.max_len };
                let len = self.choose_len(cap);
                self.coll_depth += 1;
                let mut entries = Vec::new();
                for i in 0..len {
                    let kn = if matches!(k.peel_newtypes(), Ty::Bool) {
                        Node::plain(if i == 0 { "true" } else { "false" })
                    } else {
                        self.child(k, "map-key")
                    };
                    let before = self.edit_applied;
                    let vn = self.child(v, "map-value");
                    let vn = if self.edit_applied == before {
                        let mut earlier: Vec<&mut Node> = entries.iter_mut().map(|(_, x): &mut (Node, Node)| x).collect();
                        self.maybe_alias(&mut earlier, vn)
                    } else {
                        vn
                    };
                    entries.push((kn, vn));
                }
                self.coll_depth -= 1;
                match e {
                    Some(Edit::DuplicateKey) => {
                        if entries.is_empty() {
                            let kn = self.child(k, "map-key");
                            let vn = self.child(v, "map-value");
                            entries.push((kn, vn));
                        }
                        let kn = entries[0].0.clone();
                        let vn = self.child(v, "map-value");
                        entries.push((kn, vn));
                        Node::map(entries)
                    }
                    Some(e) => self.apply_container_edit(&e, false).unwrap_or_else(|| Node::map(entries)),
                    None => Node::map(entries),
                }
            }
            Ty::Struct(s) => self.fields(&s.body, "struct"),
            Ty::Enum(e) => self.enumeration(e),
            _ => unreachable!(),
        }
    }

    fn tuple(&mut self, ts: &[Ty], kind: &'static str) -> Node {
        let mut edits = Vec::new();
        self.container_edits(&mut edits);
        for pos in 0..=ts.len() {
            for fl in 0..4u8 {
                edits.push((Edit::Surplus(pos, fl), Intent::MustErr));
            }
        }
        for i in 0..ts.len() {
            edits.push((Edit::Short(i), Intent::MustErr));
        }
        let e = self.begin_site(kind, edits);
        let mut items = self.items(&mut ts.iter(), "tuple-item");
        match e {
            Some(Edit::Surplus(pos, fl)) => {
                let extra = match fl {
                    0 => self.fresh_int(),
                    1 => self.fresh_str(),
                    2 => Node::plain("~"),
                    _ => {
                        let v = self.fresh_int();
                        Node::seq(vec![v])
                    }
                };
                items.insert(pos.min(items.len()), extra);
                Node::seq(items)
            }
            Some(Edit::Short(i)) => {
                if i < items.len() {
                    items.remove(i);
                }
                Node::seq(items)
            }
            Some(e) => self.apply_container_edit(&e, true).unwrap_or_else(|| Node::seq(items)),
            None => Node::seq(items),
        }
    }

    fn fields(&mut self, f: &Fields, kind: &'static str) -> Node {
        let n = f.fields.len();
        // decide presence first (tape order is fixed)
        let mut present = vec![true; n];
        for (i, p) in present.iter_mut().enumerate() {
            if f.missing_value(i).is_some() && self.one_in_three() {
                *p = false;
            }
        }
        let rot = if n > 1 { self.ch.choose(if self.rich { n } else { 2 }) } else { 0 };
        let key_style = self.str_style();
        // merge-key plan (all choices up front so that edited rebuilds consume the same tape)
        let weave = self.merges && n >= 2;
        let mmode = if weave { self.ch.choose(4) } else { 0 };
        let mask: Vec<bool> = (0..n).map(|_| weave && mmode != 0 && self.ch.choose(2) == 1).collect();
        // enumeration mode: position and the overridden entry follow from the other choices
        // (keeps the product affordable); random mode draws them
        let (mpos, mjunk) = if !weave {
            (0, false)
        } else if self.rich {
            (self.ch.choose(3), self.ch.choose(2) == 1)
        } else {
            ((mmode + mask.iter().filter(|m| **m).count()) % 3, mmode == 1)
        };
        let mut touched = vec![false; n];
        let mut edits = Vec::new();
        self.container_edits(&mut edits);
        for fl in 0..3u8 {
            edits.push((Edit::UnknownField(fl), if f.deny_unknown { Intent::MustErr } else { Intent::Any }));
        }
        for i in 0..n {
            if present[i] {
                edits.push((
                    Edit::MissingField(i),
                    if f.missing_value(i).is_none() { Intent::MustErr } else { Intent::Any },
                ));
                edits.push((Edit::DuplicateField(i), Intent::MustErr));
            }
        }
        let e = self.begin_site(kind, edits);
        let mut entries: Vec<(usize, Node, Node)> = Vec::new();
        for i in 0..n {
            if !present[i] {
                continue;
            }
            let before = self.edit_applied;
            let v = self.child(&f.fields[i].ty, "field");
            touched[i] = self.edit_applied != before;
            entries.push((i, Node::styled(FIELD_NAMES[i], key_style), v));
        }
        if !entries.is_empty() {
            let r = rot % entries.len();
            entries.rotate_left(r);
        }
        match e {
            Some(Edit::UnknownField(fl)) => {
                // a name outside the struct's fields; value of several shapes so that skipping is exercised
                let name = FIELD_NAMES.get(n).copied().unwrap_or("zz");
                let val = match fl {
                    0 => self.fresh_int(),
                    1 => {
                        let (a, b) = (self.fresh_int(), self.fresh_str());
                        let inner = Node::seq(vec![b.clone()]);
                        Node::seq(vec![a, inner])
                    }
                    _ => {
                        let (a, b, c) = (self.fresh_str(), self.fresh_int(), self.fresh_str());
                        let d = self.fresh_int();
                        Node::map(vec![(a, b), (c, Node::seq(vec![d]))])
                    }
                };
                let at = if entries.is_empty() { 0 } else { (fl as usize) % (entries.len() + 1) };
                entries.insert(at, (usize::MAX, Node::plain(name), val));
            }
            Some(Edit::MissingField(i)) => {
                entries.retain(|(j, _, _)| *j != i);
                touched[i] = true;
            }
            Some(Edit::DuplicateField(i)) => {
                let v = self.child(&f.fields[i].ty, "field");
                entries.push((i, Node::styled(FIELD_NAMES[i], key_style), v));
                touched[i] = true;
            }
            Some(e) => {
                if let Some(n) = self.apply_container_edit(&e, false) {
                    return n;
                }
            }
            None => {}
        }
        if weave && mmode != 0 {
            self.weave_merge(f, &mut entries, &mask, &touched, mmode, mpos, mjunk, key_style);
        }
        Node::map(entries.into_iter().map(|(_, k, v)| (k, v)).collect())
    }

    /// Move some of the struct's own entries into a merged mapping (`<<`). By the YAML merge rule
    /// the resulting mapping has the same fields, so the intended value does not change.
    #[allow(clippy::too_many_arguments)]
    fn weave_merge(
        &mut self,
        f: &Fields,
        entries: &mut Vec<(usize, Node, Node)>,
        mask: &[bool],
        touched: &[bool],
        mmode: usize,
        mpos: usize,
        mjunk: bool,
        key_style: Style,
    ) {
        let ident = f as *const Fields as usize;
        let movable = |i: usize| i != usize::MAX && mask[i] && !touched[i];
        let merge_value: Node;
        let known = self.last_merge.clone().filter(|(id, _, _)| *id == ident);
        if let (3, Some((_, name, provided))) = (mmode, &known) {
            // use an earlier anchored merge source: drop the own entries it provides (where allowed)
            if provided.iter().any(|i| touched[*i]) {
                return;
            }
            entries.retain(|(i, _, _)| !(provided.contains(i) && movable(*i)));
            merge_value = Node::alias(name);
        } else {
            let mut moved: Vec<(Node, Node)> = Vec::new();
            let mut moved_idx = Vec::new();
            let mut k = 0;
            while k < entries.len() {
                if movable(entries[k].0) && !moved_idx.contains(&entries[k].0) {
                    let (i, key, val) = entries.remove(k);
                    moved_idx.push(i);
                    moved.push((key, val));
                } else {
                    k += 1;
                }
            }
            if mjunk && mmode != 3 {
                // an entry of the merged mapping that an own entry overrides (never delivered)
                if let Some((i, _, _)) = entries.iter().find(|(i, _, _)| *i != usize::MAX && !moved_idx.contains(i)) {
                    let junk = self.fresh_str();
                    moved.push((Node::styled(FIELD_NAMES[*i], key_style), junk));
                }
            }
            if moved.is_empty() {
                return;
            }
            merge_value = match mmode {
                2 if moved.len() >= 2 => {
                    let second = moved.split_off(moved.len() / 2);
                    // the overridden junk entry may now repeat a key of the other half only if it
                    // was the last one, which an own entry overrides anyway
                    Node::seq(vec![Node::map(moved), Node::map(second)])
                }
                2 => Node::seq(vec![Node::map(moved)]),
                3 => {
                    self.anchor_ctr += 1;
                    let name = format!("m{}", self.anchor_ctr);
                    self.last_merge = Some((ident, name.clone(), moved_idx.clone()));
                    Node::map(moved).with_anchor(&name)
                }
                _ => Node::map(moved),
            };
        }
        self.merges_made += 1;
        let at = match mpos {
            0 => 0,
            1 => entries.len() / 2,
            _ => entries.len(),
        };
        entries.insert(at, (usize::MAX, Node::plain("<<"), merge_value));
    }

    fn enumeration(&mut self, e: &EnumTy) -> Node {
        let in_seq = matches!(self.parent, "seq-item");
        let names = e.names();
        let i = self.ch.choose(e.variants.len());
        let vname = names[i];
        let outside = VARIANT_NAMES
            .iter()
            .copied()
            .find(|n| !names.contains(n))
            .unwrap_or("Vx");
        let other_enum = ENUM_NAMES[(e.name as usize + 1) % ENUM_NAMES.len()];
        let var = &e.variants[i];
        let is_unit = matches!(var, VariantTy::Unit);
        let mut edits = vec![(Edit::UnknownVariant, Intent::MustErr), (Edit::TwoEntryMap, Intent::MustErr)];
        if is_unit {
            edits.push((Edit::UnitPayloadMap, Intent::MustErr));
            edits.push((Edit::UnitPayloadTagScalar, Intent::MustErr));
            edits.push((Edit::UnitPayloadTagSeq, Intent::MustErr));
            edits.push((Edit::TagOtherEnum, Intent::MustErr));
        } else {
            let nullable_newtype = matches!(var, VariantTy::Newtype(t) if t.absorbs_null());
            edits.push((Edit::BareName, if nullable_newtype { Intent::Any } else { Intent::MustErr }));
            if in_seq {
                edits.push((Edit::SplitIntoSiblings, Intent::Any));
            }
            if matches!(var, VariantTy::Struct(_)) {
                edits.push((Edit::TagOnMapPayload, Intent::Any));
            } else {
                edits.push((Edit::TagOtherVariant, Intent::Any));
            }
        }
        let ed = self.begin_site("enum", edits);
        // notation and payload (choices are always consumed, edits override afterwards)
        let node = match var {
            VariantTy::Unit => {
                // enumeration mode: the first variant takes every notation (`V`, `{V: ~}`, `!!E V`,
                // `!E V`, `!V`), later variants `V` and `!V` only (keeps the product affordable)
                let notation = if self.rich {
                    self.ch.choose(6)
                } else if i == 0 {
                    self.ch.choose(5) + 1
                } else {
                    [1usize, 5][self.ch.choose(2)]
                };
                let name = if ed == Some(Edit::UnknownVariant) { outside } else { vname };
                match notation {
                    0 | 1 => Node::plain(name),
                    2 => Node::map(vec![(Node::plain(name), Node::plain("~"))]),
                    3 => Node::plain(name).with_tag(&format!("!!{}", e.name())),
                    4 => Node::plain(name).with_tag(&format!("!{}", e.name())),
                    _ => Node::plain(if self.rich && self.ch.choose(2) == 1 { "~" } else { "" }).with_tag(&format!("!{name}")),
                }
            }
            _ => {
                let saved = self.parent;
                self.parent = "payload";
                let p = match var {
                    VariantTy::Newtype(t) => self.build(t),
                    VariantTy::Tuple(ts) => self.tuple(ts, "tuple-variant"),
                    VariantTy::Struct(f) => self.fields(f, "struct-variant"),
                    VariantTy::Unit => unreachable!(),
                };
                self.parent = saved;
                self.pending_sibling = None;
                let taggable = !has_tag(&p) && !matches!(p, Node::Map { .. });
                let use_tag = self.ch.choose(2) == 1 && taggable;
                let name = if ed == Some(Edit::UnknownVariant) { outside } else { vname };
                match &ed {
                    Some(Edit::BareName) => Node::plain(vname),
                    Some(Edit::SplitIntoSiblings) => {
                        self.pending_sibling = Some(p);
                        Node::plain(vname)
                    }
                    Some(Edit::TagOnMapPayload) if !has_tag(&p) => p.with_tag(&format!("!{vname}")),
                    Some(Edit::TagOtherVariant) if taggable => p.with_tag(&format!("!{outside}")),
                    _ => {
                        if use_tag {
                            p.with_tag(&format!("!{name}"))
                        } else {
                            Node::map(vec![(Node::plain(name), p)])
                        }
                    }
                }
            }
        };
        match ed {
            Some(Edit::TwoEntryMap) => {
                // force the mapping notation and add a second entry
                let first = match node {
                    Node::Map { entries, tag: None, .. } if entries.len() == 1 => entries.into_iter().next().unwrap(),
                    Node::Scalar { .. } if is_unit => (Node::plain(vname), Node::plain("~")),
                    other => {
                        // tagged payload notation: rebuild as mapping around the untagged payload
                        let untagged = match other {
                            Node::Scalar { text, style, anchor, .. } => Node::Scalar { text, style, tag: None, anchor },
                            Node::Seq { items, flow, anchor, .. } => Node::Seq { items, flow, tag: None, anchor },
                            o => o,
                        };
                        (Node::plain(vname), untagged)
                    }
                };
                let second_name = if e.variants.len() > 1 { names[(i + 1) % names.len()] } else { outside };
                Node::map(vec![first, (Node::plain(second_name), Node::plain("~"))])
            }
            Some(Edit::UnitPayloadMap) => {
                let v = self.fresh_int();
                Node::map(vec![(Node::plain(vname), v)])
            }
            Some(Edit::UnitPayloadTagScalar) => self.fresh_str().with_tag(&format!("!{vname}")),
            Some(Edit::UnitPayloadTagSeq) => {
                let v = self.fresh_int();
                Node::seq(vec![v]).with_tag(&format!("!{vname}"))
            }
            Some(Edit::TagOtherEnum) => Node::plain(vname).with_tag(&format!("!!{other_enum}")),
            _ => node,
        }
    }
}
