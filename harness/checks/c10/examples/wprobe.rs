use std::io::Write;
struct W { calls: usize, fail_at: usize, acc: Vec<u8>, after: Vec<u8> , failed: bool}
impl Write for W {
    fn write(&mut self, b: &[u8]) -> std::io::Result<usize> {
        let c = self.calls; self.calls += 1;
        if c == self.fail_at { self.failed = true; return Err(std::io::Error::other("boom")); }
        if self.failed { self.after.extend_from_slice(b); eprintln!("write after failure: {:?}\n{}", String::from_utf8_lossy(b), std::backtrace::Backtrace::force_capture()); }
        self.acc.extend_from_slice(b); Ok(b.len())
    }
    fn flush(&mut self) -> std::io::Result<()> { Ok(()) }
}
#[derive(serde::Serialize)]
struct S { lit_keep: serde_saphyr::LitString, fold: serde_saphyr::FoldString, tail: String }
fn main() {
    let v = S { lit_keep: serde_saphyr::LitString("keep\n\n\n".into()), fold: serde_saphyr::FoldString("a long folded paragraph that should be wrapped by the serializer at the configured width because it keeps going and going and going and going\n\nsecond paragraph\n".into()), tail: "end".into() };
    let mut o = serde_saphyr::SerializerOptions::default();
    o.prefer_block_scalars = false;
    let mut free = Vec::new();
    serde_saphyr::to_io_writer_with_options(&mut free, &v, o).unwrap();
    println!("fault-free: {:?}", String::from_utf8_lossy(&free));
    for k in 0..400 {
        let mut w = W { calls: 0, fail_at: k, acc: vec![], after: vec![], failed: false };
        let r = serde_saphyr::to_io_writer_with_options(&mut w, &v, o);
        if !w.after.is_empty() { println!("k={k}: result {:?}, accepted after the failed write: {:?}", r.map_err(|e| e.to_string()), String::from_utf8_lossy(&w.after)); break; }
    }
}
