//! Typed scalar targets (taken by the deserializer with a bare `next()`), and the
//! default-options `read` iterator for them.

use serde::de::DeserializeOwned;
use serde_saphyr::Options;
use std::fmt::Debug;
use std::io::Read;
use vcore::targets::{Outcome, Target};
use vcore::val::Val;

fn fs<T: DeserializeOwned + Debug>(s: &str, o: Options) -> Outcome {
    serde_saphyr::from_str_with_options::<T>(s, o).map(|v| format!("{v:?}"))
}
fn fsl<T: DeserializeOwned + Debug>(s: &[u8], o: Options) -> Outcome {
    serde_saphyr::from_slice_with_options::<T>(s, o).map(|v| format!("{v:?}"))
}
fn fr<T: DeserializeOwned + Debug>(r: &mut dyn Read, o: Options) -> Outcome {
    serde_saphyr::from_reader_with_options::<_, T>(r, o).map(|v| format!("{v:?}"))
}
fn fm<T: DeserializeOwned + Debug>(s: &str, o: Options) -> Outcome {
    serde_saphyr::from_multiple_with_options::<T>(s, o).map(|v| format!("{v:?}"))
}
fn ri<T: DeserializeOwned + Debug>(r: &mut dyn Read, o: Options, max: usize) -> Vec<Outcome> {
    let mut r = r;
    let mut out = Vec::new();
    for item in serde_saphyr::read_with_options::<_, T>(&mut r, o) {
        out.push(item.map(|v| format!("{v:?}")));
        if out.len() >= max {
            break;
        }
    }
    out
}
fn rp<T: DeserializeOwned + Debug>(r: &mut dyn Read, max: usize) -> Vec<Outcome> {
    let mut r = r;
    let mut out = Vec::new();
    for item in serde_saphyr::read::<_, T>(&mut r) {
        out.push(item.map(|v| format!("{v:?}")));
        if out.len() >= max {
            break;
        }
    }
    out
}
fn wds<T: DeserializeOwned + Debug>(s: &str, o: Options) -> Outcome {
    serde_saphyr::with_deserializer_from_str_with_options(s, o, |de| T::deserialize(de)).map(|v| format!("{v:?}"))
}
fn wdsl<T: DeserializeOwned + Debug>(s: &[u8], o: Options) -> Outcome {
    serde_saphyr::with_deserializer_from_slice_with_options(s, o, |de| T::deserialize(de)).map(|v| format!("{v:?}"))
}
fn wdr<T: DeserializeOwned + Debug>(r: &mut dyn Read, o: Options) -> Outcome {
    serde_saphyr::with_deserializer_from_reader_with_options(r, o, |de| T::deserialize(de)).map(|v| format!("{v:?}"))
}

pub type PlainRead = fn(&mut dyn Read, usize) -> Vec<Outcome>;

macro_rules! st {
    ($name:expr, $t:ty) => {
        (
            Target {
                name: $name,
                from_str: fs::<$t>,
                from_slice: fsl::<$t>,
                from_reader: fr::<$t>,
                from_multiple: fm::<$t>,
                read_iter: ri::<$t>,
                with_de_str: wds::<$t>,
                with_de_slice: wdsl::<$t>,
                with_de_reader: wdr::<$t>,
            },
            rp::<$t> as PlainRead,
        )
    };
}

static SCALARS: &[(Target, PlainRead)] = &[
    st!("u64", u64),
    st!("i64", i64),
    st!("f64", f64),
    st!("bool", bool),
    st!("char", char),
    st!("u8", u8),
    st!("i128", i128),
    st!("f32", f32),
    st!("OptU64", Option<u64>),
    st!("StringS", String),
    st!("ValS", Val),
];

pub fn all() -> impl Iterator<Item = &'static Target> {
    SCALARS.iter().map(|(t, _)| t)
}
pub fn by_name(n: &str) -> Option<&'static Target> {
    SCALARS.iter().find(|(t, _)| t.name == n).map(|(t, _)| t)
}
pub fn plain_reader(n: &str) -> Option<PlainRead> {
    SCALARS.iter().find(|(t, _)| t.name == n).map(|(_, p)| *p)
}

/// Scalar-root documents and streams (`ends` as in `docs::Doc`).
pub fn scalar_docs() -> Vec<crate::docs::Doc> {
    let singles: &[&str] = &[
        "7", "42", "123456", "18446744073709551615", "-123456", "-9223372036854775808", "0x1F", "0o17", "1_000", "+12", "255", "256",
        "170141183460469231731687303715884105727", "3.25", "-0.5", "1e10", "6.02e23", ".inf", "-.inf", ".nan", "1.", "true", "false", "True",
        "yes", "x", "é", "語", "😀", "ab", "\"q\"", "'7'", "\"123456\"", "~", "null",
    ];
    let mut out = Vec::new();
    for s in singles {
        for tail in ["", "\n", "\r\n", "  # c\n"] {
            let text = format!("{s}{tail}");
            out.push(crate::docs::Doc { ends: Some(vec![s.len()]), text, class: "scalar-root", wire: None });
        }
        out.push(crate::docs::Doc { text: format!("--- {s}\n...\n"), ends: Some(vec![4 + s.len()]), class: "scalar-root", wire: None });
    }
    let streams: &[&[&str]] = &[
        &["1", "22", "333"],
        &["123456", "654321"],
        &["true", "false", "true"],
        &["3.5", "1e3", "-2.25"],
        &["x", "é", "語"],
        &["12", "a: 1", "123456"],
        &["a: 1", "123456", "77"],
        &["[1, 2]", "99", "100"],
        &["255", "256", "7"],
        &["123456", "x", "654321"],
    ];
    for st in streams {
        for sep in ["---\n", "...\n---\n"] {
            let mut text = String::new();
            let mut ends = Vec::new();
            for (i, b) in st.iter().enumerate() {
                if i > 0 {
                    text.push_str(sep);
                }
                let start = text.len();
                text.push_str(b);
                ends.push(start + b.len());
                text.push('\n');
            }
            out.push(crate::docs::Doc { text, ends: Some(ends), class: "scalar-stream", wire: None });
        }
    }
    out
}
