//! C10 — I/O faults and the input-size cap are never swallowed (reader and writer).
//!
//! Invariant oracle on observed outputs. Reader side: an instrumented reader with
//! plan (chunking, fault) records whether the fault *fired*; fired ⇒ the
//! single-document entry points return `Err`, the iterator yields at least one
//! `Err` and every `Ok` item equals the fault-free item of the same index and
//! belongs to a document whose bytes were all delivered; not fired ⇒ identical to
//! the fault-free run. Cap c: bytes handed out ≤ c + 64 KiB on inputs ≥ c + 256
//! KiB, which must fail; inputs of length ≤ c behave exactly as without a cap.
//! Writer side: a writer failing at the k-th write / after n bytes (sticky or
//! once, with short writes) ⇒ `Err(ser::Error::IO)` carrying the injected error,
//! and the bytes accepted are a prefix of the fault-free output.

mod docs;
mod styped;

use docs::Doc;
use serde_json::{Value, json};
use std::collections::{BTreeMap, HashSet};
use std::io::Write;
use vcore::capped::Capped;
use vcore::errs::{kind, line_col};
use vcore::obs::{FaultWriter, ReadStats, WFAULT_MSG, WFault, catch, panic_site};
use vcore::rdr::{Chunking, CutReader, RFault, RUNAWAY_MSG};
use vcore::rng::{Rng, fnv_parts};
use vcore::run::{Finish, Run, Tier, par_range};
use vcore::targets::{self, Outcome, Target};
use vcore::treegen::{self, LEAVES_BASIC};
use vcore::val::Val;
use vcore::ydoc;

const ALLOWANCE: usize = 64 * 1024;
const CAP_MARGIN: usize = 256 * 1024;

// ------------------------------------------------------------------ shared helpers

#[derive(Clone, Debug, PartialEq, Eq)]
enum Canon {
    Ok(String),
    Err(String, Option<(u64, u64)>),
}

fn canon(o: &Outcome) -> Canon {
    match o {
        Ok(v) => Canon::Ok(v.clone()),
        Err(e) => Canon::Err(kind(e), line_col(e)),
    }
}

fn show_items(v: &[Canon]) -> String {
    let parts: Vec<String> = v
        .iter()
        .take(8)
        .map(|c| match c {
            Canon::Ok(s) => format!("Ok({})", s.chars().take(80).collect::<String>()),
            Canon::Err(k, lc) => format!("Err({k}@{lc:?})"),
        })
        .collect();
    format!("[{}]{}", parts.join(", "), if v.len() > 8 { format!(" (+{} more)", v.len() - 8) } else { String::new() })
}

#[derive(Default)]
struct Local {
    counts: BTreeMap<&'static str, u64>,
    sets: HashSet<(&'static str, String)>,
}

impl Local {
    fn add(&mut self, k: &'static str, n: u64) {
        *self.counts.entry(k).or_insert(0) += n;
    }
    fn see(&mut self, set: &'static str, label: String) {
        self.sets.insert((set, label));
    }
    fn flush(&mut self, run: &Run) {
        run.count_map(&self.counts);
        self.counts.clear();
        for (s, l) in self.sets.drain() {
            run.observe(s, &l);
        }
    }
}

fn base_opts(cap: Option<Option<usize>>) -> serde_saphyr::Options {
    let mut o = serde_saphyr::Options::default();
    #[allow(deprecated)]
    if let Some(c) = cap {
        let mut b = serde_saphyr::Budget::default();
        b.max_reader_input_bytes = c;
        b.max_documents = usize::MAX / 2;
        b.max_events = usize::MAX / 2;
        b.max_nodes = usize::MAX / 2;
        o.budget = Some(b);
    }
    o
}

#[derive(Clone, Copy, Debug, PartialEq, Eq)]
enum REntry {
    FromReader,
    WithDeReader,
    ReadIter,
    /// `serde_saphyr::read` (default options, no cap); only for the targets of `styped`
    ReadPlain,
}

impl REntry {
    fn name(self) -> &'static str {
        match self {
            REntry::FromReader => "from_reader",
            REntry::WithDeReader => "with_de_reader",
            REntry::ReadIter => "read_iter",
            REntry::ReadPlain => "read",
        }
    }
    fn from_name(s: &str) -> REntry {
        match s {
            "with_de_reader" => REntry::WithDeReader,
            "read_iter" => REntry::ReadIter,
            "read" => REntry::ReadPlain,
            _ => REntry::FromReader,
        }
    }
}

const ALL_RENTRIES: [REntry; 3] = [REntry::FromReader, REntry::WithDeReader, REntry::ReadIter];

struct RRun {
    items: Vec<Canon>,
    stats: ReadStats,
    /// bytes handed out when the fault first fired
    fired_at: Option<usize>,
}

/// One execution of a reader entry point under (chunking, fault).
fn run_reader(
    t: &Target,
    e: REntry,
    data: &[u8],
    o: serde_saphyr::Options,
    ch: &Chunking,
    f: &RFault,
    max_items: usize,
) -> Result<RRun, String> {
    catch(|| {
        let mut r = CutReader::new(data, ch.clone(), f.clone());
        let st = r.stats_handle();
        let fa = r.fired_at_handle();
        let items: Vec<Canon> = match e {
            REntry::FromReader => vec![canon(&(t.from_reader)(&mut r, o))],
            REntry::WithDeReader => vec![canon(&(t.with_de_reader)(&mut r, o))],
            REntry::ReadIter => (t.read_iter)(&mut r, o, max_items).iter().map(canon).collect(),
            REntry::ReadPlain => match styped::plain_reader(t.name) {
                Some(f) => f(&mut r, max_items).iter().map(canon).collect(),
                None => (t.read_iter)(&mut r, o, max_items).iter().map(canon).collect(),
            },
        };
        let stats = st.borrow().clone();
        let fired_at = *fa.borrow();
        RRun { items, stats, fired_at }
    })
}

fn prefix_class(text: &str, upto: usize) -> &'static str {
    let upto = upto.min(text.len());
    if !text.is_char_boundary(upto) {
        return "cut-inside-codepoint";
    }
    let p = text[..upto].strip_prefix('\u{FEFF}').unwrap_or(&text[..upto]);
    match catch(|| serde_saphyr::from_multiple::<Val>(p)) {
        Ok(Ok(_)) => "prefix-is-a-complete-stream",
        _ => "prefix-is-not-a-complete-stream",
    }
}

/// What the parser had in front of it when the error was stored: the bytes handed out before the
/// fault (nothing if the fault hit the decoder's 3-byte BOM sniffing). Does that prefix contain an
/// empty / null-like document (the iterator skips those), or none at all?
fn pending_class(text: &str, visible: usize, bom_sniffing_loses_short_prefix: bool) -> &'static str {
    let mut upto = if visible < 3 && bom_sniffing_loses_short_prefix { 0 } else { visible.min(text.len()) };
    while !text.is_char_boundary(upto) {
        upto -= 1;
    }
    let p = text[..upto].strip_prefix('\u{FEFF}').unwrap_or(&text[..upto]);
    let nullish = |d: &vcore::reftree::RDoc| match &d.root {
        None => true,
        Some(vcore::reftree::RNode::Scalar { value, style, .. }) => {
            *style == saphyr_parser::ScalarStyle::Plain && (value.is_empty() || value == "~" || value.eq_ignore_ascii_case("null"))
        }
        Some(_) => false,
    };
    match vcore::reftree::parse_stream(p) {
        Ok(docs) if docs.is_empty() || docs.iter().any(nullish) => "null-like-document-pending",
        Ok(_) => "no-null-like-document",
        Err(_) => "prefix-does-not-scan",
    }
}

fn floor_boundary(s: &str, mut i: usize) -> usize {
    i = i.min(s.len());
    while !s.is_char_boundary(i) {
        i -= 1;
    }
    i
}

/// Symptom of an iterator run without any Err item, relative to the fault-free items.
fn silent_shape(items: &[Canon], reference: &[Canon]) -> &'static str {
    if items.len() <= reference.len() && items.iter().zip(reference).all(|(a, b)| a == b) {
        "stream-ends-silently"
    } else {
        "items-differ"
    }
}

/// Class of a run in which the library never stopped polling the reader (`p` = panic text of the
/// instrumented reader, which ends in "at byte N").
fn runaway_class(text: &str, p: &str) -> &'static str {
    let at: usize = p.split(" at byte ").nth(1).and_then(|r| r.split_whitespace().next()).and_then(|n| n.parse().ok()).unwrap_or(text.len());
    let mut upto = at.min(text.len());
    while !text.is_char_boundary(upto) {
        upto -= 1;
    }
    let last = text[..upto].rsplit(['\n', '\r']).next().unwrap_or("");
    if last.trim_start_matches('\u{FEFF}').starts_with('%') { "directive-line-cut" } else { "other" }
}

// ------------------------------------------------------------------ reader fault sweep

struct FaultCase<'a> {
    doc: &'a Doc,
    t: &'a Target,
    e: REntry,
    ch: &'a Chunking,
    f: RFault,
}

impl FaultCase<'_> {
    fn json(&self) -> Value {
        json!({"section": "reader-fault", "text": self.doc.text, "ends": self.doc.ends, "class": self.doc.class, "encoding": self.doc.enc_name(),
               "target": self.t.name, "entry": self.e.name(), "chunking": self.ch.to_json(), "fault": self.f.to_json()})
    }
}

/// Judge one faulted execution against the fault-free reference.
fn check_fault_case(run: &Run, l: &mut Local, c: &FaultCase, reference: &RRun) {
    run.eval();
    let data = c.doc.data();
    let max_items = 4 * (reference.items.len() + 4);
    let bom = if c.doc.wire.is_some() {
        ":utf16"
    } else if c.doc.text.starts_with('\u{FEFF}') {
        ":bom"
    } else {
        ""
    };
    let r = match run_reader(c.t, c.e, data, base_opts(None), c.ch, &c.f, max_items) {
        Ok(r) => r,
        Err(p) if p.contains(RUNAWAY_MSG) => {
            l.add("reader_runaway_after_fault", 1);
            let at: usize = p.split(" at byte ").nth(1).and_then(|r| r.split_whitespace().next()).and_then(|n| n.parse().ok()).unwrap_or(data.len());
            let (vt, vi) = c.doc.visible(at);
            let class = runaway_class(&vt[..floor_boundary(&vt, vi)], "");
            run.violation_capped(&format!("C10:reader:never-returns-after-fault:{class}"), c.json(), p);
            return;
        }
        Err(p) => {
            run.violation_capped(&format!("C10:panic:{}", panic_site(&p)), c.json(), p);
            return;
        }
    };
    let fired = r.stats.fault_fired;
    let sticky = matches!(c.f, RFault::ErrOnCall(_) | RFault::ErrAfterBytes(_) | RFault::EofAfterBytes(_));
    if !fired {
        l.add("fault_not_reached", 1);
        if r.items != reference.items {
            run.violation_capped(
                "C10:reader:unfired-fault-changed-result",
                c.json(),
                format!("fault-free: {} | with unfired fault plan: {}", show_items(&reference.items), show_items(&r.items)),
            );
        }
        return;
    }
    l.add("fault_fired", 1);
    l.add(
        match c.f {
            RFault::ErrOnCall(_) => "fired/err_on_call",
            RFault::ErrOnceOnCall(_) => "fired/err_once_on_call",
            RFault::ErrAfterBytes(_) => "fired/err_after_bytes",
            RFault::ErrOnceAfterBytes(_) => "fired/err_once_after_bytes",
            RFault::EofAfterBytes(_) => "fired/eof_inside_codepoint",
            RFault::None => "fired/none",
        },
        1,
    );
    run.nontrivial(fnv_parts(&[
        data,
        c.t.name.as_bytes(),
        c.e.name().as_bytes(),
        c.ch.to_json().to_string().as_bytes(),
        c.f.to_json().to_string().as_bytes(),
    ]));
    let delivered = r.stats.bytes_out;
    let any_err = r.items.iter().any(|i| matches!(i, Canon::Err(..)));
    if c.doc.wire.is_some() && matches!(c.f, RFault::EofAfterBytes(_)) {
        // A UTF-16 stream that ends inside a code unit / between surrogates: the statement speaks of
        // UTF-8 text and of "a multi-byte character"; the transcoder substitutes U+FFFD. Observed only.
        run.count("unspecified/utf16-eof-inside-code-unit-or-surrogate-pair", 1);
        l.see("utf16_truncated_unit_outcomes", format!("{}:{}", c.e.name(), if any_err { "has-err" } else { "no-err" }));
        return;
    }
    for i in &r.items {
        if let Canon::Err(k, _) = i {
            l.see("error_kinds_after_fault", format!("{}:{k}", c.e.name()));
        }
    }
    if !any_err {
        let visible = r.fired_at.unwrap_or(delivered);
        let (vt, vi) = c.doc.visible(visible);
        let pc = prefix_class(&vt, vi);
        if pc == "prefix-is-a-complete-stream" {
            l.add("swallowed_where_prefix_is_complete", 1);
        }
        let sig = if matches!(c.f, RFault::EofAfterBytes(_)) && !bom.is_empty() {
            // behind a UTF-8 BOM the decoder transcodes lossily: the cut character becomes U+FFFD
            "C10:reader:eof-inside-codepoint-after-bom:no-error".to_string()
        } else if matches!(c.e, REntry::ReadIter | REntry::ReadPlain) {
            format!(
                "C10:reader:iter:fault-swallowed:{}:{}",
                silent_shape(&r.items, &reference.items),
                pending_class(&vt, if c.doc.wire.is_some() && visible < 3 { 0 } else { vi }, c.doc.wire.is_none())
            )
        } else {
            format!("C10:reader:{}:fault-swallowed:{}:{pc}{bom}", c.e.name(), c.f.label())
        };
        run.violation_capped(
            &sig,
            c.json(),
            format!(
                "{}: the reader reported the fault (bytes delivered before it: {delivered}, read calls: {}) but the result has no Err: {} | fault-free: {}",
                c.e.name(),
                r.stats.calls,
                show_items(&r.items),
                show_items(&reference.items)
            ),
        );
        return;
    }
    l.add("fault_reported_as_err", 1);
    if r.items.len() >= max_items {
        run.inconclusive("iterator produced more than 4x the fault-free number of items after a fault (cut off by the harness)");
        return;
    }
    if matches!(c.e, REntry::ReadIter | REntry::ReadPlain) {
        // Ok items: equal to the fault-free item of the same index, from a fully delivered document
        let first_err = r.items.iter().position(|i| matches!(i, Canon::Err(..))).unwrap_or(r.items.len());
        for (i, it) in r.items.iter().enumerate() {
            let Canon::Ok(v) = it else { continue };
            if !sticky && i > first_err {
                run.count("unspecified/items-after-a-transient-read-error", 1);
                continue;
            }
            l.add("iter_ok_items_checked", 1);
            match reference.items.get(i) {
                Some(Canon::Ok(w)) if w == v => {}
                other => {
                    let after = r.items[..i].iter().any(|x| matches!(x, Canon::Err(k, _) if k == "IOError"));
                    run.violation_capped(
                        &format!(
                            "C10:reader:iter:ok-item-built-from-truncated-input:{}{bom}",
                            if after { "after-io-error-item" } else { "no-earlier-io-error-item" }
                        ),
                        c.json(),
                        format!(
                            "item {i}: Ok({v}) | fault-free item: {other:?} | delivered {delivered} bytes | all items: {}",
                            show_items(&r.items)
                        ),
                    );
                    return;
                }
            }
            if sticky
                && let Some(ends) = c.doc.wire_ends()
                && ends.len() == reference.items.len()
                && let Some(e) = ends.get(i)
            {
                l.add("iter_ok_items_position_checked", 1);
                if *e > delivered {
                    run.violation_capped(
                        &format!("C10:reader:iter:ok-item-from-document-not-fully-delivered{bom}"),
                        c.json(),
                        format!("item {i} = Ok({v}) but its document ends at byte {e} and only {delivered} bytes were delivered"),
                    );
                    return;
                }
            }
        }
    }
}

/// Sweep every fault position of one document.
fn sweep_doc(
    run: &Run,
    l: &mut Local,
    doc: &Doc,
    t: &Target,
    chunkings: &[Chunking],
    transient_step: usize,
    positions: Option<&[usize]>,
    entries: &[REntry],
) {
    let data = doc.data();
    let n = data.len();
    // evidence: how many cut positions leave a prefix that is itself a complete stream
    if positions.is_none() && doc.wire.is_none() {
        let mut complete = 0u64;
        for k in 0..n {
            if doc.text.is_char_boundary(k) && k > 0 && prefix_class(&doc.text, k) == "prefix-is-a-complete-stream" {
                complete += 1;
            }
        }
        l.add("fault_positions_whose_prefix_is_a_complete_stream", complete);
        l.add("fault_positions_total_bytes", n as u64 + 1);
    }
    let inside: Vec<usize> = match &doc.wire {
        None => (1..n).filter(|k| data[*k] & 0xC0 == 0x80).collect(),
        // UTF-16: inside a code unit (odd offsets) and between the halves of a surrogate pair
        Some(w) => {
            let le = w.enc == "utf-16le";
            (1..n)
                .filter(|k| {
                    k % 2 == 1 || (*k >= 4 && {
                        let u = if le { u16::from_le_bytes([data[k - 2], data[k - 1]]) } else { u16::from_be_bytes([data[k - 2], data[k - 1]]) };
                        (0xD800..0xDC00).contains(&u)
                    })
                })
                .collect()
        }
    };
    for ch in chunkings {
        for &e in entries {
            run.eval();
            let reference = match run_reader(t, e, data, base_opts(None), ch, &RFault::None, 10_000) {
                Ok(r) => r,
                Err(p) => {
                    let c = FaultCase { doc, t, e, ch, f: RFault::None };
                    let sig = if p.contains(RUNAWAY_MSG) {
                        "C10:reader:never-returns:fault-free".to_string()
                    } else {
                        format!("C10:panic:{}", panic_site(&p))
                    };
                    run.violation_capped(&sig, c.json(), p);
                    continue;
                }
            };
            if reference.stats.fault_fired {
                run.inconclusive("harness: fault-free run reports a fired fault");
                continue;
            }
            let mut faults: Vec<RFault> = Vec::new();
            match positions {
                None => {
                    for k in 0..=n {
                        faults.push(RFault::ErrAfterBytes(k));
                        if k % transient_step == 0 {
                            faults.push(RFault::ErrOnceAfterBytes(k));
                        }
                    }
                    for k in 0..reference.stats.calls {
                        faults.push(RFault::ErrOnCall(k));
                        if k % transient_step == 0 {
                            faults.push(RFault::ErrOnceOnCall(k));
                        }
                    }
                    for k in &inside {
                        faults.push(RFault::EofAfterBytes(*k));
                    }
                }
                Some(ps) => {
                    for &k in ps {
                        let k = k.min(n);
                        faults.push(RFault::ErrAfterBytes(k));
                        faults.push(RFault::ErrOnceAfterBytes(k));
                        if inside.binary_search(&k).is_ok() {
                            faults.push(RFault::EofAfterBytes(k));
                        }
                    }
                    let calls = reference.stats.calls;
                    for j in 0..ps.len().min(calls) {
                        let k = (ps[j] * 7919) % calls.max(1);
                        faults.push(RFault::ErrOnCall(k));
                        faults.push(RFault::ErrOnceOnCall(k));
                    }
                }
            }
            for f in faults {
                let c = FaultCase { doc, t, e, ch, f };
                check_fault_case(run, l, &c, &reference);
            }
        }
    }
}

// ------------------------------------------------------------------ cap

struct CapCase<'a> {
    kind: &'a str,
    len: usize,
    cap: usize,
    e: REntry,
    ch: &'a Chunking,
    t: &'a Target,
}

impl CapCase<'_> {
    fn json(&self) -> Value {
        json!({"section": "cap-large", "doc_kind": self.kind, "doc_len_at_least": self.len, "cap": self.cap,
               "target": self.t.name, "entry": self.e.name(), "chunking": self.ch.to_json()})
    }
}

fn check_cap_large(run: &Run, l: &mut Local, c: &CapCase, text: &str, nocap: &RRun) {
    run.eval();
    let data = text.as_bytes();
    let r = match run_reader(c.t, c.e, data, base_opts(Some(Some(c.cap))), c.ch, &RFault::None, 1_000_000) {
        Ok(r) => r,
        Err(p) => {
            run.violation_capped(&format!("C10:panic:{}", panic_site(&p)), c.json(), p);
            return;
        }
    };
    let pulled = r.stats.bytes_out;
    run.max("cap_max_bytes_pulled_beyond_cap", pulled.saturating_sub(c.cap) as u64);
    l.add("cap_large_cases", 1);
    l.see("cap_values", c.cap.to_string());
    run.nontrivial(fnv_parts(&[b"cap", c.kind.as_bytes(), &c.cap.to_le_bytes(), c.e.name().as_bytes(), c.ch.to_json().to_string().as_bytes()]));
    if pulled > c.cap + ALLOWANCE {
        run.violation_capped(
            &format!("C10:cap:pulled-more-than-cap-plus-allowance:{}", c.e.name()),
            c.json(),
            format!("cap {} bytes, input {} bytes, bytes pulled from the reader: {pulled} (> cap + {ALLOWANCE})", c.cap, data.len()),
        );
    }
    let any_err = r.items.iter().any(|i| matches!(i, Canon::Err(..)));
    if !any_err {
        let sig = if c.e == REntry::ReadIter {
            format!("C10:cap:iter:exceeded-but-no-error:{}:{}", silent_shape(&r.items, &nocap.items), pending_class(text, c.cap, false))
        } else {
            format!("C10:cap:exceeded-but-no-error:{}", c.e.name())
        };
        run.violation_capped(
            &sig,
            c.json(),
            format!("cap {} bytes, input {} bytes (read to the end when uncapped), result: {}", c.cap, data.len(), show_items(&r.items)),
        );
        return;
    }
    for i in &r.items {
        if let Canon::Err(k, _) = i {
            l.see("error_kinds_on_cap", format!("{}:{k}", c.e.name()));
        }
    }
    if c.e == REntry::ReadIter {
        for (i, it) in r.items.iter().enumerate() {
            if let Canon::Ok(v) = it {
                l.add("cap_iter_ok_items_checked", 1);
                if nocap.items.get(i) != Some(&Canon::Ok(v.clone())) {
                    run.violation_capped(
                        "C10:cap:iter-ok-item-differs-from-uncapped",
                        c.json(),
                        format!("item {i}: Ok({}) | uncapped: {:?}", v.chars().take(100).collect::<String>(), nocap.items.get(i)),
                    );
                    return;
                }
            }
        }
    }
}

/// `len <= c` ⇒ identical to no cap; `len > c` ⇒ Err (when the uncapped run consumes the whole input).
fn check_cap_small(run: &Run, l: &mut Local, doc: &Doc, t: &Target, every_cap_up_to: usize, only: Option<usize>) {
    let data = doc.data();
    let n = data.len();
    // The cap counts decoded UTF-8 bytes. With a byte-order mark or a UTF-16 stream the raw and the
    // decoded length differ; "no larger than the cap" is only unambiguous outside [lo, hi).
    let decoded = doc.text.trim_start_matches('\u{FEFF}').len();
    let (lo, hi) = (n.min(decoded), n.max(decoded));
    let ch = Chunking::Every(1);
    for e in ALL_RENTRIES {
        run.eval();
        let Ok(nocap) = run_reader(t, e, data, base_opts(Some(None)), &ch, &RFault::None, 10_000) else {
            continue; // reported by the fault sweep
        };
        // with 1-byte reads the 8 KiB BufReader cannot run ahead: eof_seen <=> the parser asked beyond the last byte
        let consumed_all = nocap.stats.eof_seen && nocap.stats.bytes_out == n;
        let mut caps: Vec<usize> = if n <= every_cap_up_to {
            (0..=hi + 1).collect()
        } else {
            let mut v = vec![hi, hi + 1, 0, 1];
            if lo > 0 {
                v.push(lo - 1);
            }
            v
        };
        caps.push(hi + 4096);
        caps.sort_unstable();
        caps.dedup();
        if let Some(c) = only {
            caps = vec![c];
        }
        if n <= every_cap_up_to {
            l.add("cap_small_documents_with_every_cap_value", 1);
        }
        for c in caps {
            run.eval();
            let case = || {
                json!({"section": "cap-small", "text": doc.text, "encoding": doc.enc_name(), "cap": c, "target": t.name, "entry": e.name(), "chunking": ch.to_json()})
            };
            let r = match run_reader(t, e, data, base_opts(Some(Some(c))), &ch, &RFault::None, 10_000) {
                Ok(r) => r,
                Err(p) if p.contains(RUNAWAY_MSG) => {
                    let (vt, vi) = doc.visible(c.min(n));
                    run.violation_capped(&format!("C10:cap:never-returns-after-cap:{}", runaway_class(&vt[..floor_boundary(&vt, vi)], "")), case(), p);
                    continue;
                }
                Err(p) => {
                    run.violation_capped(&format!("C10:panic:{}", panic_site(&p)), case(), p);
                    continue;
                }
            };
            if c >= hi {
                l.add("cap_small_within_cap_cases", 1);
                if r.items != nocap.items {
                    run.violation_capped(
                        &format!("C10:cap:input-within-cap-differs-from-uncapped:cap-minus-len={}", c - hi),
                        case(),
                        format!("raw length {n}, decoded length {decoded} <= cap {c}: uncapped {} | capped {}", show_items(&nocap.items), show_items(&r.items)),
                    );
                } else if n >= 2 {
                    run.nontrivial(fnv_parts(&[b"cap-small", data, &c.to_le_bytes(), e.name().as_bytes()]));
                }
            } else if c >= lo {
                run.count("unspecified/cap-between-raw-and-decoded-length (BOM / UTF-16)", 1);
            } else if consumed_all {
                l.add("cap_small_over_cap_cases", 1);
                if decoded > 0 && !doc.text.is_char_boundary((doc.text.len() - decoded + c).min(doc.text.len())) {
                    l.add("cap_small_cap_falls_inside_a_multibyte_character", 1);
                }
                if !r.items.iter().any(|i| matches!(i, Canon::Err(..))) {
                    let sig = if e == REntry::ReadIter {
                        let (vt, _) = doc.visible(n);
                        let body = vt.trim_start_matches('\u{FEFF}');
                        format!("C10:cap:iter:exceeded-but-no-error:{}:{}", silent_shape(&r.items, &nocap.items), pending_class(body, c, false))
                    } else {
                        format!("C10:cap:exceeded-but-no-error:{}:small-input", e.name())
                    };
                    run.violation_capped(
                        &sig,
                        case(),
                        format!("raw length {n}, decoded length {decoded} > cap {c} and the uncapped run consumes the whole input, result: {}", show_items(&r.items)),
                    );
                } else {
                    run.nontrivial(fnv_parts(&[b"cap-small", data, &c.to_le_bytes(), e.name().as_bytes()]));
                }
            } else {
                run.count("unspecified/cap-below-length-but-input-not-read-to-its-end", 1);
            }
        }
    }
}

// ------------------------------------------------------------------ writer

/// Writer that fails exactly once (the k-th call / the first call once n bytes were accepted) and
/// accepts everything afterwards: a serializer that loses the error would go on writing.
struct OnceWriter {
    on_call: Option<usize>,
    after_bytes: Option<usize>,
    short: usize,
    calls: usize,
    done: bool,
    accepted: Vec<u8>,
    accepted_after_fault: usize,
}

impl Write for OnceWriter {
    fn write(&mut self, buf: &[u8]) -> std::io::Result<usize> {
        let call = self.calls;
        self.calls += 1;
        if buf.is_empty() {
            return Ok(0);
        }
        if !self.done {
            let hit = self.on_call == Some(call) || self.after_bytes.is_some_and(|n| self.accepted.len() >= n);
            if hit {
                self.done = true;
                return Err(std::io::Error::other(WFAULT_MSG));
            }
        }
        let mut n = buf.len();
        if self.short > 0 {
            n = n.min(self.short);
        }
        if !self.done
            && let Some(k) = self.after_bytes
        {
            n = n.min(k - self.accepted.len()).max(1);
        }
        self.accepted.extend_from_slice(&buf[..n]);
        if self.done {
            self.accepted_after_fault += n;
            if std::env::var_os("C10_WDEBUG").is_some() {
                eprintln!("write after the failed write: {:?}\n{}", String::from_utf8_lossy(&buf[..n]), std::backtrace::Backtrace::force_capture());
            }
        }
        Ok(n)
    }
    fn flush(&mut self) -> std::io::Result<()> {
        Ok(())
    }
}

#[derive(Clone, Debug)]
enum WPlan {
    StickyCall(usize),
    StickyBytes(usize),
    OnceCall(usize),
    OnceBytes(usize),
}

impl WPlan {
    fn label(&self) -> &'static str {
        match self {
            WPlan::StickyCall(_) => "err_on_call",
            WPlan::StickyBytes(_) => "err_after_bytes",
            WPlan::OnceCall(_) => "err_once_on_call",
            WPlan::OnceBytes(_) => "err_once_after_bytes",
        }
    }
    fn to_json(&self) -> Value {
        match self {
            WPlan::StickyCall(k) => json!({"err_on_call": k}),
            WPlan::StickyBytes(k) => json!({"err_after_bytes": k}),
            WPlan::OnceCall(k) => json!({"err_once_on_call": k}),
            WPlan::OnceBytes(k) => json!({"err_once_after_bytes": k}),
        }
    }
    fn from_json(v: &Value) -> WPlan {
        let g = |n: &str| v.get(n).and_then(|k| k.as_u64()).map(|k| k as usize);
        if let Some(k) = g("err_on_call") {
            WPlan::StickyCall(k)
        } else if let Some(k) = g("err_after_bytes") {
            WPlan::StickyBytes(k)
        } else if let Some(k) = g("err_once_on_call") {
            WPlan::OnceCall(k)
        } else {
            WPlan::OnceBytes(g("err_once_after_bytes").unwrap_or(0))
        }
    }
}

/// Number of serializer option vectors: all 2^7 booleans x indent_step {2, 1, 4} x {default folding, narrow folding}.
const N_SER_OPTS: usize = 128 * 3 * 2;

fn anchor_name(i: usize) -> String {
    format!("id{i}")
}

fn ser_opts(v: usize) -> serde_saphyr::SerializerOptions {
    let mut o = serde_saphyr::SerializerOptions::default();
    let bits = v % 128;
    #[allow(deprecated)]
    {
        if bits & 1 != 0 {
            o.empty_as_braces = !o.empty_as_braces;
        }
        if bits & 2 != 0 {
            o.compact_list_indent = !o.compact_list_indent;
        }
        if bits & 4 != 0 {
            o.tagged_enums = !o.tagged_enums;
        }
        if bits & 8 != 0 {
            o.prefer_block_scalars = !o.prefer_block_scalars;
        }
        if bits & 16 != 0 {
            o.quote_all = !o.quote_all;
        }
        if bits & 32 != 0 {
            o.yaml_12 = !o.yaml_12;
        }
        if bits & 64 != 0 {
            o.anchor_generator = Some(anchor_name);
        }
        o.indent_step = [2usize, 1, 4][(v / 128) % 3];
        if (v / 384) % 2 == 1 {
            o.folded_wrap_chars = 20;
            o.min_fold_chars = 10;
        }
    }
    o
}

struct WOut {
    result: Result<(), serde_saphyr::ser::Error>,
    accepted: Vec<u8>,
    calls: usize,
    fired: bool,
    accepted_after_fault: usize,
}

fn run_writer<T: serde::Serialize>(value: &T, optv: usize, plan: Option<&WPlan>, short: usize, default_entry: bool) -> Result<WOut, String> {
    catch(|| match plan {
        None | Some(WPlan::StickyCall(_)) | Some(WPlan::StickyBytes(_)) => {
            let fault = match plan {
                Some(WPlan::StickyCall(k)) => WFault::ErrOnCall(*k),
                Some(WPlan::StickyBytes(k)) => WFault::ErrAfterBytes(*k),
                _ => WFault::None,
            };
            let mut w = FaultWriter::new(fault, short);
            let st = w.stats_handle();
            let result = if default_entry {
                serde_saphyr::to_io_writer(&mut w, value)
            } else {
                serde_saphyr::to_io_writer_with_options(&mut w, value, ser_opts(optv))
            };
            let s = st.borrow();
            WOut { result, accepted: s.accepted.clone(), calls: s.calls, fired: s.fault_fired, accepted_after_fault: 0 }
        }
        Some(p) => {
            let mut w = OnceWriter {
                on_call: if let WPlan::OnceCall(k) = p { Some(*k) } else { None },
                after_bytes: if let WPlan::OnceBytes(k) = p { Some(*k) } else { None },
                short,
                calls: 0,
                done: false,
                accepted: Vec::new(),
                accepted_after_fault: 0,
            };
            let result = if default_entry {
                serde_saphyr::to_io_writer(&mut w, value)
            } else {
                serde_saphyr::to_io_writer_with_options(&mut w, value, ser_opts(optv))
            };
            WOut { result, accepted: w.accepted, calls: w.calls, fired: w.done, accepted_after_fault: w.accepted_after_fault }
        }
    })
}

/// Sweep every write-fault position for one value.
fn sweep_value<T: serde::Serialize>(run: &Run, l: &mut Local, value: &T, ident: &Value, optv: usize, shorts: &[usize], plan_filter: Option<(&WPlan, usize)>) {
    let default_entry = optv == 0;
    for &short in shorts {
        if let Some((_, s)) = plan_filter
            && s != short
        {
            continue;
        }
        run.eval();
        let free = match run_writer(value, optv, None, short, default_entry) {
            Ok(f) => f,
            Err(p) => {
                run.violation_capped(&format!("C10:panic:{}", panic_site(&p)), json!({"section": "writer", "value": ident, "opts": optv, "short": short, "plan": "none"}), p);
                return;
            }
        };
        if let Err(e) = &free.result {
            l.add("writer_values_not_serializable_fault_free", 1);
            l.see("fault_free_serializer_errors", format!("{e:?}").chars().take(40).collect());
            return;
        }
        let f_out = free.accepted;
        let f_text = String::from_utf8_lossy(&f_out).into_owned();
        let mut plans: Vec<WPlan> = Vec::new();
        match plan_filter {
            Some((p, _)) => plans.push(p.clone()),
            None => {
                for k in 0..=free.calls {
                    plans.push(WPlan::StickyCall(k));
                    plans.push(WPlan::OnceCall(k));
                }
                for n in 0..=f_out.len() {
                    plans.push(WPlan::StickyBytes(n));
                    if n % 2 == 0 {
                        plans.push(WPlan::OnceBytes(n));
                    }
                }
            }
        }
        l.add("writer_fault_free_write_calls", free.calls as u64);
        for plan in plans {
            run.eval();
            let case = || json!({"section": "writer", "value": ident, "opts": optv, "short": short, "plan": plan.to_json(), "fault_free_output": f_text});
            let w = match run_writer(value, optv, Some(&plan), short, default_entry) {
                Ok(w) => w,
                Err(p) => {
                    run.violation_capped(&format!("C10:panic:{}", panic_site(&p)), case(), p);
                    continue;
                }
            };
            if !w.fired {
                l.add("writer_fault_not_reached", 1);
                if w.result.is_err() || w.accepted != f_out {
                    run.violation_capped(
                        "C10:writer:unfired-fault-changed-output",
                        case(),
                        format!("result {:?}, {} bytes accepted vs {} fault-free", w.result.as_ref().err().map(|e| e.to_string()), w.accepted.len(), f_out.len()),
                    );
                }
                continue;
            }
            l.add("writer_fault_fired", 1);
            let calls_before = match plan {
                WPlan::StickyCall(k) | WPlan::OnceCall(k) => k,
                _ => w.calls.saturating_sub(1),
            };
            if calls_before >= 2 {
                run.nontrivial(fnv_parts(&[b"writer", &f_out, &(optv as u32).to_le_bytes(), &[short as u8], plan.to_json().to_string().as_bytes()]));
            }
            match &w.result {
                Ok(()) => {
                    run.violation_capped(
                        &format!("C10:writer:fault-swallowed:{}", plan.label()),
                        case(),
                        format!("the writer failed (call {} of the run) but serialization returned Ok; {} bytes accepted, {} of them after the failure", w.calls, w.accepted.len(), w.accepted_after_fault),
                    );
                    continue;
                }
                Err(serde_saphyr::ser::Error::IO { error }) if error.to_string().contains(WFAULT_MSG) => {
                    l.add("writer_error_is_the_injected_io_error", 1);
                }
                Err(other) => {
                    let variant: String = format!("{other:?}").chars().take_while(|c| c.is_ascii_alphanumeric()).collect();
                    run.violation_capped(
                        &format!("C10:writer:error-is-not-the-io-error:{variant}:{}", plan.label()),
                        case(),
                        format!("expected ser::Error::IO carrying \"{WFAULT_MSG}\", got {other:?}"),
                    );
                    continue;
                }
            }
            if !f_out.starts_with(&w.accepted) {
                run.violation_capped(
                    &format!(
                        "C10:writer:accepted-bytes-not-a-prefix:{}",
                        if matches!(plan, WPlan::OnceCall(_) | WPlan::OnceBytes(_)) { "fail-once" } else { "sticky" }
                    ),
                    case(),
                    format!(
                        "accepted {:?} is not a prefix of the fault-free output ({} bytes accepted after the failed write)",
                        String::from_utf8_lossy(&w.accepted).chars().take(200).collect::<String>(),
                        w.accepted_after_fault
                    ),
                );
            } else {
                l.add("writer_accepted_is_prefix", 1);
            }
        }
    }
}

fn writer_vals(seed: u64, tier: Tier) -> Vec<Val> {
    let mut out = Vec::new();
    // every small document shape (the C13 quick set: all base trees with <= 4 nodes), as values
    for n in 1..=4 {
        for t in treegen::base_trees(n, LEAVES_BASIC) {
            let text = ydoc::render_text(&t);
            if let Ok(v) = serde_saphyr::from_str::<Val>(&text) {
                out.push(v);
            }
        }
    }
    let n_random = tier.pick(1500, 12_000);
    for i in 0..n_random {
        let mut rng = Rng::stream(seed, i as u64 ^ 0x77a1);
        out.push(docs::random_val(&mut rng, 3));
    }
    out
}

// ------------------------------------------------------------------ replay

fn replay(run: &Run, case: &Value) {
    let mut l = Local::default();
    let tn = case["target"].as_str().unwrap_or("Val");
    let t = targets::by_name(tn).or_else(|| styped::by_name(tn)).unwrap_or(targets::by_name("Val").unwrap());
    match case["section"].as_str().unwrap_or("") {
        "reader-fault" => {
            let doc = Doc {
                text: case["text"].as_str().unwrap_or("").to_string(),
                ends: case["ends"].as_array().map(|a| a.iter().filter_map(|x| x.as_u64()).map(|x| x as usize).collect()),
                class: "replay",
                wire: None,
            };
            let doc = match case["encoding"].as_str() {
                Some("utf-16le") => doc.as_utf16(true),
                Some("utf-16be") => doc.as_utf16(false),
                _ => doc,
            };
            let e = REntry::from_name(case["entry"].as_str().unwrap_or(""));
            let ch = Chunking::from_json(&case["chunking"]);
            let f = RFault::from_json(&case["fault"]);
            match run_reader(t, e, doc.data(), base_opts(None), &ch, &RFault::None, 10_000) {
                Ok(reference) => check_fault_case(run, &mut l, &FaultCase { doc: &doc, t, e, ch: &ch, f }, &reference),
                Err(p) => run.violation_capped("C10:reader:never-returns:fault-free", case.clone(), p),
            }
        }
        "cap-large" => {
            let kind = case["doc_kind"].as_str().unwrap_or("seq").to_string();
            let len = case["doc_len_at_least"].as_u64().unwrap_or(0) as usize;
            let cap = case["cap"].as_u64().unwrap_or(0) as usize;
            let e = REntry::from_name(case["entry"].as_str().unwrap_or(""));
            let ch = Chunking::from_json(&case["chunking"]);
            let text = docs::cap_doc(&kind, len);
            if let Ok(nocap) = run_reader(t, e, text.as_bytes(), base_opts(Some(None)), &ch, &RFault::None, 1_000_000) {
                check_cap_large(run, &mut l, &CapCase { kind: &kind, len, cap, e, ch: &ch, t }, &text, &nocap);
            }
        }
        "cap-small" => {
            let doc = Doc { text: case["text"].as_str().unwrap_or("").to_string(), ends: None, class: "replay", wire: None };
            let doc = match case["encoding"].as_str() {
                Some("utf-16le") => doc.as_utf16(true),
                Some("utf-16be") => doc.as_utf16(false),
                _ => doc,
            };
            check_cap_small(run, &mut l, &doc, t, 0, case["cap"].as_u64().map(|c| c as usize));
        }
        "writer" => {
            let ident = &case["value"];
            let optv = case["opts"].as_u64().unwrap_or(0) as usize;
            let short = case["short"].as_u64().unwrap_or(0) as usize;
            let plan = WPlan::from_json(&case["plan"]);
            let idx = ident["index"].as_u64().unwrap_or(0) as usize;
            match ident["kind"].as_str() {
                Some("record") => {
                    if let Some(r) = docs::any_records().get(idx) {
                        sweep_value(run, &mut l, r, ident, optv, &[short], Some((&plan, short)));
                    }
                }
                _ => {
                    let seed = ident["seed"].as_i64().unwrap_or(1) as u64;
                    let tier = if ident["tier"].as_str() == Some("thorough") { Tier::Thorough } else { Tier::Quick };
                    if let Some(v) = writer_vals(seed, tier).get(idx) {
                        sweep_value(run, &mut l, v, ident, optv, &[short], Some((&plan, short)));
                    }
                }
            }
        }
        _ => {}
    }
}

// ------------------------------------------------------------------ main

fn main() {
    let run = Run::from_args("C10");
    if let Some(rep) = run.is_replay() {
        replay(&run, &rep["case"]);
        run.finish(Finish::new("replay").level("fault_enumeration"));
    }
    let tier = run.tier;
    let thorough = tier == Tier::Thorough;
    let only: Option<Vec<usize>> =
        std::env::var("C10_SECTIONS").ok().map(|s| s.split(',').filter_map(|x| x.trim().parse().ok()).collect());
    let on = |k: usize| only.as_ref().is_none_or(|v| v.contains(&k));
    let val_t = targets::by_name("Val").unwrap();
    let typed: Vec<&'static Target> = ["Val", "MapStrVal", "VecString", "json", "Ignored"].iter().filter_map(|n| targets::by_name(n)).collect();

    // ================= 1. every fault position of every document <= 2 KiB
    let n_docs = tier.pick(5000usize, 24_000usize);
    par_range(if on(1) { n_docs } else { 0 }, |i| {
        let mut l = Local::default();
        let doc = docs::sweep_doc(run.seed, i);
        if doc.text.len() > 2048 {
            run.inconclusive("generator produced a sweep document above 2 KiB (skipped)");
            return;
        }
        l.add(
            match doc.class {
                "dangerous-single" => "docs/dangerous-single",
                "dangerous-stream" => "docs/dangerous-stream",
                "generated-tree" => "docs/generated-tree",
                "flow" => "docs/flow",
                _ => "docs/special",
            },
            1,
        );
        // Val always; a typed target on every other document
        let chunkings: Vec<Chunking> = match i % 3 {
            0 => vec![Chunking::Whole, Chunking::Every(1)],
            1 => vec![Chunking::Whole, Chunking::Every(3)],
            _ => vec![Chunking::Every(1), Chunking::Every(7)],
        };
        sweep_doc(&run, &mut l, &doc, val_t, &chunkings, 1, None, &ALL_RENTRIES);
        if i % 2 == 0 {
            let t = typed[1 + (i / 2) % (typed.len() - 1)];
            sweep_doc(&run, &mut l, &doc, t, &chunkings[..1], 1, None, &ALL_RENTRIES);
        }
        let every_cap = tier.pick(160, 400);
        check_cap_small(&run, &mut l, &doc, val_t, every_cap, None);
        // the same document behind a UTF-8 byte-order mark: faults and caps inside / right after the mark
        if i % 4 == 1 && !doc.text.starts_with('\u{FEFF}') {
            let mut b = doc.clone();
            b.text = format!("{}{}", '\u{FEFF}', doc.text);
            b.ends = doc.ends.as_ref().map(|v| v.iter().map(|e| e + 3).collect());
            l.add("docs/utf8-bom-variant", 1);
            sweep_doc(&run, &mut l, &b, val_t, &chunkings[..1], 1, None, &ALL_RENTRIES);
            check_cap_small(&run, &mut l, &b, val_t, every_cap, None);
        }
        // the same document sent as UTF-16 (LE / BE) with BOM
        if i % 4 == 3 && !doc.text.contains('\0') {
            let w = doc.as_utf16(i % 8 == 3);
            l.add(if i % 8 == 3 { "docs/utf16le-variant" } else { "docs/utf16be-variant" }, 1);
            sweep_doc(&run, &mut l, &w, val_t, &chunkings[..1], 1, None, &ALL_RENTRIES);
            check_cap_small(&run, &mut l, &w, val_t, every_cap / 2, None);
        }
        if i % 37 == 0 {
            run.sample(|| json!({"section": "reader-fault", "class": doc.class, "text": doc.text, "ends": doc.ends}));
        }
        l.flush(&run);
    });

    // ================= 2. larger documents, sampled positions (buffer boundaries included)
    let n_large = tier.pick(40usize, 160usize);
    par_range(if on(2) { n_large } else { 0 }, |i| {
        let mut l = Local::default();
        let mut rng = Rng::stream(run.seed, i as u64 ^ 0x5a3);
        let doc = docs::large_doc(run.seed, i);
        let n = doc.text.len();
        let mut ps: Vec<usize> = vec![0, 1, 2, 3, n.saturating_sub(1), n, 1023, 1024, 1025, 3071, 3072, 3073, 4095, 4096, 4097];
        let mut b = 8192;
        while b < n + 8192 {
            ps.extend([b - 1, b, b + 1]);
            b += 8192;
        }
        for _ in 0..tier.pick(60, 200) {
            ps.push(rng.below(n + 1));
        }
        // line boundaries: prefix is a complete stream
        let lb: Vec<usize> = doc.text.match_indices('\n').map(|(p, _)| p + 1).collect();
        for _ in 0..tier.pick(40, 150) {
            ps.push(*rng.pick(&lb));
        }
        ps.retain(|p| *p <= n);
        ps.sort_unstable();
        ps.dedup();
        l.add("docs/large", 1);
        l.add("large_doc_sampled_positions", ps.len() as u64);
        let chunkings = [Chunking::Whole, Chunking::Every(4096), Chunking::Every(1000)];
        sweep_doc(&run, &mut l, &doc, val_t, &chunkings[i % 3..i % 3 + 1], 1, Some(&ps), &ALL_RENTRIES);
        l.flush(&run);
    });

    // ================= 3. cap far below the input size
    let caps: Vec<usize> = if thorough {
        vec![0, 1, 10, 100, 1000, 4095, 8191, 8192, 8193, 10_000, 16_384, 65_536, 100_000, 300_000]
    } else {
        vec![0, 1, 100, 8192, 10_000, 100_000]
    };
    let kinds = ["seq", "multibyte-seq", "scalar", "map", "stream"];
    let mut cap_items: Vec<(usize, usize)> = Vec::new();
    for (ki, _) in kinds.iter().enumerate() {
        for (ci, _) in caps.iter().enumerate() {
            cap_items.push((ki, ci));
        }
    }
    par_range(if on(3) { cap_items.len() } else { 0 }, |ix| {
        let (ki, ci) = cap_items[ix];
        let mut l = Local::default();
        let kind = kinds[ki];
        let cap = caps[ci];
        let len = cap + CAP_MARGIN + 1024;
        let text = docs::cap_doc(kind, len);
        let chunkings = [Chunking::Whole, Chunking::Every(4096), Chunking::Every(1), Chunking::Every(100_000)];
        for e in ALL_RENTRIES {
            if kind == "stream" && e != REntry::ReadIter {
                continue; // single-document entry points stop at the second document
            }
            for (j, ch) in chunkings.iter().enumerate() {
                if !thorough && j >= 2 && (ci + ki) % 2 == 0 {
                    continue;
                }
                run.eval();
                let nocap = match run_reader(val_t, e, text.as_bytes(), base_opts(Some(None)), ch, &RFault::None, 1_000_000) {
                    Ok(r) => r,
                    Err(p) => {
                        run.violation_capped(&format!("C10:panic:{}", panic_site(&p)), json!({"section": "cap-large", "doc_kind": kind, "doc_len_at_least": len, "cap": "none", "entry": e.name()}), p);
                        continue;
                    }
                };
                // premise of the "absent cap is visible" argument: uncapped, the whole input is pulled and accepted
                if nocap.items.iter().any(|i| matches!(i, Canon::Err(..))) || nocap.stats.bytes_out != text.len() {
                    run.inconclusive("cap: uncapped run of the large document did not succeed / did not read everything");
                    continue;
                }
                check_cap_large(&run, &mut l, &CapCase { kind, len, cap, e, ch, t: val_t }, &text, &nocap);
            }
        }
        l.flush(&run);
    });

    // ================= 5. scalar-root documents into typed scalar targets (taken with a bare next())
    let sdocs = styped::scalar_docs();
    let stargets: Vec<&'static Target> = styped::all().collect();
    run.count("scalar_root_documents", sdocs.len() as u64);
    let n_s = if on(5) { sdocs.len() * stargets.len() } else { 0 };
    par_range(n_s, |ix| {
        let mut l = Local::default();
        let doc = &sdocs[ix / stargets.len()];
        let t = stargets[ix % stargets.len()];
        let chunkings = [Chunking::Whole, Chunking::Every(1)];
        let all4 = [REntry::FromReader, REntry::WithDeReader, REntry::ReadIter, REntry::ReadPlain];
        // quick: both chunkings for the numeric/bool/char targets on every document; thorough: everything
        let chs: &[Chunking] = if thorough || ix % 2 == 0 { &chunkings } else { &chunkings[1..] };
        sweep_doc(&run, &mut l, doc, t, chs, 1, None, &all4);
        l.add("docs/scalar-root-x-typed-target", 1);
        if ix % 97 == 0 {
            run.sample(|| json!({"section": "reader-fault", "class": doc.class, "text": doc.text, "target": t.name}));
        }
        l.flush(&run);
    });

    // ================= 4. writer faults
    let vals = writer_vals(run.seed, tier);
    let n_recs = docs::any_records().len();
    run.count("writer_values", (vals.len() + n_recs) as u64);
    run.count("writer_option_vectors", N_SER_OPTS as u64);
    // (a) Val trees: option vector 0 (to_io_writer) and seeded others
    let per_val = tier.pick(3usize, 4usize);
    par_range(if on(4) { vals.len() } else { 0 }, |i| {
        let mut l = Local::default();
        let shorts: &[usize] = if i % 4 == 0 { &[0, 1, 3] } else { &[0] };
        let ident = json!({"kind": "val", "index": i, "seed": run.seed as i64, "tier": tier.name(), "value": vals[i].to_json()});
        let mut rng = Rng::stream(run.seed, i as u64 ^ 0x0b75);
        for j in 0..per_val {
            let optv = if j == 0 && i % 3 == 0 { 0 } else { rng.below(N_SER_OPTS) };
            sweep_value(&run, &mut l, &vals[i], &ident, optv, shorts, None);
        }
        if i % 211 == 0 {
            run.sample(|| json!({"section": "writer", "value": vals[i].to_json()}));
        }
        l.flush(&run);
    });
    // (b) derived records (plain, shared anchors, layout wrappers / block scalars) x EVERY option vector
    par_range(if on(4) { n_recs * N_SER_OPTS } else { 0 }, |ix| {
        let mut l = Local::default();
        let recs = docs::any_records(); // Rc inside: built per work item
        let j = ix / N_SER_OPTS;
        let optv = ix % N_SER_OPTS;
        let ident = json!({"kind": "record", "index": j});
        let shorts: &[usize] = if thorough || optv % 8 == 0 { &[0, 1, 7] } else { &[0] };
        sweep_value(&run, &mut l, &recs[j], &ident, optv, shorts, None);
        l.flush(&run);
    });

    let scope = format!(
        "reader: for each of the {n_docs} generated documents (<= 2 KiB; families: block documents and streams whose truncated prefixes are complete documents, generated trees, flow, special shapes) and of every scalar-root document/stream of the fixed list x typed targets {{u64, i64, f64, bool, char, u8, i128, f32, Option<u64>, String, Val}} incl. serde_saphyr::read x chunkings x {{from_reader, with_deserializer_from_reader, read iterator}}: hard error after byte k for EVERY k in 0..=len, hard error on read call k for EVERY k below the fault-free call count, EOF at EVERY byte offset inside a multi-byte character{}; writer: for every value of the set ({} values: all base trees with <= {} nodes as Val and seeded random Val trees x seeded option vectors; 5 derived records (plain, RcAnchor/ArcAnchor shared nodes, LitString/FoldString/Commented/FlowSeq/FlowMap/SpaceAfter wrappers) x ALL 768 serializer option vectors = 2^7 booleans x indent_step {{2,1,4}} x {{default, narrow}} folding): failing write call k for EVERY k in 0..=fault-free call count and failure after n accepted bytes for EVERY n in 0..=len (sticky and fail-once; short writes 0/1/3/7)",
        format!(", and the fail-once variants of both at EVERY k; a quarter of the documents additionally behind a UTF-8 byte-order mark and a quarter as UTF-16 LE/BE with BOM (every k, incl. every k inside the mark); cap: EVERY cap value 0..=len+1 for every sweep document of <= {} bytes (so the cap also falls inside every multi-byte character and inside the mark)", tier.pick(160, 400)),
        vals.len() + n_recs,
        4
    );
    let fin = Finish::new(
        "reader: a case is non-trivial when the instrumented reader reports that the fault fired, distinct by hash(document, target, entry point, chunking, fault); writer: the writer was called >= 2 times before failing, distinct by hash(fault-free output, options, short-write size, fault); cap: every case (the cap is below the input length or exactly around it)",
    )
    .level("fault_enumeration")
    .exhaustive(scope)
    .assume("buffering allowance for the cap fixed in DESIGN.md before measuring: 64 KiB; cap inputs are >= cap + 256 KiB")
    .assume("instrumented readers never return Ok(0) before the end of data and never ErrorKind::Interrupted; sticky faults keep failing, fail-once faults lose no data")
    .assume("which Err is returned after a fault is not constrained (the statement says 'an error'); kinds are recorded in the evidence")
    .assume("the cap counts decoded UTF-8 bytes: for BOM-prefixed and UTF-16 inputs cap values between the raw and the decoded length are unspecified; items the iterator yields after a fail-once read error are unspecified; a UTF-16 stream that ends inside a code unit or between surrogates is observed only (the transcoder substitutes U+FFFD)")
    .min_nontrivial(tier.pick(2_000_000, 20_000_000));
    run.finish(fin);
}
