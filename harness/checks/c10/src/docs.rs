//! Documents and values for C10.

use serde::Serialize;
use std::collections::BTreeMap;
use vcore::rng::Rng;
use vcore::treegen::{self, Leaf};
use vcore::val::Val;
use vcore::ydoc::{self, RenderOpts, Style};

/// A document (or stream) for the fault sweep. `ends[i]` = byte offset just
/// after the last significant byte of the i-th (non-null) document, when the
/// harness composed the stream itself and therefore knows it.
#[derive(Clone, Debug)]
pub struct Doc {
    pub text: String,
    pub ends: Option<Vec<usize>>,
    pub class: &'static str,
    /// `Some` = the reader is fed these bytes (UTF-16 with BOM) instead of `text` as UTF-8
    pub wire: Option<Wire>,
}

#[derive(Clone, Debug)]
pub struct Wire {
    pub enc: &'static str,
    pub bytes: Vec<u8>,
    pub ends: Option<Vec<usize>>,
}

pub fn utf16_bytes(text: &str, le: bool) -> Vec<u8> {
    let mut out = Vec::with_capacity(2 + text.len() * 2);
    let push = |u: u16, out: &mut Vec<u8>| out.extend_from_slice(&if le { u.to_le_bytes() } else { u.to_be_bytes() });
    push(0xFEFF, &mut out);
    for u in text.encode_utf16() {
        push(u, &mut out);
    }
    out
}

impl Doc {
    /// The same document sent as UTF-16 (LE/BE) with a byte-order mark.
    pub fn as_utf16(&self, le: bool) -> Doc {
        let text = self.text.trim_start_matches('\u{FEFF}').to_string();
        let shift = self.text.len() - text.len();
        let ends = self.ends.as_ref().map(|v| v.iter().map(|e| 2 + 2 * text[..e.saturating_sub(shift).min(text.len())].encode_utf16().count()).collect());
        let bytes = utf16_bytes(&text, le);
        Doc {
            ends: self.ends.as_ref().map(|v| v.iter().map(|e| e.saturating_sub(shift)).collect()),
            text,
            class: self.class,
            wire: Some(Wire { enc: if le { "utf-16le" } else { "utf-16be" }, bytes, ends }),
        }
    }
    pub fn data(&self) -> &[u8] {
        match &self.wire {
            Some(w) => &w.bytes,
            None => self.text.as_bytes(),
        }
    }
    /// Document end offsets in the bytes the reader sees.
    pub fn wire_ends(&self) -> Option<&Vec<usize>> {
        match &self.wire {
            Some(w) => w.ends.as_ref(),
            None => self.ends.as_ref(),
        }
    }
    /// The text the decoder can have produced from the first `upto` wire bytes, and the index into it
    /// that corresponds to `upto` (for UTF-8 the index may fall inside a character).
    pub fn visible(&self, upto: usize) -> (std::borrow::Cow<'_, str>, usize) {
        match &self.wire {
            None => (std::borrow::Cow::Borrowed(self.text.as_str()), upto.min(self.text.len())),
            Some(w) => {
                let le = w.enc == "utf-16le";
                let upto = upto.min(w.bytes.len());
                let units: Vec<u16> = w.bytes[2.min(upto)..upto]
                    .chunks_exact(2)
                    .map(|c| if le { u16::from_le_bytes([c[0], c[1]]) } else { u16::from_be_bytes([c[0], c[1]]) })
                    .collect();
                let s: String = char::decode_utf16(units).filter_map(|r| r.ok()).collect();
                let n = s.len();
                (std::borrow::Cow::Owned(s), n)
            }
        }
    }
    pub fn enc_name(&self) -> &'static str {
        self.wire.as_ref().map_or("utf-8", |w| w.enc)
    }
}

const LEAVES: &[Leaf] = &[
    Leaf { text: "x", style: Style::Plain, unique: true },
    Leaf { text: "12", style: Style::Plain, unique: false },
    Leaf { text: "true", style: Style::Plain, unique: false },
    Leaf { text: "q q", style: Style::Single, unique: false },
    Leaf { text: "é", style: Style::Plain, unique: false },
    Leaf { text: "日本", style: Style::Plain, unique: true },
    Leaf { text: "a\tb", style: Style::Double, unique: false },
    Leaf { text: "l1\nl2\n", style: Style::Literal, unique: false },
    Leaf { text: "long plain scalar value", style: Style::Plain, unique: false },
    Leaf { text: "😀", style: Style::Double, unique: false },
];

fn word(rng: &mut Rng) -> String {
    let ws = ["alpha", "beta", "12", "3.5", "true", "é", "日本語", "x y", "'q'", "\"d\\te\"", "😀", "value", "~x", "-1", "a-b"];
    rng.pick(&ws).to_string()
}

/// One body (a single non-null document, block style unless said otherwise)
/// whose truncated prefixes are very often complete documents themselves.
fn dangerous_body(rng: &mut Rng, brk: &str) -> String {
    let mut s = String::new();
    match rng.below(6) {
        0 => {
            // flat block mapping
            for i in 0..rng.range(2, 10) {
                s.push_str(&format!("k{i}: {}{brk}", word(rng)));
            }
        }
        1 => {
            // flat block sequence
            for _ in 0..rng.range(2, 10) {
                s.push_str(&format!("- {}{brk}", word(rng)));
            }
        }
        2 => {
            // nested block mapping / sequence
            for i in 0..rng.range(1, 4) {
                s.push_str(&format!("m{i}:{brk}"));
                for j in 0..rng.range(1, 4) {
                    if rng.bool() {
                        s.push_str(&format!("  n{j}: {}{brk}", word(rng)));
                    } else {
                        s.push_str(&format!("  n{j}:{brk}    - {}{brk}    - {}{brk}", word(rng), word(rng)));
                    }
                }
            }
        }
        3 => {
            // sequence of mappings
            for _ in 0..rng.range(1, 5) {
                s.push_str(&format!("- id: {}{brk}  name: {}{brk}", rng.below(1000), word(rng)));
            }
        }
        4 => {
            // a long plain scalar at the root, multi-line (every line break is a complete prefix)
            for _ in 0..rng.range(1, 5) {
                s.push_str(&format!("word {} more{brk}", rng.below(100)));
            }
        }
        _ => {
            // block scalars
            s.push_str(&format!("text: |{brk}"));
            for _ in 0..rng.range(1, 4) {
                s.push_str(&format!("  line {}{brk}", word(rng)));
            }
            s.push_str(&format!("after: {}{brk}", word(rng)));
        }
    }
    s
}

fn tree_body(rng: &mut Rng, brk: &'static str) -> String {
    let mut counter = 0;
    let budget = rng.range(2, 30);
    let mut t = treegen::random_tree(rng, budget, 4, LEAVES, &mut counter);
    if rng.chance(1, 3) {
        t.set_flow(true);
    }
    let ro = RenderOpts { indent: *rng.pick(&[2usize, 2, 4]), brk, compact: rng.bool() };
    ydoc::render(&t, &ro).text
}

fn is_nullish_body(b: &str) -> bool {
    let t = b.trim();
    t.is_empty() || t == "~" || t.eq_ignore_ascii_case("null")
}

/// The i-th document of the sweep (pure function of seed and index).
pub fn sweep_doc(seed: u64, i: usize) -> Doc {
    let mut rng = Rng::stream(seed, i as u64 ^ 0xd0c5);
    let brk: &'static str = *rng.pick(&["\n", "\n", "\n", "\r\n"]);
    match i % 8 {
        0 | 1 => {
            let mut text = dangerous_body(&mut rng, brk);
            if rng.chance(1, 4) {
                text = text.trim_end().to_string();
            }
            let e = text.trim_end().len();
            Doc { text, ends: Some(vec![e]), class: "dangerous-single", wire: None }
        }
        2 | 3 => {
            // streams x --- y (--- z …): the prefix up to any separator is a complete stream
            let n = rng.range(2, 5);
            let mut text = String::new();
            let mut ends = Vec::new();
            if rng.chance(1, 3) {
                text.push_str("---");
                text.push_str(brk);
            }
            for d in 0..n {
                if d > 0 {
                    if rng.chance(1, 4) {
                        text.push_str("...");
                        text.push_str(brk);
                    }
                    text.push_str("---");
                    text.push_str(brk);
                }
                let body = if rng.chance(1, 3) { format!("{}{brk}", word(&mut rng)) } else { dangerous_body(&mut rng, brk) };
                let body = if is_nullish_body(&body) { format!("v{brk}") } else { body };
                let start = text.len();
                text.push_str(&body);
                ends.push(start + body.trim_end().len());
            }
            Doc { text, ends: Some(ends), class: "dangerous-stream", wire: None }
        }
        4 | 5 => {
            let text = tree_body(&mut rng, brk);
            let e = text.trim_end().len();
            let single = !is_nullish_body(&text);
            Doc { text, ends: if single { Some(vec![e]) } else { None }, class: "generated-tree", wire: None }
        }
        6 => {
            // flow documents: no proper prefix is complete
            let mut text = String::from("{");
            for k in 0..rng.range(1, 8) {
                if k > 0 {
                    text.push_str(", ");
                }
                text.push_str(&format!("k{k}: [{}, \"{}\"]", rng.below(50), word(&mut rng).replace(['"', '\\', '\''], "")));
            }
            text.push('}');
            if rng.bool() {
                text.push_str(brk);
            }
            let e = text.trim_end().len();
            Doc { text, ends: Some(vec![e]), class: "flow", wire: None }
        }
        _ => {
            // special shapes
            let specials: &[&str] = &[
                "a: 1\nb: 2",
                "- x\n- y",
                "x\n---\ny",
                "a: 1\n...\n",
                "a: 1\n...\ntrailing garbage [\n",
                "\u{FEFF}a: é\nb: ü\n",
                "\u{FEFF}- 日本\n- 語\n",
                "# comment é\na: 1\n# c2\nb: 2\n",
                "a: &x 1\nb: *x\nc: *x\n",
                "é: ü\n日本: 語\n😀: 😀\n",
                "k1: v\nk2: [1, 2\n",
                "- [a\n",
                "key: \"unterminated\n",
                "a: 1\n---\nb: 2\n---\nc: [\n",
                "a: 1\n--- ~\n---\nb: 2\n",
                "a: b: c\nd: 1\n",
                "\n\n\n",
                "",
                "x",
                "é",
                "'é' # c\n",
                "? a\n: b\n? c\n: d\n",
                "a:\n  - 1\n  - 2\nb:\n  c: d\n",
            ];
            let s = specials[(i / 8) % specials.len()];
            Doc { text: s.to_string(), ends: None, class: "special", wire: None }
        }
    }
}

/// Larger documents (k is sampled, not swept): a stream of many small block documents, or one
/// big block sequence.
pub fn large_doc(seed: u64, i: usize) -> Doc {
    let mut rng = Rng::stream(seed, i as u64 ^ 0x1a76e);
    let target = [9_000usize, 20_000, 40_000, 100_000][i % 4];
    if i % 3 == 0 {
        let mut text = String::new();
        let mut ends = Vec::new();
        while text.len() < target {
            if !text.is_empty() {
                text.push_str("---\n");
            }
            let start = text.len();
            let body = dangerous_body(&mut rng, "\n");
            text.push_str(&body);
            ends.push(start + body.trim_end().len());
        }
        Doc { text, ends: Some(ends), class: "large-stream", wire: None }
    } else {
        let mut t = String::new();
        let mut k = 0;
        while t.len() < target {
            t.push_str(&format!("- item {k} {}\n", word(&mut rng)));
            k += 1;
        }
        let e = t.trim_end().len();
        Doc { text: t, ends: Some(vec![e]), class: "large-single", wire: None }
    }
}

/// Documents for the cap tests; all are valid and read to the end when uncapped.
pub fn cap_doc(kind: &str, min_len: usize) -> String {
    let mut s = String::with_capacity(min_len + 256);
    match kind {
        "seq" => {
            let mut k = 0usize;
            while s.len() < min_len {
                s.push_str(&format!("- item-{k:08}-xxxxxxxxxxxxxxxxxxxxxxxxxxxxxxxxxxxxxxxxxxxxxxxxxxxxxxxxxxxxxxxx\n"));
                k += 1;
            }
        }
        "multibyte-seq" => {
            let mut k = 0usize;
            while s.len() < min_len {
                s.push_str(&format!("- 語{k:08}日本語日本語日本語日本語日本語日本語日本語日本語日本語日本語é😀\n"));
                k += 1;
            }
        }
        "scalar" => {
            s.push_str("k: \"");
            while s.len() < min_len {
                s.push_str("0123456789abcdefghijklmnopqrstuvwxyz ");
            }
            s.push_str("\"\n");
        }
        "map" => {
            let mut k = 0usize;
            while s.len() < min_len {
                s.push_str(&format!("key{k:08}: {{a: {k}, b: [x, y, \"zzzzzzzzzzzzzzzzzzzzzzzzzzzzzzzzzzzzzzzzzzzzzz\"]}}\n"));
                k += 1;
            }
        }
        _ => {
            // "stream": many documents
            let mut k = 0usize;
            while s.len() < min_len {
                if k > 0 {
                    s.push_str("---\n");
                }
                s.push_str(&format!("id: {k}\nname: document-{k:08}\npayload: pppppppppppppppppppppppppppppppppppppppppppppppppppppppppppppppppppppppppppppppppppppppppppppppppp\ntags: [a, b, c]\n"));
                k += 1;
            }
        }
    }
    s
}

// ------------------------------------------------------------------ writer values

#[derive(Serialize, Clone, Debug)]
pub enum Shape {
    Unit,
    New(i32),
    Tup(u8, String),
    St { a: Option<f64>, b: Vec<String> },
}

#[derive(Serialize, Clone, Debug)]
pub struct Inner {
    pub id: u32,
    pub label: String,
    pub flags: Vec<bool>,
}

#[derive(Serialize, Clone, Debug)]
pub struct Record {
    pub name: String,
    pub text: String,
    pub n: i64,
    pub f: f64,
    pub opt: Option<Inner>,
    pub none: Option<u8>,
    pub items: Vec<Inner>,
    pub map: BTreeMap<String, Vec<i32>>,
    pub shapes: Vec<Shape>,
    pub unit: (),
    pub tuple: (i8, char, String),
    pub empty_seq: Vec<u8>,
    pub empty_map: BTreeMap<String, String>,
}

/// Shared nodes: the serializer emits `&a1` at the first use and `*a1` afterwards.
#[derive(Serialize, Clone, Debug)]
pub struct Graph {
    pub first: serde_saphyr::RcAnchor<Inner>,
    pub again: serde_saphyr::RcAnchor<Inner>,
    pub list: Vec<serde_saphyr::RcAnchor<Inner>>,
    pub arc: serde_saphyr::ArcAnchor<Vec<String>>,
    pub arc_again: serde_saphyr::ArcAnchor<Vec<String>>,
    pub nested: BTreeMap<String, serde_saphyr::RcAnchor<Inner>>,
    pub plain: Inner,
}

/// Layout wrappers and forced block scalars.
#[derive(Serialize, Clone, Debug)]
pub struct Wrapped {
    pub lit: serde_saphyr::LitString,
    pub lit_keep: serde_saphyr::LitString,
    pub fold: serde_saphyr::FoldString,
    pub commented: serde_saphyr::Commented<i32>,
    pub flow_seq: serde_saphyr::FlowSeq<Vec<i32>>,
    pub flow_map: serde_saphyr::FlowMap<BTreeMap<String, i32>>,
    pub spaced: serde_saphyr::SpaceAfter<Vec<String>>,
    pub seq_of_lit: Vec<serde_saphyr::LitString>,
    pub tail: String,
}

#[derive(Serialize, Clone, Debug)]
#[serde(untagged)]
pub enum AnyRec {
    R(Record),
    G(Graph),
    W(Wrapped),
}

pub fn any_records() -> Vec<AnyRec> {
    use serde_saphyr::{ArcAnchor, Commented, FlowMap, FlowSeq, FoldString, LitString, RcAnchor, SpaceAfter};
    let mut out: Vec<AnyRec> = records().into_iter().map(AnyRec::R).collect();
    let shared = std::rc::Rc::new(Inner { id: 7, label: "shared é".into(), flags: vec![true, false] });
    let other = std::rc::Rc::new(Inner { id: 8, label: "other: #x".into(), flags: vec![] });
    let arc = std::sync::Arc::new(vec!["p".to_string(), "multi\nline\n".to_string()]);
    let mut nested = BTreeMap::new();
    nested.insert("n1".to_string(), RcAnchor(shared.clone()));
    nested.insert("n2".to_string(), RcAnchor(other.clone()));
    out.push(AnyRec::G(Graph {
        first: RcAnchor(shared.clone()),
        again: RcAnchor(shared.clone()),
        list: vec![RcAnchor(other.clone()), RcAnchor(shared.clone()), RcAnchor(other.clone())],
        arc: ArcAnchor(arc.clone()),
        arc_again: ArcAnchor(arc),
        nested,
        plain: Inner { id: 9, label: "unshared".into(), flags: vec![false] },
    }));
    let mut fm = BTreeMap::new();
    fm.insert("a".to_string(), 1);
    fm.insert("b c".to_string(), -2);
    out.push(AnyRec::W(Wrapped {
        lit: LitString("line one\nline two é\n".into()),
        lit_keep: LitString("keep\n\n\n".into()),
        fold: FoldString("a long folded paragraph that should be wrapped by the serializer at the configured width because it keeps going and going and going and going\n\nsecond paragraph\n".into()),
        commented: Commented(42, "the answer é".into()),
        flow_seq: FlowSeq(vec![1, 2, 3]),
        flow_map: FlowMap(fm),
        spaced: SpaceAfter(vec!["x".into(), "y: z".into()]),
        seq_of_lit: vec![LitString("  indented first line\nnext\n".into()), LitString("no trailing newline".into())],
        tail: "end".into(),
    }));
    out
}

pub fn records() -> Vec<Record> {
    let inner = |i: u32| Inner { id: i, label: format!("label {i} é"), flags: vec![i % 2 == 0, true] };
    let mut m = BTreeMap::new();
    m.insert("one".to_string(), vec![1, 2, 3]);
    m.insert("two: colon".to_string(), vec![]);
    vec![
        Record {
            name: "simple".into(),
            text: "short".into(),
            n: -7,
            f: 1.5,
            opt: Some(inner(1)),
            none: None,
            items: vec![inner(2), inner(3)],
            map: m.clone(),
            shapes: vec![Shape::Unit, Shape::New(5), Shape::Tup(1, "x".into()), Shape::St { a: Some(0.25), b: vec!["p".into(), "q r".into()] }],
            unit: (),
            tuple: (-1, 'é', "t".into()),
            empty_seq: vec![],
            empty_map: BTreeMap::new(),
        },
        Record {
            name: "needs: quoting # really".into(),
            text: "line one\nline two é\n\nline four with a very long tail that goes on and on and on and on and on and on and on and on and on and on and on and on and on\n".into(),
            n: i64::MIN,
            f: f64::NAN,
            opt: None,
            none: Some(255),
            items: vec![],
            map: BTreeMap::new(),
            shapes: vec![Shape::St { a: None, b: vec![] }],
            unit: (),
            tuple: (127, '\'', "- not a list".into()),
            empty_seq: vec![1, 2],
            empty_map: [("k".to_string(), "v".to_string())].into_iter().collect(),
        },
        Record {
            name: "".into(),
            text: "a single very long line that the serializer may decide to fold because it is longer than the folding threshold: lorem ipsum dolor sit amet consectetur adipiscing elit sed do eiusmod tempor incididunt ut labore et dolore magna aliqua".into(),
            n: 0,
            f: -0.0,
            opt: Some(Inner { id: 0, label: "true".into(), flags: vec![] }),
            none: None,
            items: (0..6).map(inner).collect(),
            map: m,
            shapes: vec![],
            unit: (),
            tuple: (0, '\n', "\t tab".into()),
            empty_seq: vec![],
            empty_map: BTreeMap::new(),
        },
    ]
}

/// Random `Val` tree (scalars of every kind, nested seq/map).
pub fn random_val(rng: &mut Rng, depth: usize) -> Val {
    let leaf = depth == 0 || rng.chance(2, 5);
    if leaf {
        return match rng.below(11) {
            0 => Val::Null,
            1 => Val::Bool(rng.bool()),
            2 => Val::Int(rng.below(2000) as i128 - 1000),
            3 => Val::Int(u64::MAX as i128),
            4 => Val::f([0.5, -1.25e10, f64::INFINITY, 1e-7, 3.0][rng.below(5)]),
            5 => Val::s(["plain", "two words", "é", "日本語 text", "😀"][rng.below(5)]),
            6 => Val::s(["", " ", "~", "null", "true", "12", "0x1f", "- x", "a: b", "#c", "'q'", "\"d\"", "---", "..."][rng.below(14)]),
            7 => Val::s("multi\nline\ntext\n"),
            8 => Val::s("trailing space \nand\ttab\u{0007}bell"),
            9 => Val::s(&"long ".repeat(rng.range(10, 40))),
            _ => Val::Bytes(vec![0, 159, 146, 150, 255]),
        };
    }
    if rng.bool() {
        Val::Seq((0..rng.range(0, 4)).map(|_| random_val(rng, depth - 1)).collect())
    } else {
        let n = rng.range(0, 4);
        Val::Map(
            (0..n)
                .map(|i| {
                    let k = if rng.chance(1, 5) { random_val(rng, 1) } else { Val::s(&format!("k{i}")) };
                    (k, random_val(rng, depth - 1))
                })
                .collect(),
        )
    }
}
