//! C15 — a call's result depends only on its arguments, not on earlier or nested calls.
//!
//! Differential oracle on the real code. An alphabet of calls (each a closed
//! program over the public API returning a canonical outcome: values, error
//! kind + line/column + message, pointer-sharing classes, strong counts per class,
//! payloads dropped with the result, budget report, emitted text) is executed
//!   * alone on a fresh thread                     -> the call's *baseline*;
//!   * as a member of every history of length <= 4 (quick) / <= 5 (thorough)
//!     over the core alphabet, every pair and triple over the full table (all 19
//!     entry points x {Ok, Err, visitor panic}), every schedule of `next` calls on
//!     three iterators held open at the same time (and every pair of table calls
//!     between their items), and seeded random histories up to length 24 — each
//!     history on its own fresh thread; every call's outcome must equal its baseline;
//!   * nested inside another type's `Deserialize` impl (15 outer kinds: the nesting
//!     field in the middle of / before anchored material, inside Rc/Arc/recursive
//!     wrapper contexts, in a tuple element, in a mapping key, in the closure of
//!     `with_deserializer_*`; the nesting type ends Ok / Err / panics through the
//!     outer call; the nested calls run on the same or on another thread; every
//!     entry point; nesting depth <= 3): the outer call with the real nested
//!     call(s) must equal the same outer call whose nested calls are replaced by
//!     their constant (baseline) results, and every nested call's own outcome must
//!     equal its baseline;
//!   * repeatedly (fresh threads, and fresh *processes* for the hash seeds).
//! Two probe calls expose leaked thread-local state at the API boundary only:
//! a `Deserialize` impl that immediately returns `Error::missing_field` (its
//! location is `None` on a clean thread, stale otherwise) and `RcAnchor`/weak/
//! recursive parses that re-use anchor id 1 with a different value or type.
//! No "state is empty" probe stricter than the property is used.
//!
//! Signatures: `C15:history:<call>:<path of first difference>` (history dependence),
//! `C15:nested-parse-clears-outer-anchor-store` (outer result is the constant-mode result with
//! anchor-table entries lost: finer sharing partition with equal values, or a weak / recursive
//! alias-side wrapper that no longer finds the anchor defined before the nested call),
//! `C15:nested-call-sees-outer-fallback-location` (nested call's error = fresh-thread error plus
//! a location where the fresh-thread error has none), `C15:nested-call-differs:..`,
//! `C15:nested-outer-differs:..`, `C15:nondeterministic..`, `C15:within-call-state:<call>`
//! (baseline of a successful parse is not the documented value/sharing), `C15:panic:<site>`.
//!
//! Hash-map iteration order is never part of an outcome (all targets are
//! ordered: structs, Vec).

use serde::de::{self, DeserializeOwned, Deserializer, MapAccess, Visitor};
use serde::{Deserialize, Serialize};
use serde_json::{Value, json};
use serde_saphyr::{
    ArcAnchor, ArcRecursion, ArcRecursive, ArcWeakAnchor, Budget, Error, Options, RcAnchor, RcRecursion, RcRecursive, RcWeakAnchor,
};
use std::cell::{Cell, RefCell};
use std::collections::HashMap;
use std::fmt;
use std::rc::Rc;
use std::sync::{Arc, Mutex, OnceLock};
use vcore::rng::{Rng, fnv_parts};
use vcore::run::{Finish, Run, Tier, par_range};

// ------------------------------------------------------------------ outcomes

fn err_json(e: &Error) -> Value {
    let msg: String = e.without_snippet().to_string().chars().take(240).collect();
    json!({"err": {
        "kind": vcore::errs::kind(e),
        "loc": vcore::errs::line_col(e).map(|(l, c)| vec![l, c]),
        "msg": msg,
    }})
}

fn classes(ptrs: impl IntoIterator<Item = usize>) -> Vec<usize> {
    let mut seen: Vec<usize> = Vec::new();
    ptrs.into_iter()
        .map(|p| match seen.iter().position(|q| *q == p) {
            Some(i) => i,
            None => {
                seen.push(p);
                seen.len() - 1
            }
        })
        .collect()
}

fn custom_err(msg: &str) -> Error {
    <Error as de::Error>::custom(msg)
}

// ------------------------------------------------------------------ call model

/// A call of the alphabet: a base call of the table, or an outer parse of kind
/// `k` through entry point `e` whose `Deserialize` impl performs the listed
/// calls (nested) at a kind-specific position of the outer document; mode
/// `m = exit * 2 + where` says how the nesting type ends (Ok / Err / panic) and
/// on which thread the nested calls run.
#[derive(Clone, Debug, PartialEq, Eq, Hash, PartialOrd, Ord)]
enum Call {
    Base(usize),
    Nest(usize, usize, usize, Vec<Call>),
}

impl Call {
    /// Encoding used inside the outer YAML document (double-quoted scalar) and in replay files.
    fn enc(&self) -> String {
        match self {
            Call::Base(i) => i.to_string(),
            Call::Nest(k, e, m, inner) => format!("N{k}.{e}.{m}({})", enc_list(inner)),
        }
    }
    fn name(&self) -> String {
        match self {
            Call::Base(i) => table()[*i].name.clone(),
            Call::Nest(k, e, m, _) => format!("nest-{}@{}/{}/{}", NEST_KINDS[*k], ENTRIES[*e], EXITS[*m / 2], WHERES[*m % 2]),
        }
    }
    fn depth(&self) -> usize {
        match self {
            Call::Base(_) => 0,
            Call::Nest(_, _, _, v) => 1 + v.iter().map(|c| c.depth()).max().unwrap_or(0),
        }
    }
}

fn enc_list(v: &[Call]) -> String {
    v.iter().map(|c| c.enc()).collect::<Vec<_>>().join(",")
}

fn parse_list(s: &str) -> Option<Vec<Call>> {
    let b = s.as_bytes();
    let mut pos = 0;
    let v = parse_list_at(b, &mut pos)?;
    if pos == b.len() { Some(v) } else { None }
}

fn parse_list_at(b: &[u8], pos: &mut usize) -> Option<Vec<Call>> {
    let mut out = Vec::new();
    if *pos >= b.len() || b[*pos] == b')' {
        return Some(out);
    }
    loop {
        out.push(parse_call_at(b, pos)?);
        if *pos < b.len() && b[*pos] == b',' {
            *pos += 1;
        } else {
            return Some(out);
        }
    }
}

fn parse_num(b: &[u8], pos: &mut usize) -> Option<usize> {
    let st = *pos;
    while *pos < b.len() && b[*pos].is_ascii_digit() {
        *pos += 1;
    }
    std::str::from_utf8(&b[st..*pos]).ok()?.parse().ok()
}

fn parse_call_at(b: &[u8], pos: &mut usize) -> Option<Call> {
    if *pos < b.len() && b[*pos] == b'N' {
        *pos += 1;
        let k = parse_num(b, pos)?;
        if b.get(*pos) != Some(&b'.') {
            return None;
        }
        *pos += 1;
        let e = parse_num(b, pos)?;
        if b.get(*pos) != Some(&b'.') {
            return None;
        }
        *pos += 1;
        let m = parse_num(b, pos)?;
        if b.get(*pos) != Some(&b'(') {
            return None;
        }
        *pos += 1;
        let inner = parse_list_at(b, pos)?;
        if b.get(*pos) != Some(&b')') {
            return None;
        }
        *pos += 1;
        if k >= NEST_KINDS.len() || e >= ENTRIES.len() || m >= NEST_MODES {
            return None;
        }
        Some(Call::Nest(k, e, m, inner))
    } else {
        let i = parse_num(b, pos)?;
        if i >= table().len() {
            return None;
        }
        Some(Call::Base(i))
    }
}

thread_local! {
    /// true: nested calls are replaced by their constant (baseline) results.
    static CONST_MODE: Cell<bool> = const { Cell::new(false) };
    /// outcomes of the nested calls performed by the innermost running outer call
    static INNER_LOG: RefCell<Vec<Value>> = const { RefCell::new(Vec::new()) };
    /// iterators kept alive across the following calls of a history (harness state only)
    static HELD: RefCell<[Option<Held>; 3]> = const { RefCell::new([None, None, None]) };
    /// payloads of type `Dropper` dropped on this thread
    static DROPS: Cell<u64> = const { Cell::new(0) };
    /// number of real nested executions on this thread (evidence)
    static NESTED_EXECS: Cell<u64> = const { Cell::new(0) };
}

type HeldIter = Box<dyn Iterator<Item = Value>>;

/// A `read*` iterator together with the reader it borrows (freed after the iterator).
struct Held {
    pos: usize,
    it: Option<HeldIter>,
    rd: *mut &'static [u8],
}
impl Drop for Held {
    fn drop(&mut self) {
        self.it = None;
        // SAFETY: `rd` came from Box::into_raw in `open_stream` and only the iterator dropped above borrowed it.
        unsafe { drop(Box::from_raw(self.rd)) };
    }
}

/// Calls whose baseline is kept for the whole run (everything else is recomputed when needed).
fn registered() -> &'static Mutex<std::collections::HashSet<Call>> {
    static R: OnceLock<Mutex<std::collections::HashSet<Call>>> = OnceLock::new();
    R.get_or_init(|| Mutex::new(std::collections::HashSet::new()))
}

fn baselines() -> &'static Mutex<HashMap<Call, Value>> {
    static B: OnceLock<Mutex<HashMap<Call, Value>>> = OnceLock::new();
    B.get_or_init(|| Mutex::new(HashMap::new()))
}

/// Run `f` on a brand-new thread (clean thread-locals of the library and of the harness).
fn fresh<T: Send>(f: impl FnOnce() -> T + Send) -> T {
    HOT_FRESH_THREADS.fetch_add(1, std::sync::atomic::Ordering::Relaxed);
    std::thread::scope(|s| {
        std::thread::Builder::new()
            .stack_size(32 << 20)
            .spawn_scoped(s, f)
            .expect("spawn fresh thread")
            .join()
            .expect("fresh thread must not die (panics are caught inside exec)")
    })
}

/// Baseline of a call: its outcome as the first and only call on a fresh thread (real mode).
fn baseline(c: &Call) -> Value {
    if let Some(v) = baselines().lock().unwrap().get(c) {
        return v.clone();
    }
    let v = fresh(|| exec(c));
    if matches!(c, Call::Base(_)) || registered().lock().unwrap().contains(c) {
        baselines().lock().unwrap().entry(c.clone()).or_insert(v).clone()
    } else {
        v
    }
}

/// Execute one call; a panic that escapes the call is an outcome of its own.
fn exec(c: &Call) -> Value {
    match vcore::obs::catch(|| match c {
        Call::Base(i) => (table()[*i].f)(),
        Call::Nest(k, e, m, inner) => run_nest(*k, *e, *m, inner),
    }) {
        Ok(v) => v,
        Err(p) => json!({"lib_panic": p}),
    }
}

// ------------------------------------------------------------------ entry points

const ENTRIES: &[&str] = &[
    "from_str",
    "from_slice",
    "from_reader",
    "from_multiple",
    "from_slice_multiple",
    "read",
    "with_deserializer_from_str",
    "with_deserializer_from_slice",
    "with_deserializer_from_reader",
    "from_str_valid",
    "from_slice_valid",
    "from_reader_valid",
    "from_multiple_valid",
    "read_valid",
    "from_str_validate",
    "from_slice_validate",
    "from_reader_validate",
    "from_multiple_validate",
    "read_validate",
];

trait Tgt: DeserializeOwned + garde::Validate<Context = ()> + validator::Validate {}

macro_rules! impl_tgt {
    ($($t:ty),*) => {$(
        impl garde::Validate for $t {
            type Context = ();
            fn validate_into(&self, _: &(), _: &mut dyn FnMut() -> garde::Path, _: &mut garde::Report) {}
        }
        impl validator::Validate for $t {
            fn validate(&self) -> Result<(), validator::ValidationErrors> { Ok(()) }
        }
        impl Tgt for $t {}
    )*};
}

fn parse_via<T: Tgt>(e: usize, doc: &str) -> Result<T, Error> {
    fn one<T>(r: Result<Vec<T>, Error>) -> Result<T, Error> {
        r.and_then(|v| v.into_iter().next().ok_or_else(|| custom_err("harness: stream had no document")))
    }
    fn first<T>(mut it: impl Iterator<Item = Result<T, Error>>) -> Result<T, Error> {
        // iterator dropped right after the first item
        it.next().unwrap_or_else(|| Err(custom_err("harness: iterator had no item")))
    }
    let bytes = doc.as_bytes();
    match e {
        0 => serde_saphyr::from_str(doc),
        1 => serde_saphyr::from_slice(bytes),
        2 => serde_saphyr::from_reader(bytes),
        3 => one(serde_saphyr::from_multiple(doc)),
        4 => one(serde_saphyr::from_slice_multiple(bytes)),
        5 => {
            let mut rd = bytes;
            first(serde_saphyr::read::<_, T>(&mut rd))
        }
        6 => serde_saphyr::with_deserializer_from_str(doc, |de| T::deserialize(de)),
        7 => serde_saphyr::with_deserializer_from_slice(bytes, |de| T::deserialize(de)),
        8 => serde_saphyr::with_deserializer_from_reader(bytes, |de| T::deserialize(de)),
        9 => serde_saphyr::from_str_valid(doc),
        10 => serde_saphyr::from_slice_valid(bytes),
        11 => serde_saphyr::from_reader_valid(bytes),
        12 => one(serde_saphyr::from_multiple_valid(doc)),
        13 => {
            let mut rd = bytes;
            first(serde_saphyr::read_valid::<_, T>(&mut rd))
        }
        14 => serde_saphyr::from_str_validate(doc),
        15 => serde_saphyr::from_slice_validate(bytes),
        16 => serde_saphyr::from_reader_validate(bytes),
        17 => one(serde_saphyr::from_multiple_validate(doc)),
        18 => {
            let mut rd = bytes;
            first(serde_saphyr::read_validate::<_, T>(&mut rd))
        }
        _ => Err(custom_err("harness: unknown entry point")),
    }
}

// ------------------------------------------------------------------ target types

#[derive(Deserialize, Serialize, Debug, Clone, PartialEq)]
struct Pt {
    x: i32,
    y: i32,
}

#[derive(Deserialize, Debug)]
#[allow(dead_code)]
struct Pt3 {
    x: i32,
    y: i32,
    z: i32,
}

#[derive(Deserialize)]
struct SharedDoc {
    first: RcAnchor<String>,
    items: Vec<RcAnchor<String>>,
    tail: RcAnchor<String>,
}
impl_tgt!(SharedDoc);

const SHARED_OK: &str = "first: &a x\nitems: [*a, &b y, *b, plain, &c x]\ntail: *b\n";
/// fails inside an anchored node (a sequence where `RcAnchor<String>` expects a scalar), after
/// two anchors were stored and one alias was served
const SHARED_FAIL: &str = "first: &a x\nitems: [*a, &b y, *b, &c [1, 2]]\ntail: *b\n";

/// Strong count of each sharing class (taken at its first member) while the whole result is
/// alive: an allocation that something outside the result still owns shows a larger count.
fn strong_per_class(cls: &[usize], counts: impl IntoIterator<Item = usize>) -> Vec<usize> {
    let mut out: Vec<usize> = Vec::new();
    for (c, n) in cls.iter().zip(counts) {
        if *c == out.len() {
            out.push(n);
        }
    }
    out
}

fn strs_out<'a>(all: impl IntoIterator<Item = &'a RcAnchor<String>>) -> Value {
    let all: Vec<&RcAnchor<String>> = all.into_iter().collect();
    let cls = classes(all.iter().map(|a| Rc::as_ptr(&a.0) as usize));
    json!({
        "values": all.iter().map(|a| (*a.0).clone()).collect::<Vec<String>>(),
        "strong": strong_per_class(&cls, all.iter().map(|a| Rc::strong_count(&a.0))),
        "classes": cls,
    })
}

fn shared_out(r: Result<SharedDoc, Error>) -> Value {
    match r {
        Ok(d) => json!({"ok": strs_out(std::iter::once(&d.first).chain(d.items.iter()).chain(std::iter::once(&d.tail)))}),
        Err(e) => err_json(&e),
    }
}

fn vec_out(r: Result<Vec<RcAnchor<String>>, Error>) -> Value {
    match r {
        Ok(v) => json!({"ok": strs_out(v.iter())}),
        Err(e) => err_json(&e),
    }
}

// --- Arc
#[derive(Deserialize)]
struct ArcDoc {
    strong: Vec<ArcAnchor<Pt>>,
    weak: ArcWeakAnchor<Pt>,
}

// --- weak probe
#[derive(Deserialize)]
#[allow(dead_code)]
struct WeakOnly {
    w: RcWeakAnchor<String>,
}

// --- alias replayed into a stricter type
#[derive(Deserialize)]
#[allow(dead_code)]
struct ReplayStrict {
    a: RcAnchor<Pt>,
    b: Pt3,
}

// --- recursive
#[derive(Deserialize)]
struct King {
    name: String,
    coronator: RcRecursion<King>,
}
#[derive(Deserialize)]
struct Kingdom {
    king: RcRecursive<King>,
}
#[derive(Deserialize)]
#[allow(dead_code)]
struct KingBad {
    name: String,
    coronator: RcRecursion<KingBad>,
    age: u32,
}
#[derive(Deserialize)]
#[allow(dead_code)]
struct KingdomBad {
    king: RcRecursive<KingBad>,
}

// --- Arc recursive
#[derive(Deserialize)]
struct KingArc {
    name: String,
    coronator: ArcRecursion<KingArc>,
}
#[derive(Deserialize)]
struct KingdomArc {
    king: ArcRecursive<KingArc>,
}
#[derive(Deserialize)]
struct StrongWeak {
    strong: RcAnchor<String>,
    weak: RcWeakAnchor<String>,
    again: RcAnchor<String>,
}
#[derive(Serialize)]
struct KingS {
    name: String,
    coronator: RcRecursion<KingS>,
}
#[derive(Serialize)]
struct KingdomS {
    king: RcRecursive<KingS>,
}
#[derive(Serialize)]
struct SerPair {
    a: RcAnchor<String>,
    b: RcAnchor<String>,
}
#[derive(Serialize)]
struct SerArcPair {
    a: ArcAnchor<String>,
    b: ArcAnchor<String>,
    w: ArcWeakAnchor<String>,
}

// --- probes for the fallback location
struct ProbeMissing;
impl<'de> Deserialize<'de> for ProbeMissing {
    fn deserialize<D: Deserializer<'de>>(_d: D) -> Result<Self, D::Error> {
        Err(<D::Error as de::Error>::missing_field("probe"))
    }
}
struct ProbeVariant;
impl<'de> Deserialize<'de> for ProbeVariant {
    fn deserialize<D: Deserializer<'de>>(_d: D) -> Result<Self, D::Error> {
        Err(<D::Error as de::Error>::unknown_variant("probe", &["a", "b"]))
    }
}

// --- a Deserialize impl that panics in the middle of a document: inside an
//     anchored node, inside an RcAnchor wrapper context, after one map key was read
struct BoomMap;
impl<'de> Deserialize<'de> for BoomMap {
    fn deserialize<D: Deserializer<'de>>(d: D) -> Result<Self, D::Error> {
        struct V;
        impl<'de> Visitor<'de> for V {
            type Value = BoomMap;
            fn expecting(&self, f: &mut fmt::Formatter) -> fmt::Result {
                f.write_str("a map")
            }
            fn visit_map<A: MapAccess<'de>>(self, mut m: A) -> Result<BoomMap, A::Error> {
                let _k: Option<String> = m.next_key()?;
                panic!("c15 visitor boom");
            }
        }
        d.deserialize_map(V)
    }
}
#[derive(Deserialize)]
#[allow(dead_code)]
struct PanicDoc {
    first: RcAnchor<String>,
    items: Vec<RcAnchor<String>>,
    boom: RcAnchor<BoomMap>,
}
impl_tgt!(PanicDoc);

// --- payload with a Drop counter
struct Dropper(String);
impl<'de> Deserialize<'de> for Dropper {
    fn deserialize<D: Deserializer<'de>>(d: D) -> Result<Self, D::Error> {
        String::deserialize(d).map(Dropper)
    }
}
impl Drop for Dropper {
    fn drop(&mut self) {
        let _ = DROPS.try_with(|d| d.set(d.get() + 1));
    }
}

// --- serialisation
#[derive(Serialize)]
struct SerDoc {
    a: RcAnchor<String>,
    b: RcAnchor<String>,
    list: Vec<ArcAnchor<Pt>>,
    w: RcWeakAnchor<String>,
    dangling: RcWeakAnchor<String>,
    c: RcAnchor<String>,
}
struct FailSer;
impl Serialize for FailSer {
    fn serialize<S: serde::Serializer>(&self, _s: S) -> Result<S::Ok, S::Error> {
        Err(<S::Error as serde::ser::Error>::custom("c15 ser boom"))
    }
}
#[derive(Serialize)]
struct SerFailDoc {
    a: RcAnchor<String>,
    b: RcAnchor<String>,
    f: FailSer,
}

// ------------------------------------------------------------------ nested calls

/// How the type that performs the nested calls ends: Ok / Err (a serde static constructor, its
/// location comes from the fallback thread-local) / panic (unwinds through the outer call).
const EXITS: &[&str] = &["ok", "err", "panic"];
/// Where the nested calls run: on the thread of the outer call, or on a freshly spawned thread
/// while the outer call is suspended in the middle of its document.
const WHERES: &[&str] = &["same-thread", "other-thread"];
const NEST_MODES: usize = 6; // exit * 2 + where
const NEST_PANIC: &str = "c15 nest boom";

fn nest_scalar(m: usize, inner: &[Call]) -> String {
    format!("{}{}|{}", m / 2, m % 2, enc_list(inner))
}

/// Perform the nested calls described by `"<exit><where>|<list>"`; returns the exit kind.
fn perform_nested(s: &str) -> Option<usize> {
    let (head, list) = s.split_once('|')?;
    let mut hc = head.chars();
    let x = hc.next()?.to_digit(10)? as usize;
    let w = hc.next()?.to_digit(10)? as usize;
    if hc.next().is_some() || x >= EXITS.len() || w >= WHERES.len() {
        return None;
    }
    let calls = parse_list(list)?;
    let constant = CONST_MODE.with(|c| c.get());
    for c in &calls {
        let v = if constant {
            baseline(c)
        } else {
            NESTED_EXECS.with(|n| n.set(n.get() + 1));
            if w == 1 { fresh(|| exec(c)) } else { exec(c) }
        };
        INNER_LOG.with(|l| l.borrow_mut().push(v));
    }
    Some(x)
}

fn finish_nested<E: de::Error>(exit: Option<usize>) -> Result<(), E> {
    match exit {
        None => Err(E::custom("harness: bad nest scalar")),
        Some(0) => Ok(()),
        Some(1) => Err(E::missing_field("after_nest")),
        Some(_) => panic!("{NEST_PANIC}"),
    }
}

/// Performs the calls listed in its scalar (nested, at its position in the outer document).
struct NestV;
impl<'de> Deserialize<'de> for NestV {
    fn deserialize<D: Deserializer<'de>>(d: D) -> Result<Self, D::Error> {
        let s = String::deserialize(d)?;
        finish_nested::<D::Error>(perform_nested(&s))?;
        Ok(NestV)
    }
}

/// A mapping key that performs nested calls while the key is being deserialized.
#[derive(PartialEq, Eq, PartialOrd, Ord)]
struct NestKey(String);
impl<'de> Deserialize<'de> for NestKey {
    fn deserialize<D: Deserializer<'de>>(d: D) -> Result<Self, D::Error> {
        let s = String::deserialize(d)?;
        if s.contains('|') {
            finish_nested::<D::Error>(perform_nested(&s))?;
        }
        Ok(NestKey(s))
    }
}

const NEST_KINDS: &[&str] = &[
    // nested calls in the middle of anchored material
    "plain",
    "in-anchored-ctx",
    "weak-after",
    "arc",
    "recursive",
    "arc-recursive",
    "in-tuple",
    "in-map-key",
    // nested calls FIRST: before the outer document stored any anchor, outside any wrapper
    "first-rc",
    "first-arc",
    "first-rc-u32",
    "first-in-tuple",
    "first-recursive",
    "first-arc-recursive",
    // nested calls made by the closure of with_deserializer_from_* before it deserializes
    "closure-before",
];

#[derive(Deserialize)]
struct OuterPlain {
    pre: RcAnchor<String>,
    #[allow(dead_code)]
    n: NestV,
    post: RcAnchor<String>,
    more: Vec<RcAnchor<String>>,
}
#[derive(Deserialize)]
struct Holder {
    a: RcAnchor<String>,
    #[allow(dead_code)]
    n: NestV,
    b: RcAnchor<String>,
}
#[derive(Deserialize)]
struct OuterAnch {
    head: RcAnchor<Holder>,
    tail: RcAnchor<Holder>,
    again: RcAnchor<String>,
}
#[derive(Deserialize)]
struct OuterWeak {
    pre: RcAnchor<String>,
    #[allow(dead_code)]
    n: NestV,
    w: RcWeakAnchor<String>,
}
#[derive(Deserialize)]
struct OuterArc {
    pre: ArcAnchor<String>,
    #[allow(dead_code)]
    n: NestV,
    post: ArcAnchor<String>,
    w: ArcWeakAnchor<String>,
}
#[derive(Deserialize)]
struct King2 {
    name: String,
    #[allow(dead_code)]
    n: NestV,
    coronator: RcRecursion<King2>,
}
#[derive(Deserialize)]
struct Kingdom2 {
    king: RcRecursive<King2>,
}
#[derive(Deserialize)]
struct KingArc2 {
    name: String,
    #[allow(dead_code)]
    n: NestV,
    coronator: ArcRecursion<KingArc2>,
}
#[derive(Deserialize)]
struct KingdomArc2 {
    king: ArcRecursive<KingArc2>,
}
#[derive(Deserialize)]
struct TupMid(RcAnchor<String>, RcAnchor<String>, #[allow(dead_code)] NestV, RcAnchor<String>, RcAnchor<String>, RcAnchor<String>);
#[derive(Deserialize)]
struct OuterKeyed {
    pre: RcAnchor<String>,
    m: std::collections::BTreeMap<NestKey, RcAnchor<String>>,
    post: RcAnchor<String>,
}
#[derive(Deserialize)]
struct OuterFirst {
    #[allow(dead_code)]
    n: NestV,
    pre: RcAnchor<String>,
    post: RcAnchor<String>,
    more: Vec<RcAnchor<String>>,
}
#[derive(Deserialize)]
struct OuterFirstArc {
    #[allow(dead_code)]
    n: NestV,
    pre: ArcAnchor<String>,
    post: ArcAnchor<String>,
}
#[derive(Deserialize)]
struct OuterFirstU32 {
    #[allow(dead_code)]
    n: NestV,
    pre: RcAnchor<u32>,
    post: RcAnchor<u32>,
}
#[derive(Deserialize)]
struct TupFirst(#[allow(dead_code)] NestV, RcAnchor<String>, RcAnchor<String>, RcAnchor<String>);
#[derive(Deserialize)]
struct KingdomFirst {
    #[allow(dead_code)]
    n: NestV,
    king: RcRecursive<King>,
}
#[derive(Deserialize)]
struct KingdomArcFirst {
    #[allow(dead_code)]
    n: NestV,
    king: ArcRecursive<KingArc>,
}
#[derive(Deserialize)]
struct OuterNoNest {
    pre: RcAnchor<String>,
    post: RcAnchor<String>,
    more: Vec<RcAnchor<String>>,
}
impl_tgt!(OuterPlain, OuterAnch, OuterWeak, OuterArc, Kingdom2, KingdomArc2, TupMid, OuterKeyed, OuterFirst, OuterFirstArc, OuterFirstU32, TupFirst, KingdomFirst, KingdomArcFirst);

/// The outer document of a nested call; `sc` is the scalar that makes the nested calls happen.
fn nest_doc(k: usize, sc: &str) -> String {
    match k {
        0 => format!("pre: &a pv\nn: \"{sc}\"\npost: *a\nmore: [&b q, *b, *a, r]\n"),
        1 => format!("head: &h\n  a: &a pv\n  n: \"{sc}\"\n  b: *a\ntail: *h\nagain: *a\n"),
        2 => format!("pre: &a pv\nn: \"{sc}\"\nw: *a\n"),
        3 => format!("pre: &a pv\nn: \"{sc}\"\npost: *a\nw: *a\n"),
        4 | 5 => format!("king: &root\n  name: Aurelian\n  n: \"{sc}\"\n  coronator: *root\n"),
        6 => format!("[&a pv, *a, \"{sc}\", *a, &b q, *b]\n"),
        7 => format!("pre: &a pv\nm:\n  \"{sc}\": *a\n  zz: &b q\npost: *b\n"),
        8 => format!("n: \"{sc}\"\npre: &a outer-value\npost: *a\nmore: [&b q, *b, *a, r]\n"),
        9 => format!("n: \"{sc}\"\npre: &a outer-value\npost: *a\n"),
        10 => format!("n: \"{sc}\"\npre: &a 41\npost: *a\n"),
        11 => format!("[\"{sc}\", &a outer-value, *a, r]\n"),
        12 | 13 => format!("n: \"{sc}\"\nking: &root\n  name: Outer\n  coronator: *root\n"),
        _ => "pre: &a outer-value\npost: *a\nmore: [&b q, *b, *a, r]\n".to_string(),
    }
}

fn rc_u32_out(all: &[&RcAnchor<u32>]) -> Value {
    let cls = classes(all.iter().map(|a| Rc::as_ptr(&a.0) as usize));
    json!({
        "values": all.iter().map(|a| *a.0).collect::<Vec<u32>>(),
        "strong": strong_per_class(&cls, all.iter().map(|a| Rc::strong_count(&a.0))),
        "classes": cls,
    })
}

fn arc_strs_out(all: &[&ArcAnchor<String>], weak: Option<&ArcWeakAnchor<String>>) -> Value {
    let strong: Vec<usize> = all.iter().map(|a| Arc::strong_count(&a.0)).collect();
    let up = weak.map(|w| w.upgrade());
    let mut values: Vec<String> = all.iter().map(|a| (*a.0).clone()).collect();
    let mut ptrs: Vec<usize> = all.iter().map(|a| Arc::as_ptr(&a.0) as usize).collect();
    if let Some(up) = &up {
        values.push(up.as_ref().map(|r| (**r).clone()).unwrap_or_else(|| "<dangling>".into()));
        ptrs.push(up.as_ref().map(|r| Arc::as_ptr(r) as usize).unwrap_or(0));
    }
    json!({"values": values, "strong_counts": strong, "classes": classes(ptrs)})
}

fn ok_or_err(r: Result<Value, Error>) -> Value {
    match r {
        Ok(v) => json!({"ok": v}),
        Err(e) => err_json(&e),
    }
}

fn run_outer(k: usize, e: usize, sc: &str, doc: &str) -> Value {
    match k {
        0 => ok_or_err(parse_via::<OuterPlain>(e, doc).map(|d| strs_out(std::iter::once(&d.pre).chain(std::iter::once(&d.post)).chain(d.more.iter())))),
        1 => ok_or_err(parse_via::<OuterAnch>(e, doc).map(|d| {
            let mut o = strs_out([&d.head.a, &d.head.b, &d.tail.a, &d.tail.b, &d.again]);
            o["classes_holder"] = json!(classes([Rc::as_ptr(&d.head.0) as usize, Rc::as_ptr(&d.tail.0) as usize]));
            o["strong_holder"] = json!(Rc::strong_count(&d.head.0));
            o
        })),
        2 => ok_or_err(parse_via::<OuterWeak>(e, doc).map(|d| {
            let strong = Rc::strong_count(&d.pre.0);
            let up = d.w.upgrade();
            json!({
                "values": [(*d.pre.0).clone(), up.as_ref().map(|r| (**r).clone()).unwrap_or_else(|| "<dangling>".into())],
                "strong_counts": [strong],
                "classes": classes([Rc::as_ptr(&d.pre.0) as usize, up.as_ref().map(|r| Rc::as_ptr(r) as usize).unwrap_or(0)]),
            })
        })),
        3 => ok_or_err(parse_via::<OuterArc>(e, doc).map(|d| arc_strs_out(&[&d.pre, &d.post], Some(&d.w)))),
        4 => ok_or_err(parse_via::<Kingdom2>(e, doc).map(|d| {
            let strong = Rc::strong_count(&d.king.0);
            let king = d.king.borrow();
            let cor = king.coronator.upgrade();
            json!({
                "values": [king.name.clone(), cor.as_ref().map(|c| c.borrow().name.clone()).unwrap_or_else(|| "<dangling>".into())],
                "strong_counts": [strong],
                "classes": classes([Rc::as_ptr(&d.king.0) as usize, cor.as_ref().map(|c| Rc::as_ptr(&c.0) as usize).unwrap_or(0)]),
            })
        })),
        5 => ok_or_err(parse_via::<KingdomArc2>(e, doc).map(|d| {
            let strong = Arc::strong_count(&d.king.0);
            let name = d.king.lock().unwrap().as_ref().map(|k| k.name.clone());
            let cor = d.king.lock().unwrap().as_ref().and_then(|k| k.coronator.upgrade());
            let cname = cor.as_ref().and_then(|c| c.lock().unwrap().as_ref().map(|k| k.name.clone()));
            json!({
                "values": [name, cname],
                "strong_counts": [strong],
                "classes": classes([Arc::as_ptr(&d.king.0) as usize, cor.as_ref().map(|c| Arc::as_ptr(&c.0) as usize).unwrap_or(0)]),
            })
        })),
        6 => ok_or_err(parse_via::<TupMid>(e, doc).map(|d| strs_out([&d.0, &d.1, &d.3, &d.4, &d.5]))),
        7 => ok_or_err(parse_via::<OuterKeyed>(e, doc).map(|d| {
            let mut o = strs_out(std::iter::once(&d.pre).chain(d.m.values()).chain(std::iter::once(&d.post)));
            o["keys"] = json!(d.m.len());
            o
        })),
        8 => ok_or_err(parse_via::<OuterFirst>(e, doc).map(|d| strs_out(std::iter::once(&d.pre).chain(std::iter::once(&d.post)).chain(d.more.iter())))),
        9 => ok_or_err(parse_via::<OuterFirstArc>(e, doc).map(|d| arc_strs_out(&[&d.pre, &d.post], None))),
        10 => ok_or_err(parse_via::<OuterFirstU32>(e, doc).map(|d| rc_u32_out(&[&d.pre, &d.post]))),
        11 => ok_or_err(parse_via::<TupFirst>(e, doc).map(|d| strs_out([&d.1, &d.2, &d.3]))),
        12 => ok_or_err(parse_via::<KingdomFirst>(e, doc).map(|d| {
            let strong = Rc::strong_count(&d.king.0);
            let king = d.king.borrow();
            let cor = king.coronator.upgrade();
            json!({
                "values": [king.name.clone(), cor.as_ref().map(|c| c.borrow().name.clone()).unwrap_or_else(|| "<dangling>".into())],
                "strong_counts": [strong],
                "classes": classes([Rc::as_ptr(&d.king.0) as usize, cor.as_ref().map(|c| Rc::as_ptr(&c.0) as usize).unwrap_or(0)]),
            })
        })),
        13 => ok_or_err(parse_via::<KingdomArcFirst>(e, doc).map(|d| king_arc_out(&d.king))),
        _ => {
            // the closure of with_deserializer_* performs the nested calls, then deserializes
            let f = |de: serde_saphyr::Deserializer<'_, '_>| -> Result<OuterNoNest, Error> {
                finish_nested::<Error>(perform_nested(sc))?;
                OuterNoNest::deserialize(de)
            };
            let r = match e % 3 {
                0 => serde_saphyr::with_deserializer_from_str(doc, f),
                1 => serde_saphyr::with_deserializer_from_slice(doc.as_bytes(), f),
                _ => serde_saphyr::with_deserializer_from_reader(doc.as_bytes(), f),
            };
            ok_or_err(r.map(|d| strs_out(std::iter::once(&d.pre).chain(std::iter::once(&d.post)).chain(d.more.iter()))))
        }
    }
}

fn king_arc_out(k: &ArcRecursive<KingArc>) -> Value {
    let strong = Arc::strong_count(&k.0);
    let name = k.lock().unwrap().as_ref().map(|k| k.name.clone());
    let cor = k.lock().unwrap().as_ref().and_then(|k| k.coronator.upgrade());
    let cname = cor.as_ref().and_then(|c| c.lock().unwrap().as_ref().map(|k| k.name.clone()));
    json!({
        "values": [name, cname],
        "strong_counts": [strong],
        "classes": classes([Arc::as_ptr(&k.0) as usize, cor.as_ref().map(|c| Arc::as_ptr(&c.0) as usize).unwrap_or(0)]),
    })
}

fn run_nest(k: usize, e: usize, m: usize, inner: &[Call]) -> Value {
    let saved = INNER_LOG.with(|l| std::mem::take(&mut *l.borrow_mut()));
    let sc = nest_scalar(m, inner);
    let doc = nest_doc(k, &sc);
    let res = vcore::obs::catch(|| run_outer(k, e, &sc, &doc));
    let mine = INNER_LOG.with(|l| std::mem::replace(&mut *l.borrow_mut(), saved));
    match res {
        Ok(outer) => json!({"outer": outer, "inner": mine}),
        // the harness' own nested type asked for it: the panic went through the outer call
        Err(p) if p.starts_with(NEST_PANIC) => json!({"outer": {"panic": NEST_PANIC}, "inner": mine}),
        Err(p) => json!({"lib_panic": p}),
    }
}

// ------------------------------------------------------------------ the table of base calls

struct BaseCall {
    name: String,
    /// member of the core alphabet (exhaustive histories)
    core: bool,
    /// abandons an iterator half-way
    abandons: bool,
    f: Box<dyn Fn() -> Value + Send + Sync>,
}

const STREAM: &str = "- &a x\n- *a\n- u\n---\n- &a y\n- *a\n- &b z\n- *b\n---\n- &c [broken\n";

#[allow(deprecated)]
fn budget_call(max_nodes: Option<usize>, replay_limit: Option<usize>, doc: &'static str) -> Value {
    let rep: Rc<RefCell<Vec<String>>> = Rc::new(RefCell::new(Vec::new()));
    let r2 = rep.clone();
    let mut o = Options::default().with_budget_report(move |r| r2.borrow_mut().push(format!("{r:?}")));
    if let Some(n) = max_nodes {
        o.budget = Some(Budget { max_nodes: n, ..Budget::default() });
    }
    if let Some(n) = replay_limit {
        o.alias_limits.max_total_replayed_events = n;
    }
    let r = serde_saphyr::from_str_with_options::<Vec<RcAnchor<Vec<String>>>>(doc, o);
    let mut out = match r {
        Ok(v) => {
            let cls = classes(v.iter().map(|a| Rc::as_ptr(&a.0) as usize));
            json!({"ok": {
                "values": v.iter().map(|a| (*a.0).clone()).collect::<Vec<_>>(),
                "strong": strong_per_class(&cls, v.iter().map(|a| Rc::strong_count(&a.0))),
                "classes": cls,
            }})
        }
        Err(e) => err_json(&e),
    };
    out["report"] = json!(rep.borrow().clone());
    out
}

const BUDGET_DOC: &str = "- &a [p, q, r]\n- *a\n- &b [s]\n- *b\n- *a\n";

const PANIC_DOC: &str = "first: &a x\nitems: [*a, &b y]\nboom: &c {k: v, k2: v2}\n";

fn ser_out(r: Result<String, serde_saphyr::ser::Error>) -> Value {
    match r {
        Ok(s) => json!({"ok": {"text": s}}),
        Err(e) => json!({"err": {"kind": "ser", "loc": null, "msg": e.to_string()}}),
    }
}

const STREAMS: [&str; 3] = [
    STREAM,
    "- &a p\n- *a\n---\n- &a q\n- &b r\n- *b\n- *a\n---\n- &c s\n- *c\n- t\n",
    "- &a [p]\n- *a\n---\n- &a [p, q, r]\n- *a\n- *a\n- [s, t]\n---\n- &a [u]\n- *a\n",
];

fn open_stream(st: usize) -> (HeldIter, *mut &'static [u8]) {
    let rd: *mut &'static [u8] = Box::into_raw(Box::new(STREAMS[st].as_bytes()));
    // SAFETY: freed by `Held::drop` after the iterator that borrows it
    let r: &'static mut &'static [u8] = unsafe { &mut *rd };
    let it: HeldIter = match st {
        0 => Box::new(serde_saphyr::read::<_, Vec<RcAnchor<String>>>(r).map(vec_out)),
        1 => Box::new(serde_saphyr::read::<_, Vec<ArcAnchor<String>>>(r).map(|x| match x {
            Ok(v) => {
                let refs: Vec<&ArcAnchor<String>> = v.iter().collect();
                json!({"ok": arc_strs_out(&refs, None)})
            }
            Err(e) => err_json(&e),
        })),
        _ => {
            // per-document budget with a report callback: counters must restart per document
            let rep: Rc<RefCell<Vec<String>>> = Rc::new(RefCell::new(Vec::new()));
            let r2 = rep.clone();
            #[allow(deprecated)]
            let o = {
                let mut o = Options::default().with_budget_report(move |r| r2.borrow_mut().push(format!("{r:?}")));
                o.budget = Some(Budget { max_nodes: 9, ..Budget::default() });
                o
            };
            Box::new(serde_saphyr::read_with_options::<_, Vec<RcAnchor<Vec<String>>>>(r, o).map(move |x| {
                let mut out = match x {
                    Ok(v) => {
                        let cls = classes(v.iter().map(|a| Rc::as_ptr(&a.0) as usize));
                        json!({"ok": {
                            "values": v.iter().map(|a| (*a.0).clone()).collect::<Vec<_>>(),
                            "strong": strong_per_class(&cls, v.iter().map(|a| Rc::strong_count(&a.0))),
                            "classes": cls,
                        }})
                    }
                    Err(e) => err_json(&e),
                };
                out["reports_so_far"] = json!(rep.borrow().clone());
                out
            }))
        }
    };
    (it, rd)
}

fn iter_item(st: usize, j: usize) -> Value {
    let held = HELD.with(|h| h.borrow_mut()[st].take());
    let mut held = match held {
        Some(h) if h.pos == j => h,
        other => {
            drop(other); // abandoned half-way
            let (mut it, rd) = open_stream(st);
            for _ in 0..j {
                let _ = it.next();
            }
            Held { pos: j, it: Some(it), rd }
        }
    };
    let v = held.it.as_mut().and_then(|it| it.next());
    held.pos = j + 1;
    HELD.with(|h| h.borrow_mut()[st] = Some(held));
    json!({"item": v})
}

#[allow(deprecated)]
fn budget_multi_call() -> Value {
    let rep: Rc<RefCell<Vec<String>>> = Rc::new(RefCell::new(Vec::new()));
    let r2 = rep.clone();
    let mut o = Options::default().with_budget_report(move |r| r2.borrow_mut().push(format!("{r:?}")));
    o.budget = Some(Budget { max_nodes: 12, ..Budget::default() });
    let r = serde_saphyr::from_multiple_with_options::<Vec<RcAnchor<Vec<String>>>>(STREAMS[2], o);
    let mut out = match r {
        Ok(docs) => json!({"ok": {"docs": docs.len()}}),
        Err(e) => err_json(&e),
    };
    out["report"] = json!(rep.borrow().clone());
    out
}

fn build_table() -> Vec<BaseCall> {
    let mut t: Vec<BaseCall> = Vec::new();
    let mut add = |name: &str, core: bool, abandons: bool, f: Box<dyn Fn() -> Value + Send + Sync>| {
        t.push(BaseCall { name: name.to_string(), core, abandons, f });
    };
    // 0: successful parse with shared RcAnchors
    add("ok-shared-rc", true, false, Box::new(|| shared_out(serde_saphyr::from_str(SHARED_OK))));
    // 1: Arc strong + weak
    add(
        "ok-shared-arc",
        true,
        false,
        Box::new(|| match serde_saphyr::from_str::<ArcDoc>("strong:\n  - &p {x: 1, y: 2}\n  - *p\n  - {x: 1, y: 2}\nweak: *p\n") {
            Ok(d) => {
                let strong: Vec<usize> = d.strong.iter().map(|a| Arc::strong_count(&a.0)).collect();
                let up = d.weak.upgrade();
                json!({"ok": {
                    "values": d.strong.iter().map(|a| json!([a.0.x, a.0.y])).collect::<Vec<_>>(),
                    "strong_counts": strong,
                    "classes": classes(d.strong.iter().map(|a| Arc::as_ptr(&a.0) as usize).chain(std::iter::once(up.as_ref().map(|u| Arc::as_ptr(u) as usize).unwrap_or(0)))),
                }})
            }
            Err(e) => err_json(&e),
        }),
    );
    // 2: recursive anchors (anchor id 1 is the recursive root)
    add(
        "ok-recursive",
        true,
        false,
        Box::new(|| match serde_saphyr::from_str::<Kingdom>("king: &root\n  name: Aurelian\n  coronator: *root\n") {
            Ok(d) => {
                let king = d.king.borrow();
                let cor = king.coronator.upgrade();
                json!({"ok": {
                    "values": [king.name.clone(), cor.as_ref().map(|c| c.borrow().name.clone()).unwrap_or_else(|| "<dangling>".into())],
                    "strong_counts": [Rc::strong_count(&d.king.0)],
                    "classes": classes([Rc::as_ptr(&d.king.0) as usize, cor.as_ref().map(|c| Rc::as_ptr(&c.0) as usize).unwrap_or(0)]),
                }})
            }
            Err(e) => err_json(&e),
        }),
    );
    // 3: parse failing midway through an anchored node
    add(
        "fail-in-anchored-node",
        true,
        false,
        Box::new(|| match serde_saphyr::from_str::<Vec<RcAnchor<Pt>>>("- &a {x: 1, y: 2}\n- *a\n- &b {x: 3, y: oops}\n- *b\n") {
            Ok(v) => json!({"ok": v.len()}),
            Err(e) => err_json(&e),
        }),
    );
    // 4: failing while an alias is replayed into a stricter type (serde static constructor -> fallback location)
    add(
        "fail-in-alias-replay",
        true,
        false,
        Box::new(|| match serde_saphyr::from_str::<ReplayStrict>("a: &a {x: 1, y: 2}\nb: *a\n") {
            Ok(_) => json!({"ok": "unexpected"}),
            Err(e) => err_json(&e),
        }),
    );
    // 5: failing inside an anchor-wrapper context: weak wrapper on anchor id 1 that no strong wrapper stored
    add(
        "fail-in-weak-ctx",
        true,
        false,
        Box::new(|| match serde_saphyr::from_str::<WeakOnly>("w: &a x\n") {
            Ok(d) => json!({"ok": {"upgraded": d.w.upgrade().map(|r| (*r).clone())}}),
            Err(e) => err_json(&e),
        }),
    );
    // 6: failing inside a recursive wrapper context, after the placeholder was stored
    add(
        "fail-in-recursive-ctx",
        true,
        false,
        Box::new(|| match serde_saphyr::from_str::<KingdomBad>("king: &root\n  name: A\n  coronator: *root\n  age: notnum\n") {
            Ok(_) => json!({"ok": "unexpected"}),
            Err(e) => err_json(&e),
        }),
    );
    // 7: budget breach (with budget report)
    add("budget-breach", true, false, Box::new(|| budget_call(Some(6), None, BUDGET_DOC)));
    // 8: alias replay limit breach
    add("alias-limit-breach", true, false, Box::new(|| budget_call(None, Some(5), BUDGET_DOC)));
    // 9: iterator abandoned after one item
    add(
        "iter-abandoned-after-1",
        true,
        true,
        Box::new(|| {
            let mut rd = STREAM.as_bytes();
            let mut it = serde_saphyr::read::<_, Vec<RcAnchor<String>>>(&mut rd);
            let a = it.next().map(vec_out);
            drop(it);
            json!({"items": [a]})
        }),
    );
    // 10: a Deserialize impl that panics mid-document (caught)
    add(
        "panic-mid-document",
        true,
        false,
        Box::new(|| {
            let r = vcore::obs::catch(|| serde_saphyr::from_str::<PanicDoc>("first: &a x\nitems: [*a, &b y]\nboom: &c {k: v, k2: v2}\n"));
            match r {
                Err(p) => json!({"panic": p.split(" @ ").next().unwrap_or("")}),
                Ok(Ok(_)) => json!({"ok": "unexpected"}),
                Ok(Err(e)) => err_json(&e),
            }
        }),
    );
    // 11: serialisation with anchors
    add(
        "ser-anchors",
        true,
        false,
        Box::new(|| {
            let a = RcAnchor::wrapping("x".to_string());
            let p = ArcAnchor::wrapping(Pt { x: 1, y: 2 });
            let gone = RcAnchor::wrapping("gone".to_string());
            let dangling = RcWeakAnchor::from(&gone);
            drop(gone);
            let d = SerDoc {
                a: a.clone(),
                b: a.clone(),
                list: vec![p.clone(), ArcAnchor::wrapping(Pt { x: 1, y: 2 }), p.clone()],
                w: RcWeakAnchor::from(&a),
                dangling,
                c: RcAnchor::wrapping("x".to_string()),
            };
            match serde_saphyr::to_string(&d) {
                Ok(s) => json!({"ok": {"text": s}}),
                Err(e) => json!({"err": {"kind": "ser", "loc": null, "msg": e.to_string()}}),
            }
        }),
    );
    // 12: probe — serde static constructor with no deserializer activity: location must be None
    add(
        "probe-missing-field",
        true,
        false,
        Box::new(|| match serde_saphyr::from_str::<ProbeMissing>("") {
            Ok(_) => json!({"ok": "unexpected"}),
            Err(e) => err_json(&e),
        }),
    );
    // 13: probe — anchor id 1 re-used with a different value
    add("probe-reuse-id1-value", true, false, Box::new(|| vec_out(serde_saphyr::from_str("- &z other\n- *z\n- &y more\n- z\n"))));
    // 14: probe — anchor id 1 re-used with a different type
    add(
        "probe-reuse-id1-type",
        true,
        false,
        Box::new(|| match serde_saphyr::from_str::<Vec<RcAnchor<u32>>>("- &z 7\n- *z\n- 7\n") {
            Ok(v) => {
                let cls = classes(v.iter().map(|a| Rc::as_ptr(&a.0) as usize));
                json!({"ok": {
                    "values": v.iter().map(|a| *a.0).collect::<Vec<u32>>(),
                    "strong": strong_per_class(&cls, v.iter().map(|a| Rc::strong_count(&a.0))),
                    "classes": cls,
                }})
            }
            Err(e) => err_json(&e),
        }),
    );
    // 15: payload with a Drop counter — how many payloads die during the parse (the value read for
    //     an alias is dropped) and how many when the result is dropped (all of them, if nothing else
    //     keeps an allocation alive)
    add(
        "ok-shared-dropper",
        true,
        false,
        Box::new(|| {
            let before = DROPS.with(|d| d.get());
            match serde_saphyr::from_str::<Vec<RcAnchor<Dropper>>>("- &a dx\n- *a\n- dy\n- &b dz\n- *b\n- *a\n") {
                Ok(v) => {
                    let during = DROPS.with(|d| d.get()) - before;
                    let cls = classes(v.iter().map(|a| Rc::as_ptr(&a.0) as usize));
                    let values: Vec<String> = v.iter().map(|a| a.0.0.clone()).collect();
                    let strong = strong_per_class(&cls, v.iter().map(|a| Rc::strong_count(&a.0)));
                    let mid = DROPS.with(|d| d.get());
                    drop(v);
                    let on_result_drop = DROPS.with(|d| d.get()) - mid;
                    json!({"ok": {"values": values, "strong": strong, "classes": cls, "payloads_dropped_during_parse": during, "payloads_dropped_with_result": on_result_drop}})
                }
                Err(e) => err_json(&e),
            }
        }),
    );
    // ---- non-core (pairs, random histories, nested lists)
    add(
        "ok-shared-arc-string",
        false,
        false,
        Box::new(|| match serde_saphyr::from_str::<Vec<ArcAnchor<String>>>("- &a inner-arc\n- *a\n- other\n") {
            Ok(v) => {
                let cls = classes(v.iter().map(|a| Arc::as_ptr(&a.0) as usize));
                json!({"ok": {
                    "values": v.iter().map(|a| (*a.0).clone()).collect::<Vec<String>>(),
                    "strong": strong_per_class(&cls, v.iter().map(|a| Arc::strong_count(&a.0))),
                    "classes": cls,
                }})
            }
            Err(e) => err_json(&e),
        }),
    );
    add("iter-abandoned-after-2", false, true, {
        Box::new(|| {
            let mut rd = STREAM.as_bytes();
            let mut it = serde_saphyr::read::<_, Vec<RcAnchor<String>>>(&mut rd);
            let a = it.next().map(vec_out);
            let b = it.next().map(vec_out);
            drop(it);
            json!({"items": [a, b]})
        })
    });
    add("iter-to-the-error", false, false, {
        Box::new(|| {
            let mut rd = STREAM.as_bytes();
            let items: Vec<Value> = serde_saphyr::read::<_, Vec<RcAnchor<String>>>(&mut rd).take(6).map(vec_out).collect();
            json!({"items": items})
        })
    });
    add("budget-ok-report", false, false, Box::new(|| budget_call(Some(1000), None, BUDGET_DOC)));
    add(
        "probe-unknown-variant",
        false,
        false,
        Box::new(|| match serde_saphyr::from_str::<ProbeVariant>("") {
            Ok(_) => json!({"ok": "unexpected"}),
            Err(e) => err_json(&e),
        }),
    );
    add(
        "ser-fails-midway",
        false,
        false,
        Box::new(|| {
            let a = RcAnchor::wrapping("x".to_string());
            let d = SerFailDoc { a: a.clone(), b: a, f: FailSer };
            match serde_saphyr::to_string(&d) {
                Ok(s) => json!({"ok": {"text": s}}),
                Err(e) => json!({"err": {"kind": "ser", "loc": null, "msg": e.to_string()}}),
            }
        }),
    );
    add(
        "from-multiple-anchors",
        false,
        false,
        Box::new(|| match serde_saphyr::from_multiple::<Vec<RcAnchor<String>>>("- &a x\n- *a\n---\n- &a y\n- *a\n- &b x\n") {
            Ok(docs) => json!({"ok": strs_out(docs.iter().flatten())}),
            Err(e) => err_json(&e),
        }),
    );
    // realistic variant of the fallback probe: serde's own NonZeroU32 impl raises `invalid_value`
    // after the scalar was consumed, at the root of a one-line document
    add(
        "probe-nonzero-root",
        false,
        false,
        Box::new(|| match serde_saphyr::from_str::<std::num::NonZeroU32>("0") {
            Ok(v) => json!({"ok": v.get()}),
            Err(e) => err_json(&e),
        }),
    );
    // ---- interleaved iterators: item j of stream s, taken from the iterator held open on this
    //      thread if it stands at position j (the calls in between ran while it was alive),
    //      otherwise from a new iterator advanced to position j (the old one is abandoned)
    for st in 0..3usize {
        for j in 0..3usize {
            add(&format!("iter[{st}].item[{j}]"), st == 1 && j == 1, true, Box::new(move || iter_item(st, j)));
        }
    }
    add(
        "ok-shared-arc-recursive",
        false,
        false,
        Box::new(|| match serde_saphyr::from_str::<KingdomArc>("king: &root\n  name: Aurelian\n  coronator: *root\n") {
            Ok(d) => json!({"ok": king_arc_out(&d.king)}),
            Err(e) => err_json(&e),
        }),
    );
    add(
        "ok-weak-rc",
        false,
        false,
        Box::new(|| match serde_saphyr::from_str::<StrongWeak>("strong: &a x\nweak: *a\nagain: *a\n") {
            Ok(d) => {
                let strong = Rc::strong_count(&d.strong.0);
                let up = d.weak.upgrade();
                json!({"ok": {
                    "values": [(*d.strong.0).clone(), up.as_ref().map(|r| (**r).clone()).unwrap_or_else(|| "<dangling>".into()), (*d.again.0).clone()],
                    "strong_counts": [strong],
                    "classes": classes([Rc::as_ptr(&d.strong.0) as usize, up.as_ref().map(|r| Rc::as_ptr(r) as usize).unwrap_or(0), Rc::as_ptr(&d.again.0) as usize]),
                }})
            }
            Err(e) => err_json(&e),
        }),
    );
    // budget over several documents: the second document breaches
    add("budget-breach-multi", false, false, Box::new(budget_multi_call));
    // ---- more serialisation
    add(
        "ser-recursive",
        false,
        false,
        Box::new(|| {
            let k = RcRecursive::wrapping(KingS { name: "Aurelian".into(), coronator: RcRecursion(std::rc::Weak::new()) });
            let back = RcRecursion::from(&k);
            if let Some(inner) = k.0.borrow_mut().as_mut() {
                inner.coronator = back;
            }
            ser_out(serde_saphyr::to_string(&KingdomS { king: k }))
        }),
    );
    add(
        "ser-multiple-shared-across-docs",
        false,
        false,
        Box::new(|| {
            let a = RcAnchor::wrapping("x".to_string());
            let docs = vec![SerPair { a: a.clone(), b: a.clone() }, SerPair { a: a.clone(), b: RcAnchor::wrapping("y".to_string()) }];
            ser_out(serde_saphyr::to_string_multiple(&docs))
        }),
    );
    add(
        "ser-io-writer",
        false,
        false,
        Box::new(|| {
            let a = ArcAnchor::wrapping("x".to_string());
            let d = SerArcPair { a: a.clone(), b: a.clone(), w: ArcWeakAnchor::from(&a) };
            let mut buf: Vec<u8> = Vec::new();
            ser_out(serde_saphyr::to_io_writer(&mut buf, &d).map(|_| String::from_utf8_lossy(&buf).into_owned()))
        }),
    );
    // ---- every entry point x every exit kind (Ok, Err, visitor panic)
    for e in 0..ENTRIES.len() {
        add(
            &format!("panic-shared-rc@{}", ENTRIES[e]),
            false,
            false,
            Box::new(move || match vcore::obs::catch(|| parse_via::<PanicDoc>(e, PANIC_DOC)) {
                Err(p) => json!({"panic": p.split(" @ ").next().unwrap_or("")}),
                Ok(Ok(_)) => json!({"ok": "unexpected"}),
                Ok(Err(e)) => err_json(&e),
            }),
        );
    }
    for e in 1..ENTRIES.len() {
        add(&format!("ok-shared-rc@{}", ENTRIES[e]), false, false, Box::new(move || shared_out(parse_via(e, SHARED_OK))));
    }
    for e in 0..ENTRIES.len() {
        add(&format!("fail-shared-rc@{}", ENTRIES[e]), false, false, Box::new(move || shared_out(parse_via(e, SHARED_FAIL))));
    }
    t
}

fn table() -> &'static Vec<BaseCall> {
    static T: OnceLock<Vec<BaseCall>> = OnceLock::new();
    T.get_or_init(build_table)
}

// ------------------------------------------------------------------ comparison / classification

/// `Run::violation` keeps every (signature, case) key in a set it scans on each report; a defect
/// that shows in 10^5 cases would make that quadratic. Every case is counted, the first
/// `REPORT_CAP` per signature are handed to the run (3 witnesses are kept there anyway).
const REPORT_CAP: u64 = 200;

fn report(run: &Run, signature: &str, case: Value, detail: impl Into<String>) {
    static SEEN: OnceLock<Mutex<HashMap<String, u64>>> = OnceLock::new();
    let n = {
        let mut m = SEEN.get_or_init(|| Mutex::new(HashMap::new())).lock().unwrap();
        let e = m.entry(signature.to_string()).or_insert(0);
        *e += 1;
        *e
    };
    run.count(&format!("cases_by_signature/{signature}"), 1);
    if n <= REPORT_CAP {
        run.violation(signature, case, detail);
    }
}

/// Path of the first difference between two outcomes (deterministic: object keys in sorted order).
fn diff_path(a: &Value, b: &Value) -> Option<String> {
    if a == b {
        return None;
    }
    match (a, b) {
        (Value::Object(x), Value::Object(y)) => {
            let mut keys: Vec<&String> = x.keys().chain(y.keys()).collect();
            keys.sort();
            keys.dedup();
            // report shape differences first (ok vs err vs panic)
            if keys.iter().any(|k| x.contains_key(*k) != y.contains_key(*k)) {
                let mut xs: Vec<&String> = x.keys().filter(|q| !y.contains_key(*q)).collect();
                let mut ys: Vec<&String> = y.keys().filter(|q| !x.contains_key(*q)).collect();
                xs.sort();
                ys.sort();
                return Some(format!(
                    "{}-vs-{}",
                    xs.first().map(|s| s.as_str()).unwrap_or("none"),
                    ys.first().map(|s| s.as_str()).unwrap_or("none")
                ));
            }
            for k in keys {
                if let Some(p) = diff_path(&x[k], &y[k]) {
                    return Some(format!("{k}.{p}"));
                }
            }
            Some("?".into())
        }
        (Value::Array(x), Value::Array(y)) if x.len() == y.len() => {
            for (i, (p, q)) in x.iter().zip(y.iter()).enumerate() {
                if let Some(d) = diff_path(p, q) {
                    // index only for arrays of objects (inner outcomes); scalars: no index in a signature
                    return Some(if p.is_object() || q.is_object() { format!("{i}.{d}") } else { "value".to_string() });
                }
            }
            Some("?".into())
        }
        (Value::Array(_), Value::Array(_)) => Some("length".into()),
        _ => Some("value".into()),
    }
}

/// true iff partition `fine` refines partition `coarse` (both as class-label vectors of equal length).
fn refines(fine: &[u64], coarse: &[u64]) -> bool {
    if fine.len() != coarse.len() {
        return false;
    }
    for i in 0..fine.len() {
        for j in 0..fine.len() {
            if fine[i] == fine[j] && coarse[i] != coarse[j] {
                return false;
            }
        }
    }
    true
}

fn labels(v: &Value) -> Option<Vec<u64>> {
    v.as_array()?.iter().map(|x| x.as_u64()).collect()
}

/// The predicate of the candidate defect "nested parse clears the outer anchor store":
/// with the nested calls' own outcomes equal, the real outer result is what the constant-mode
/// result becomes when entries of the outer call's anchor table are lost — identical values with
/// a strictly finer sharing partition, or an alias-side wrapper that can no longer find the
/// strong anchor defined before the nested call.
fn is_lost_outer_anchor_entries(constant: &Value, real: &Value) -> Option<&'static str> {
    let (c, r) = (&constant["outer"], &real["outer"]);
    if let (Some(co), Some(ro)) = (c.get("ok").and_then(|v| v.as_object()), r.get("ok").and_then(|v| v.as_object())) {
        let mut strict = false;
        if co.len() != ro.len() {
            return None;
        }
        for (k, cv) in co {
            let rv = ro.get(k)?;
            if k.starts_with("strong") {
                continue; // counts follow the partition
            } else if k.starts_with("classes") {
                let (cl, rl) = (labels(cv)?, labels(rv)?);
                if !refines(&rl, &cl) {
                    return None;
                }
                if !refines(&cl, &rl) {
                    strict = true;
                }
            } else if cv != rv {
                return None;
            }
        }
        return if strict { Some("sharing-lost") } else { None };
    }
    if c.get("ok").is_some()
        && let Some(e) = r.get("err")
    {
        let msg = e["msg"].as_str().unwrap_or("");
        if msg.contains("refers to unknown anchor") {
            return Some("weak-unresolved");
        }
        if msg.contains("refers to unknown recursive anchor id") {
            return Some("recursion-unresolved");
        }
        // live_events consults `recursive_anchor_in_progress(id)` for an alias to an anchor that is
        // still open; the nested reset wiped the outer call's in-progress table
        if e["kind"] == "RecursiveReferencesRequireWeakTypes" {
            return Some("recursion-in-progress-lost");
        }
    }
    None
}

fn is_failing(v: &Value) -> bool {
    fn walk(v: &Value) -> bool {
        match v {
            Value::Object(m) => m.contains_key("err") || m.contains_key("panic") || m.contains_key("lib_panic") || m.values().any(walk),
            Value::Array(a) => a.iter().any(walk),
            _ => false,
        }
    }
    walk(v)
}

fn call_interesting(c: &Call) -> bool {
    match c {
        Call::Nest(..) => true,
        Call::Base(i) => table()[*i].abandons || is_failing(&baseline(c)),
    }
}

/// Concrete content of a call for replay files: the outer document of a nested call (the nested
/// list is inside it), the name of the fixed program for a base call.
fn describe(c: &Call) -> Value {
    match c {
        Call::Base(i) => json!(table()[*i].name),
        Call::Nest(k, e, m, inner) => json!({"entry": ENTRIES[*e], "exit": EXITS[*m / 2], "where": WHERES[*m % 2], "outer_doc": nest_doc(*k, &nest_scalar(*m, inner)), "nested": inner.iter().map(describe).collect::<Vec<_>>()}),
    }
}

static HOT_HISTORIES_HELD: std::sync::atomic::AtomicU64 = std::sync::atomic::AtomicU64::new(0);
static HOT_NESTED_EXECS: std::sync::atomic::AtomicU64 = std::sync::atomic::AtomicU64::new(0);
static HOT_NESTED_PAIRS: std::sync::atomic::AtomicU64 = std::sync::atomic::AtomicU64::new(0);
static HOT_NESTED_OUTER_EQUAL: std::sync::atomic::AtomicU64 = std::sync::atomic::AtomicU64::new(0);
static HOT_FRESH_THREADS: std::sync::atomic::AtomicU64 = std::sync::atomic::AtomicU64::new(0);

fn flush_hot_counters(run: &Run) {
    use std::sync::atomic::Ordering::Relaxed;
    run.count("histories_held", HOT_HISTORIES_HELD.load(Relaxed));
    run.count("nested_executions", HOT_NESTED_EXECS.load(Relaxed));
    run.count("nested_pairs", HOT_NESTED_PAIRS.load(Relaxed));
    run.count("nested_pairs_outer_equal", HOT_NESTED_OUTER_EQUAL.load(Relaxed));
    run.count("fresh_threads_spawned", HOT_FRESH_THREADS.load(Relaxed));
}

fn hist_json(h: &[Call]) -> Value {
    json!(h.iter().map(|c| c.enc()).collect::<Vec<_>>())
}

fn hist_names(h: &[Call]) -> Value {
    json!(h.iter().map(|c| c.name()).collect::<Vec<_>>())
}

/// Run one history on a fresh thread and compare every call with its baseline.
fn check_history(run: &Run, h: &[Call], phase: &str) {
    let base: Vec<Value> = h.iter().map(baseline).collect();
    let (outs, nested) = fresh(|| {
        let outs: Vec<Value> = h.iter().map(exec).collect();
        (outs, NESTED_EXECS.with(|n| n.get()))
    });
    run.evals(h.len() as u64);
    if nested > 0 {
        HOT_NESTED_EXECS.fetch_add(nested, std::sync::atomic::Ordering::Relaxed);
    }
    let mut ok = true;
    for (i, (got, exp)) in outs.iter().zip(base.iter()).enumerate() {
        if got != exp {
            ok = false;
            let path = diff_path(exp, got).unwrap_or_default();
            let sig = if got.get("lib_panic").is_some() {
                format!("C15:panic:{}", vcore::obs::panic_site(got["lib_panic"].as_str().unwrap_or("")))
            } else {
                format!("C15:history:{}:{}", h[i].name(), path)
            };
            report(run,
                &sig,
                json!({"phase": phase, "history": hist_json(h), "names": hist_names(h), "index": i, "programs": h.iter().map(describe).collect::<Vec<_>>()}),
                format!("call #{i} ({}) after {:?}: baseline {} | in history {}", h[i].name(), hist_names(&h[..i]), exp, got),
            );
            break;
        }
    }
    if ok {
        HOT_HISTORIES_HELD.fetch_add(1, std::sync::atomic::Ordering::Relaxed);
    }
    if h.len() >= 2 && h.iter().any(call_interesting) {
        let encs: Vec<String> = h.iter().map(|c| c.enc()).collect();
        let parts: Vec<&[u8]> = encs.iter().map(|s| s.as_bytes()).collect();
        run.nontrivial(fnv_parts(&parts));
    }
}

/// Nested transparency: outer call with real nested calls == outer call with constant results,
/// and each nested call's own outcome == its baseline.
fn check_nested(run: &Run, c: &Call) {
    let Call::Nest(_, _, _, inner) = c else { return };
    let constant = fresh(|| {
        CONST_MODE.with(|m| m.set(true));
        exec(c)
    });
    let real = baseline(c);
    run.evals(2);
    HOT_NESTED_PAIRS.fetch_add(1, std::sync::atomic::Ordering::Relaxed);
    let case = || json!({"phase": "nested", "call": c.enc(), "name": c.name(), "inner_names": hist_names(inner), "outer_doc": describe(c)});
    // every nested call's own result must be its fresh-thread result
    if let (Some(ci), Some(ri)) = (constant["inner"].as_array(), real["inner"].as_array()) {
        for (j, (cv, rv)) in ci.iter().zip(ri.iter()).enumerate() {
            if cv != rv {
                let which = if inner.is_empty() { "?".to_string() } else { inner[j % inner.len()].name() };
                let path = diff_path(cv, rv).unwrap_or_default();
                let sig = if rv.get("lib_panic").is_some() {
                    format!("C15:panic:{}", vcore::obs::panic_site(rv["lib_panic"].as_str().unwrap_or("")))
                } else if is_outer_fallback_location_seen(cv, rv) {
                    run.count("nested_call_sees_outer_fallback_location", 1);
                    "C15:nested-call-sees-outer-fallback-location".to_string()
                } else {
                    format!("C15:nested-call-differs:{which}:{path}")
                };
                report(run,
                    &sig,
                    case(),
                    format!("nested call #{j} ({which}) inside {}: on a fresh thread {} | nested {}", c.name(), cv, rv),
                );
                break;
            }
        }
    }
    if !inner.is_empty() {
        run.nontrivial(fnv_parts(&[b"nested", c.enc().as_bytes()]));
    }
    // the outer call's own result must not depend on whether the nested calls really ran
    if constant["outer"] == real["outer"] {
        HOT_NESTED_OUTER_EQUAL.fetch_add(1, std::sync::atomic::Ordering::Relaxed);
        return;
    }
    if let Some(how) = is_lost_outer_anchor_entries(&constant, &real) {
        run.count(&format!("nested_clears_outer_store/{how}"), 1);
        report(run,
            "C15:nested-parse-clears-outer-anchor-store",
            case(),
            format!("[{how}] outer {} with nested calls replaced by their constant results: {} | with the real nested calls: {}", c.name(), constant["outer"], real["outer"]),
        );
    } else if real.get("lib_panic").is_some() {
        report(run,
            &format!("C15:panic:{}", vcore::obs::panic_site(real["lib_panic"].as_str().unwrap_or(""))),
            case(),
            format!("{real}"),
        );
    } else {
        let path = diff_path(&constant["outer"], &real["outer"]).unwrap_or_default();
        let Call::Nest(k, _, _, _) = c else { unreachable!() };
        report(run,
            &format!("C15:nested-outer-differs:{}:{}", NEST_KINDS[*k], path),
            case(),
            format!("outer {} constant-mode {} | real {}", c.name(), constant["outer"], real["outer"]),
        );
    }
}

/// Predicate of the second candidate defect: a nested call's error is the fresh-thread error
/// (same kind) except that it carries a location although the fresh-thread error has none — the
/// location of the *outer* document's current key/element, read from the fallback thread-local.
fn is_outer_fallback_location_seen(fresh_out: &Value, nested_out: &Value) -> bool {
    // descend to the innermost differing nested outcome (nested calls may nest themselves)
    if let (Some(fi), Some(ni)) = (fresh_out.get("inner").and_then(|v| v.as_array()), nested_out.get("inner").and_then(|v| v.as_array()))
        && fi.len() == ni.len()
        && let Some((f, n)) = fi.iter().zip(ni.iter()).find(|(f, n)| f != n)
    {
        return fresh_out["outer"] == nested_out["outer"] && is_outer_fallback_location_seen(f, n);
    }
    match (fresh_out.get("err"), nested_out.get("err")) {
        (Some(f), Some(n)) => f["kind"] == n["kind"] && f["loc"].is_null() && !n["loc"].is_null(),
        _ => false,
    }
}

/// Repetition: the same call on further fresh threads gives the same outcome (hash seeds of
/// std `RandomState` differ per map instance; process-level seeds are covered by child processes).
fn check_repeat(run: &Run, c: &Call, times: usize) {
    let b = baseline(c);
    for _ in 0..times {
        let v = fresh(|| exec(c));
        run.eval();

        if v != b {
            report(run,
                &format!("C15:nondeterministic:{}:{}", c.name(), diff_path(&b, &v).unwrap_or_default()),
                json!({"phase": "repeat", "call": c.enc(), "name": c.name()}),
                format!("same call, fresh threads: {b} | {v}"),
            );
            return;
        }
    }
}

fn observe_outcome(run: &Run, c: &Call, v: &Value) {
    fn kinds(v: &Value, out: &mut Vec<String>) {
        match v {
            Value::Object(m) => {
                if let Some(e) = m.get("err") {
                    out.push(format!("{}@{}", e["kind"].as_str().unwrap_or("?"), e["loc"]));
                }
                if m.contains_key("panic") {
                    out.push("caught-visitor-panic".into());
                }
                if m.contains_key("lib_panic") {
                    out.push("escaped-panic".into());
                }
                m.values().for_each(|x| kinds(x, out));
            }
            Value::Array(a) => a.iter().for_each(|x| kinds(x, out)),
            _ => {}
        }
    }
    let mut ks = Vec::new();
    kinds(v, &mut ks);
    for k in ks {
        run.observe("error_kinds_at_locations", &k);
    }
    run.observe("calls", &c.name());
}

// ------------------------------------------------------------------ documented results

/// (call, values, sharing classes) — see `build_table` for the documents.
const DOCUMENTED: &[(&str, &str, &str)] = &[
    ("ok-shared-rc", r#"["x","x","y","y","plain","x","y"]"#, "[0,0,1,1,2,3,1]"),
    ("ok-shared-arc", "[[1,2],[1,2],[1,2]]", "[0,0,1,0]"),
    ("ok-recursive", r#"["Aurelian","Aurelian"]"#, "[0,0]"),
    ("probe-reuse-id1-value", r#"["other","other","more","z"]"#, "[0,0,1,2]"),
    ("probe-reuse-id1-type", "[7,7,7]", "[0,0,1]"),
    ("from-multiple-anchors", r#"["x","x","y","y","x"]"#, "[0,0,1,1,2]"),
    ("ok-shared-dropper", r#"["dx","dx","dy","dz","dz","dx"]"#, "[0,0,1,2,2,0]"),
    ("ok-shared-arc-string", r#"["inner-arc","inner-arc","other"]"#, "[0,0,1]"),
];

// ------------------------------------------------------------------ call sets

fn idx(name: &str) -> Call {
    Call::Base(table().iter().position(|b| b.name == name).unwrap_or_else(|| panic!("table name {name}")))
}

fn kind(name: &str) -> usize {
    NEST_KINDS.iter().position(|k| *k == name).unwrap_or_else(|| panic!("nest kind {name}"))
}

/// mode index of (exit, where)
fn mode(exit: &str, wh: &str) -> usize {
    EXITS.iter().position(|x| *x == exit).unwrap() * 2 + WHERES.iter().position(|x| *x == wh).unwrap()
}

fn core_calls() -> Vec<Call> {
    let mut v: Vec<Call> = table().iter().enumerate().filter(|(_, b)| b.core).map(|(i, _)| Call::Base(i)).collect();
    // nested members of the core alphabet
    v.push(Call::Nest(kind("plain"), 0, mode("ok", "same-thread"), vec![idx("ok-shared-rc")]));
    v.push(Call::Nest(kind("in-anchored-ctx"), 0, mode("ok", "same-thread"), vec![idx("fail-in-anchored-node")]));
    v.push(Call::Nest(kind("plain"), 0, mode("err", "same-thread"), vec![idx("probe-missing-field")]));
    v.push(Call::Nest(kind("plain"), 0, mode("ok", "same-thread"), vec![idx("panic-mid-document")]));
    v.push(Call::Nest(kind("first-rc"), 0, mode("panic", "same-thread"), vec![idx("ok-shared-rc")]));
    v
}

fn all_base() -> Vec<Call> {
    (0..table().len()).map(Call::Base).collect()
}

fn random_call(rng: &mut Rng, core: &[Call], depth: usize) -> Call {
    let n = table().len();
    if depth < 2 && rng.chance(1, 4) {
        let k = rng.below(NEST_KINDS.len());
        let e = if rng.chance(1, 3) { rng.below(ENTRIES.len()) } else { 0 };
        let m = if rng.chance(1, 2) { 0 } else { rng.below(NEST_MODES) };
        let len = rng.below(4);
        let inner = (0..len).map(|_| random_call(rng, core, depth + 1)).collect();
        Call::Nest(k, e, m, inner)
    } else if rng.chance(1, 2) {
        rng.pick(core).clone()
    } else {
        Call::Base(rng.below(n))
    }
}

// ------------------------------------------------------------------ child process (hash seeds per process)

fn child_calls() -> Vec<Call> {
    let mut v = all_base();
    v.extend(core_calls().into_iter().filter(|c| matches!(c, Call::Nest(..))));
    v
}

fn child_main() -> ! {
    let outs: Vec<Value> = child_calls().iter().map(|c| fresh(|| exec(c))).collect();
    println!("{}", Value::Array(outs));
    std::process::exit(0);
}

fn check_children(run: &Run, n: usize) {
    let exe = match std::env::current_exe() {
        Ok(e) => e,
        Err(_) => {
            run.inconclusive("child process: current_exe unavailable");
            return;
        }
    };
    let calls = child_calls();
    let results: Mutex<Vec<Option<Vec<Value>>>> = Mutex::new(Vec::new());
    par_range(n, |_| {
        let r = vcore::obs::run_child(&exe, &["child-baselines".to_string()], None, None, None, None, 300);
        let parsed = match r {
            Ok(o) if !o.timed_out && o.exit_code == Some(0) => serde_json::from_str::<Value>(o.stdout.trim()).ok().and_then(|v| v.as_array().cloned()),
            _ => None,
        };
        results.lock().unwrap().push(parsed);
    });
    for r in results.into_inner().unwrap() {
        let Some(outs) = r else {
            run.inconclusive("child process did not deliver baselines (timeout / crash / unreadable output)");
            continue;
        };
        if outs.len() != calls.len() {
            run.inconclusive("child process delivered a different number of baselines");
            continue;
        }
        run.count("child_processes", 1);
        for (c, v) in calls.iter().zip(outs.iter()) {
            run.eval();
            let b = baseline(c);
            if &b != v {
                report(run,
                    &format!("C15:nondeterministic-across-processes:{}:{}", c.name(), diff_path(&b, v).unwrap_or_default()),
                    json!({"phase": "repeat", "call": c.enc(), "name": c.name()}),
                    format!("same call in two processes: {b} | {v}"),
                );
            }
        }
    }
}

// ------------------------------------------------------------------ enumeration helpers

/// i-th history of length `len` over an alphabet of `a` symbols (mixed radix).
fn nth_history(alphabet: &[Call], len: usize, mut i: usize) -> Vec<Call> {
    let a = alphabet.len();
    let mut h = Vec::with_capacity(len);
    for _ in 0..len {
        h.push(alphabet[i % a].clone());
        i /= a;
    }
    h
}

fn main() {
    if std::env::args().nth(1).as_deref() == Some("child-baselines") {
        child_main();
    }
    let explore = std::env::args().any(|a| a == "explore");
    let run = Run::from_args("C15");

    if let Some(rep) = run.is_replay() {
        let case = &rep["case"];
        match case["phase"].as_str().unwrap_or("") {
            "nested" => {
                if let Some(c) = parse_list(case["call"].as_str().unwrap_or("")).and_then(|v| v.into_iter().next()) {
                    check_nested(&run, &c);
                }
            }
            "repeat" => {
                if let Some(c) = parse_list(case["call"].as_str().unwrap_or("")).and_then(|v| v.into_iter().next()) {
                    check_repeat(&run, &c, 8);
                    check_children(&run, 2);
                }
            }
            _ => {
                let h: Option<Vec<Call>> = case["history"]
                    .as_array()
                    .map(|a| a.iter().filter_map(|s| parse_list(s.as_str().unwrap_or("")).and_then(|v| v.into_iter().next())).collect());
                if let Some(h) = h {
                    check_history(&run, &h, "replay");
                }
            }
        }
        run.finish(Finish::new("replay"));
    }

    let tier = run.tier;
    let core = core_calls();
    let base = all_base();
    let core_nests: Vec<Call> = core.iter().filter(|c| matches!(c, Call::Nest(..))).cloned().collect();
    let i_ok = idx("ok-shared-rc");
    let i_fail = idx("fail-in-anchored-node");
    let i_arc = idx("ok-shared-arc-string");

    // the full table for pairs / triples: every base call, the nested core calls, and every outer
    // kind through a second entry point
    let mut full: Vec<Call> = base.clone();
    full.extend(core_nests.iter().cloned());
    for k in 0..NEST_KINDS.len() {
        full.push(Call::Nest(k, 0, 0, vec![i_ok.clone()]));
        full.push(Call::Nest(k, 2 + k % 17, mode("ok", "other-thread"), vec![i_arc.clone()]));
    }
    full.sort();
    full.dedup();
    {
        let mut r = registered().lock().unwrap();
        r.extend(core.iter().cloned());
        r.extend(full.iter().cloned());
    }

    // ---- phase 0: baselines, determinism
    for c in full.iter() {
        let b = baseline(c);
        run.eval();
        observe_outcome(&run, c, &b);
        if explore {
            println!("{:52} {}", c.name(), b);
        }
        if b.get("lib_panic").is_some() {
            report(
                &run,
                &format!("C15:panic:{}", vcore::obs::panic_site(b["lib_panic"].as_str().unwrap_or(""))),
                json!({"phase": "history", "history": [c.enc()], "index": 0}),
                format!("{b}"),
            );
        }
    }
    // The differential oracle is blind to a defect that changes baseline and history alike (state
    // carried from one node to the next *within* a call). For the successful parses whose result is
    // pinned by the documentation of the anchor wrappers (an alias shares the allocation of its
    // anchor, anything else is a separate allocation) the baseline itself is checked.
    for (name, values, cls) in DOCUMENTED {
        let c = idx(name);
        let b = baseline(&c);
        let exp_v: Value = serde_json::from_str(values).expect("documented values");
        let exp_c: Value = serde_json::from_str(cls).expect("documented classes");
        run.count("documented_baselines_checked", 1);
        if b["ok"]["values"] != exp_v || b["ok"]["classes"] != exp_c {
            report(
                &run,
                &format!("C15:within-call-state:{name}"),
                json!({"phase": "history", "history": [c.enc()], "names": [name], "index": 0}),
                format!("first call on a fresh thread gave {b}; documented result: values {exp_v} sharing {exp_c}"),
            );
        }
    }
    run.count("table_calls", base.len() as u64);
    run.count("core_alphabet", core.len() as u64);
    run.count("full_table", full.len() as u64);
    par_range(full.len(), |i| check_repeat(&run, &full[i], tier.pick(8, 40)));
    check_children(&run, tier.pick(4, 16));

    // ---- phase 1: nested transparency
    let nested_seq = tier.pick(2, 3); // nested list: every sequence of core calls up to this length
    let n_kinds = NEST_KINDS.len();
    let singles: Vec<Call> = base.iter().chain(core_nests.iter()).cloned().collect();
    // 1a: kind x exit x where x (empty | every single call | every core sequence)
    {
        let mut lists: Vec<Vec<Call>> = vec![vec![]];
        lists.extend(singles.iter().map(|c| vec![c.clone()]));
        for len in 2..=nested_seq {
            for i in 0..core.len().pow(len as u32) {
                lists.push(nth_history(&core, len, i));
            }
        }
        let total = n_kinds * NEST_MODES * lists.len();
        run.count("nested_1a_kind_x_mode_x_list", total as u64);
        par_range(total, |i| {
            let k = i % n_kinds;
            let m = (i / n_kinds) % NEST_MODES;
            let c = Call::Nest(k, 0, m, lists[i / (n_kinds * NEST_MODES)].clone());
            check_nested(&run, &c);
            if explore && i < 400 {
                println!("NEST {:60} {}", c.name(), baseline(&c));
            }
            if i % 20011 == 0 {
                run.sample(|| json!({"nested": c.enc(), "name": c.name(), "outer_doc": describe(&c), "outcome": baseline(&c)}));
            }
        });
    }
    // 1b: kind x entry point x exit x {Ok call, Err call, Arc call} (same thread)
    {
        let inners = [vec![], vec![i_ok.clone()], vec![i_fail.clone()], vec![i_arc.clone(), i_ok.clone()]];
        let total = n_kinds * ENTRIES.len() * EXITS.len() * inners.len();
        run.count("nested_1b_kind_x_entry_x_exit", total as u64);
        par_range(total, |i| {
            let k = i % n_kinds;
            let e = (i / n_kinds) % ENTRIES.len();
            let x = (i / (n_kinds * ENTRIES.len())) % EXITS.len();
            let c = Call::Nest(k, e, x * 2, inners[i / (n_kinds * ENTRIES.len() * EXITS.len())].clone());
            check_nested(&run, &c);
        });
    }
    // 1c: nesting levels: kind in kind (in kind) around every core call
    {
        let levels = tier.pick(2, 3);
        for lv in 2..=levels {
            let total = n_kinds.pow(lv as u32) * core.len();
            run.count(&format!("nested_1c_depth{lv}"), total as u64);
            par_range(total, |i| {
                let mut c = core[i % core.len()].clone();
                let mut r = i / core.len();
                for _ in 0..lv {
                    c = Call::Nest(r % n_kinds, 0, 0, vec![c]);
                    r /= n_kinds;
                }
                check_nested(&run, &c);
            });
        }
    }

    // ---- phase 2: exhaustive histories
    let max_len = tier.pick(4, 5);
    for len in 1..=max_len {
        let total = core.len().pow(len as u32);
        run.count(&format!("exhaustive_histories_len{len}"), total as u64);
        par_range(total, |i| {
            let h = nth_history(&core, len, i);
            check_history(&run, &h, "exhaustive");
            if i % 400_009 == 7 {
                run.sample(|| json!({"history": hist_names(&h)}));
            }
        });
    }
    {
        let total = full.len() * full.len();
        run.count("exhaustive_pairs_full_table", total as u64);
        par_range(total, |i| check_history(&run, &nth_history(&full, 2, i), "pairs"));
    }
    // triples: quick full x core x full, thorough full x full x full
    {
        let mid: &[Call] = tier.pick(&core[..], &full[..]);
        let total = full.len() * mid.len() * full.len();
        run.count("exhaustive_triples", total as u64);
        par_range(total, |i| {
            let a = &full[i % full.len()];
            let m = &mid[(i / full.len()) % mid.len()];
            let b = &full[i / (full.len() * mid.len())];
            check_history(&run, &[a.clone(), m.clone(), b.clone()], "triples");
        });
    }
    // interleaved iterators: every schedule of `next` calls on three streams, and every call of
    // the full table between two items of each stream
    {
        let iters: Vec<Call> = (0..3).flat_map(|s| (0..3).map(move |j| (s, j))).map(|(s, j)| idx(&format!("iter[{s}].item[{j}]"))).collect();
        let sched_len = tier.pick(5, 6);
        for len in 2..=sched_len {
            let total = iters.len().pow(len as u32);
            run.count(&format!("iterator_schedules_len{len}"), total as u64);
            par_range(total, |i| check_history(&run, &nth_history(&iters, len, i), "iterator-schedules"));
        }
        let total = 3 * full.len() * full.len();
        run.count("iterator_held_across_calls", total as u64);
        par_range(total, |i| {
            let s = i % 3;
            let x = &full[(i / 3) % full.len()];
            let y = &full[i / (3 * full.len())];
            let h = [iters[s * 3].clone(), x.clone(), iters[s * 3 + 1].clone(), y.clone(), iters[s * 3 + 2].clone()];
            check_history(&run, &h, "iterator-held");
        });
    }

    // ---- phase 3: random histories up to length 24
    let n_random = tier.pick(150_000, 1_500_000);
    par_range(n_random, |i| {
        let mut rng = Rng::stream(run.seed, i as u64);
        let len = rng.range(2, 24);
        let h: Vec<Call> = (0..len).map(|_| random_call(&mut rng, &core, 0)).collect();
        if i % 64 == 0 {
            run.max("max_random_history_len", h.len() as u64);
            run.max("max_nest_depth", h.iter().map(|c| c.depth()).max().unwrap_or(0) as u64);
        }
        check_history(&run, &h, "random");
        // nested transparency for one of the random nested calls too
        if let Some(c) = h.iter().find(|c| matches!(c, Call::Nest(..))) {
            check_nested(&run, c);
        }
        if i % 50_021 == 0 {
            run.sample(|| json!({"random_history": hist_names(&h)}));
        }
    });
    run.count("random_histories", n_random as u64);
    run.count("calls_with_kept_baseline", baselines().lock().unwrap().len() as u64);
    flush_hot_counters(&run);

    let scope = format!(
        "(1) every history of length <= {max_len} over the core alphabet of {} calls ({} base calls + {} nested calls), each history on its own fresh thread; \
         (2) every ordered pair and every triple a,m,b (a,b over the full table of {} calls: {} base calls incl. {} entry points x {{Ok, Err, visitor panic}}, the nested core calls, every outer kind through two entry points; m over {}); \
         (3) iterators: every schedule of <= {} `next` calls over 3 streams x 3 positions, and item0,x,item1,y,item2 of each stream for every x,y of the full table; \
         (4) nested transparency: {} outer kinds x {} exit kinds (Ok/Err/panic) x {} threads x (empty list | every single call of the table | every sequence of <= {} core calls); {} outer kinds x {} entry points x {} exit kinds x 4 lists; nesting depth <= {} (every kind in every kind around every core call)",
        core.len(),
        core.len() - core_nests.len(),
        core_nests.len(),
        full.len(),
        base.len(),
        ENTRIES.len(),
        tier.pick("the core alphabet", "the full table"),
        tier.pick(5, 6),
        n_kinds,
        EXITS.len(),
        WHERES.len(),
        nested_seq,
        n_kinds,
        ENTRIES.len(),
        EXITS.len(),
        tier.pick(2, 3),
    );
    let fin = Finish::new(
        "exhaustive spaces named in exhaustive_scope + seeded random histories of 2..24 calls (1/4 of the calls nested, depth <= 3, random kind / entry point / exit kind / thread). A history counts as non-trivial when it has >= 2 calls and >= 1 of them fails, nests, panics (caught visitor panic) or abandons an iterator (judged from the call's own baseline outcome); a nested-transparency pair counts when the nested list is non-empty; distinct by hash of the encoded history / nested call",
    )
    .exhaustive(scope)
    .assume("baseline = the call executed as the first and only call on a freshly spawned thread of the same process")
    .assume("outcomes compare values, error kind + line/column + message text, pointer-sharing partitions, strong counts per sharing class, payloads dropped with the result, budget reports, emitted text; never hash-map iteration order or addresses")
    .assume("the constant result substituted for a nested call is that call's own fresh-thread outcome")
    .min_nontrivial(if tier == Tier::Quick { 200_000 } else { 2_000_000 });
    run.finish(fin);
}
