//! C15 — a call's result depends only on its arguments, not on earlier or nested calls.
//!
//! Differential oracle on the real code. An alphabet of calls (each a closed
//! program over the public API returning a canonical outcome: values, error
//! kind + line/column + message, pointer-sharing classes, budget report,
//! emitted text) is executed
//!   * alone on a fresh thread                     -> the call's *baseline*;
//!   * as a member of every history of length <= 3 (quick) / <= 4 (thorough)
//!     over the core alphabet, every pair over the full table, and seeded random
//!     histories up to length 20 — each history on its own fresh thread; every
//!     call's outcome must equal its baseline;
//!   * nested inside another type's `Deserialize` impl: the outer call with the
//!     real nested call(s) must equal the same outer call whose nested calls are
//!     replaced by their constant (baseline) results, and every nested call's own
//!     outcome must equal its baseline;
//!   * repeatedly (fresh threads, and fresh *processes* for the hash seeds).
//! Two probe calls expose leaked thread-local state at the API boundary only:
//! a `Deserialize` impl that immediately returns `Error::missing_field` (its
//! location is `None` on a clean thread, stale otherwise) and `RcAnchor`/weak/
//! recursive parses that re-use anchor id 1 with a different value or type.
//! No "state is empty" probe stricter than the property is used.
//!
//! Signatures: `C15:history:<call>:<path of first difference>` (history dependence),
//! `C15:nested-parse-clears-outer-anchor-store` (outer result is the constant-mode result with
//! anchor-table entries lost: finer sharing partition with equal values, or a weak / recursive
//! alias-side wrapper that no longer finds the anchor defined before the nested call),
//! `C15:nested-call-sees-outer-fallback-location` (nested call's error = fresh-thread error plus
//! a location where the fresh-thread error has none), `C15:nested-call-differs:..`,
//! `C15:nested-outer-differs:..`, `C15:nondeterministic..`, `C15:within-call-state:<call>`
//! (baseline of a successful parse is not the documented value/sharing), `C15:panic:<site>`.
//!
//! Hash-map iteration order is never part of an outcome (all targets are
//! ordered: structs, Vec).

use serde::de::{self, DeserializeOwned, Deserializer, MapAccess, Visitor};
use serde::{Deserialize, Serialize};
use serde_json::{Value, json};
use serde_saphyr::{
    ArcAnchor, ArcWeakAnchor, Budget, Error, Options, RcAnchor, RcRecursion, RcRecursive, RcWeakAnchor,
};
use std::cell::{Cell, RefCell};
use std::collections::HashMap;
use std::fmt;
use std::rc::Rc;
use std::sync::{Arc, Mutex, OnceLock};
use vcore::rng::{Rng, fnv_parts};
use vcore::run::{Finish, Run, Tier, par_range};

// ------------------------------------------------------------------ outcomes

fn err_json(e: &Error) -> Value {
    let msg: String = e.without_snippet().to_string().chars().take(240).collect();
    json!({"err": {
        "kind": vcore::errs::kind(e),
        "loc": vcore::errs::line_col(e).map(|(l, c)| vec![l, c]),
        "msg": msg,
    }})
}

fn classes(ptrs: impl IntoIterator<Item = usize>) -> Vec<usize> {
    let mut seen: Vec<usize> = Vec::new();
    ptrs.into_iter()
        .map(|p| match seen.iter().position(|q| *q == p) {
            Some(i) => i,
            None => {
                seen.push(p);
                seen.len() - 1
            }
        })
        .collect()
}

fn custom_err(msg: &str) -> Error {
    <Error as de::Error>::custom(msg)
}

// ------------------------------------------------------------------ call model

/// A call of the alphabet: a base call of the table, or an outer parse of kind
/// `k` through entry point `e` whose `Deserialize` impl performs the listed
/// calls (nested) in the middle of the outer document.
#[derive(Clone, Debug, PartialEq, Eq, Hash, PartialOrd, Ord)]
enum Call {
    Base(usize),
    Nest(usize, usize, Vec<Call>),
}

impl Call {
    /// Encoding used inside the outer YAML document (double-quoted scalar) and in replay files.
    fn enc(&self) -> String {
        match self {
            Call::Base(i) => i.to_string(),
            Call::Nest(k, e, inner) => format!("N{k}.{e}({})", enc_list(inner)),
        }
    }
    fn name(&self) -> String {
        match self {
            Call::Base(i) => table()[*i].name.clone(),
            Call::Nest(k, e, _) => format!("nest-{}@{}", NEST_KINDS[*k], ENTRIES[*e]),
        }
    }
    fn depth(&self) -> usize {
        match self {
            Call::Base(_) => 0,
            Call::Nest(_, _, v) => 1 + v.iter().map(|c| c.depth()).max().unwrap_or(0),
        }
    }
}

fn enc_list(v: &[Call]) -> String {
    v.iter().map(|c| c.enc()).collect::<Vec<_>>().join(",")
}

fn parse_list(s: &str) -> Option<Vec<Call>> {
    let b = s.as_bytes();
    let mut pos = 0;
    let v = parse_list_at(b, &mut pos)?;
    if pos == b.len() { Some(v) } else { None }
}

fn parse_list_at(b: &[u8], pos: &mut usize) -> Option<Vec<Call>> {
    let mut out = Vec::new();
    if *pos >= b.len() || b[*pos] == b')' {
        return Some(out);
    }
    loop {
        out.push(parse_call_at(b, pos)?);
        if *pos < b.len() && b[*pos] == b',' {
            *pos += 1;
        } else {
            return Some(out);
        }
    }
}

fn parse_num(b: &[u8], pos: &mut usize) -> Option<usize> {
    let st = *pos;
    while *pos < b.len() && b[*pos].is_ascii_digit() {
        *pos += 1;
    }
    std::str::from_utf8(&b[st..*pos]).ok()?.parse().ok()
}

fn parse_call_at(b: &[u8], pos: &mut usize) -> Option<Call> {
    if *pos < b.len() && b[*pos] == b'N' {
        *pos += 1;
        let k = parse_num(b, pos)?;
        if b.get(*pos) != Some(&b'.') {
            return None;
        }
        *pos += 1;
        let e = parse_num(b, pos)?;
        if b.get(*pos) != Some(&b'(') {
            return None;
        }
        *pos += 1;
        let inner = parse_list_at(b, pos)?;
        if b.get(*pos) != Some(&b')') {
            return None;
        }
        *pos += 1;
        if k >= NEST_KINDS.len() || e >= ENTRIES.len() {
            return None;
        }
        Some(Call::Nest(k, e, inner))
    } else {
        let i = parse_num(b, pos)?;
        if i >= table().len() {
            return None;
        }
        Some(Call::Base(i))
    }
}

thread_local! {
    /// true: nested calls are replaced by their constant (baseline) results.
    static CONST_MODE: Cell<bool> = const { Cell::new(false) };
    /// outcomes of the nested calls performed by the innermost running outer call
    static INNER_LOG: RefCell<Vec<Value>> = const { RefCell::new(Vec::new()) };
    /// iterator kept alive across the following calls of a history (harness state only)
    static HELD_ITER: RefCell<Option<HeldIter>> = const { RefCell::new(None) };
    /// payloads of type `Dropper` dropped on this thread
    static DROPS: Cell<u64> = const { Cell::new(0) };
    /// number of real nested executions on this thread (evidence)
    static NESTED_EXECS: Cell<u64> = const { Cell::new(0) };
}

type HeldIter = Box<dyn Iterator<Item = Result<Vec<RcAnchor<String>>, Error>>>;

fn baselines() -> &'static Mutex<HashMap<Call, Value>> {
    static B: OnceLock<Mutex<HashMap<Call, Value>>> = OnceLock::new();
    B.get_or_init(|| Mutex::new(HashMap::new()))
}

/// Run `f` on a brand-new thread (clean thread-locals of the library and of the harness).
fn fresh<T: Send>(f: impl FnOnce() -> T + Send) -> T {
    std::thread::scope(|s| {
        std::thread::Builder::new()
            .stack_size(32 << 20)
            .spawn_scoped(s, f)
            .expect("spawn fresh thread")
            .join()
            .expect("fresh thread must not die (panics are caught inside exec)")
    })
}

/// Baseline of a call: its outcome as the first and only call on a fresh thread (real mode).
fn baseline(c: &Call) -> Value {
    if let Some(v) = baselines().lock().unwrap().get(c) {
        return v.clone();
    }
    let v = fresh(|| exec(c));
    baselines().lock().unwrap().entry(c.clone()).or_insert(v).clone()
}

/// Execute one call; a panic that escapes the call is an outcome of its own.
fn exec(c: &Call) -> Value {
    match vcore::obs::catch(|| match c {
        Call::Base(i) => (table()[*i].f)(),
        Call::Nest(k, e, inner) => run_nest(*k, *e, inner),
    }) {
        Ok(v) => v,
        Err(p) => json!({"lib_panic": p}),
    }
}

// ------------------------------------------------------------------ entry points

const ENTRIES: &[&str] = &[
    "from_str",
    "from_slice",
    "from_reader",
    "from_multiple",
    "from_slice_multiple",
    "read",
    "with_deserializer_from_str",
    "with_deserializer_from_slice",
    "with_deserializer_from_reader",
    "from_str_valid",
    "from_slice_valid",
    "from_reader_valid",
    "from_multiple_valid",
    "read_valid",
    "from_str_validate",
    "from_slice_validate",
    "from_reader_validate",
    "from_multiple_validate",
    "read_validate",
];

trait Tgt: DeserializeOwned + garde::Validate<Context = ()> + validator::Validate {}

macro_rules! impl_tgt {
    ($($t:ty),*) => {$(
        impl garde::Validate for $t {
            type Context = ();
            fn validate_into(&self, _: &(), _: &mut dyn FnMut() -> garde::Path, _: &mut garde::Report) {}
        }
        impl validator::Validate for $t {
            fn validate(&self) -> Result<(), validator::ValidationErrors> { Ok(()) }
        }
        impl Tgt for $t {}
    )*};
}

fn parse_via<T: Tgt>(e: usize, doc: &str) -> Result<T, Error> {
    fn one<T>(r: Result<Vec<T>, Error>) -> Result<T, Error> {
        r.and_then(|v| v.into_iter().next().ok_or_else(|| custom_err("harness: stream had no document")))
    }
    fn first<T>(mut it: impl Iterator<Item = Result<T, Error>>) -> Result<T, Error> {
        // iterator dropped right after the first item
        it.next().unwrap_or_else(|| Err(custom_err("harness: iterator had no item")))
    }
    let bytes = doc.as_bytes();
    match e {
        0 => serde_saphyr::from_str(doc),
        1 => serde_saphyr::from_slice(bytes),
        2 => serde_saphyr::from_reader(bytes),
        3 => one(serde_saphyr::from_multiple(doc)),
        4 => one(serde_saphyr::from_slice_multiple(bytes)),
        5 => {
            let mut rd = bytes;
            first(serde_saphyr::read::<_, T>(&mut rd))
        }
        6 => serde_saphyr::with_deserializer_from_str(doc, |de| T::deserialize(de)),
        7 => serde_saphyr::with_deserializer_from_slice(bytes, |de| T::deserialize(de)),
        8 => serde_saphyr::with_deserializer_from_reader(bytes, |de| T::deserialize(de)),
        9 => serde_saphyr::from_str_valid(doc),
        10 => serde_saphyr::from_slice_valid(bytes),
        11 => serde_saphyr::from_reader_valid(bytes),
        12 => one(serde_saphyr::from_multiple_valid(doc)),
        13 => {
            let mut rd = bytes;
            first(serde_saphyr::read_valid::<_, T>(&mut rd))
        }
        14 => serde_saphyr::from_str_validate(doc),
        15 => serde_saphyr::from_slice_validate(bytes),
        16 => serde_saphyr::from_reader_validate(bytes),
        17 => one(serde_saphyr::from_multiple_validate(doc)),
        18 => {
            let mut rd = bytes;
            first(serde_saphyr::read_validate::<_, T>(&mut rd))
        }
        _ => Err(custom_err("harness: unknown entry point")),
    }
}

// ------------------------------------------------------------------ target types

#[derive(Deserialize, Serialize, Debug, Clone, PartialEq)]
struct Pt {
    x: i32,
    y: i32,
}

#[derive(Deserialize, Debug)]
#[allow(dead_code)]
struct Pt3 {
    x: i32,
    y: i32,
    z: i32,
}

#[derive(Deserialize)]
struct SharedDoc {
    first: RcAnchor<String>,
    items: Vec<RcAnchor<String>>,
    tail: RcAnchor<String>,
}
impl_tgt!(SharedDoc);

const SHARED_OK: &str = "first: &a x\nitems: [*a, &b y, *b, plain, &c x]\ntail: *b\n";
/// fails inside an anchored node (a sequence where `RcAnchor<String>` expects a scalar), after
/// two anchors were stored and one alias was served
const SHARED_FAIL: &str = "first: &a x\nitems: [*a, &b y, *b, &c [1, 2]]\ntail: *b\n";

/// Strong count of each sharing class (taken at its first member) while the whole result is
/// alive: an allocation that something outside the result still owns shows a larger count.
fn strong_per_class(cls: &[usize], counts: impl IntoIterator<Item = usize>) -> Vec<usize> {
    let mut out: Vec<usize> = Vec::new();
    for (c, n) in cls.iter().zip(counts) {
        if *c == out.len() {
            out.push(n);
        }
    }
    out
}

fn strs_out<'a>(all: impl IntoIterator<Item = &'a RcAnchor<String>>) -> Value {
    let all: Vec<&RcAnchor<String>> = all.into_iter().collect();
    let cls = classes(all.iter().map(|a| Rc::as_ptr(&a.0) as usize));
    json!({
        "values": all.iter().map(|a| (*a.0).clone()).collect::<Vec<String>>(),
        "strong": strong_per_class(&cls, all.iter().map(|a| Rc::strong_count(&a.0))),
        "classes": cls,
    })
}

fn shared_out(r: Result<SharedDoc, Error>) -> Value {
    match r {
        Ok(d) => json!({"ok": strs_out(std::iter::once(&d.first).chain(d.items.iter()).chain(std::iter::once(&d.tail)))}),
        Err(e) => err_json(&e),
    }
}

fn vec_out(r: Result<Vec<RcAnchor<String>>, Error>) -> Value {
    match r {
        Ok(v) => json!({"ok": strs_out(v.iter())}),
        Err(e) => err_json(&e),
    }
}

// --- Arc
#[derive(Deserialize)]
struct ArcDoc {
    strong: Vec<ArcAnchor<Pt>>,
    weak: ArcWeakAnchor<Pt>,
}

// --- weak probe
#[derive(Deserialize)]
#[allow(dead_code)]
struct WeakOnly {
    w: RcWeakAnchor<String>,
}

// --- alias replayed into a stricter type
#[derive(Deserialize)]
#[allow(dead_code)]
struct ReplayStrict {
    a: RcAnchor<Pt>,
    b: Pt3,
}

// --- recursive
#[derive(Deserialize)]
struct King {
    name: String,
    coronator: RcRecursion<King>,
}
#[derive(Deserialize)]
struct Kingdom {
    king: RcRecursive<King>,
}
#[derive(Deserialize)]
#[allow(dead_code)]
struct KingBad {
    name: String,
    coronator: RcRecursion<KingBad>,
    age: u32,
}
#[derive(Deserialize)]
#[allow(dead_code)]
struct KingdomBad {
    king: RcRecursive<KingBad>,
}

// --- probes for the fallback location
struct ProbeMissing;
impl<'de> Deserialize<'de> for ProbeMissing {
    fn deserialize<D: Deserializer<'de>>(_d: D) -> Result<Self, D::Error> {
        Err(<D::Error as de::Error>::missing_field("probe"))
    }
}
struct ProbeVariant;
impl<'de> Deserialize<'de> for ProbeVariant {
    fn deserialize<D: Deserializer<'de>>(_d: D) -> Result<Self, D::Error> {
        Err(<D::Error as de::Error>::unknown_variant("probe", &["a", "b"]))
    }
}

// --- a Deserialize impl that panics in the middle of a document: inside an
//     anchored node, inside an RcAnchor wrapper context, after one map key was read
struct BoomMap;
impl<'de> Deserialize<'de> for BoomMap {
    fn deserialize<D: Deserializer<'de>>(d: D) -> Result<Self, D::Error> {
        struct V;
        impl<'de> Visitor<'de> for V {
            type Value = BoomMap;
            fn expecting(&self, f: &mut fmt::Formatter) -> fmt::Result {
                f.write_str("a map")
            }
            fn visit_map<A: MapAccess<'de>>(self, mut m: A) -> Result<BoomMap, A::Error> {
                let _k: Option<String> = m.next_key()?;
                panic!("c15 visitor boom");
            }
        }
        d.deserialize_map(V)
    }
}
#[derive(Deserialize)]
#[allow(dead_code)]
struct PanicDoc {
    first: RcAnchor<String>,
    items: Vec<RcAnchor<String>>,
    boom: RcAnchor<BoomMap>,
}

// --- payload with a Drop counter
struct Dropper(String);
impl<'de> Deserialize<'de> for Dropper {
    fn deserialize<D: Deserializer<'de>>(d: D) -> Result<Self, D::Error> {
        String::deserialize(d).map(Dropper)
    }
}
impl Drop for Dropper {
    fn drop(&mut self) {
        let _ = DROPS.try_with(|d| d.set(d.get() + 1));
    }
}

// --- serialisation
#[derive(Serialize)]
struct SerDoc {
    a: RcAnchor<String>,
    b: RcAnchor<String>,
    list: Vec<ArcAnchor<Pt>>,
    w: RcWeakAnchor<String>,
    dangling: RcWeakAnchor<String>,
    c: RcAnchor<String>,
}
struct FailSer;
impl Serialize for FailSer {
    fn serialize<S: serde::Serializer>(&self, _s: S) -> Result<S::Ok, S::Error> {
        Err(<S::Error as serde::ser::Error>::custom("c15 ser boom"))
    }
}
#[derive(Serialize)]
struct SerFailDoc {
    a: RcAnchor<String>,
    b: RcAnchor<String>,
    f: FailSer,
}

// ------------------------------------------------------------------ nested calls

/// Performs the calls listed in its scalar (nested, in the middle of the outer document).
struct NestV;
impl<'de> Deserialize<'de> for NestV {
    fn deserialize<D: Deserializer<'de>>(d: D) -> Result<Self, D::Error> {
        let s = String::deserialize(d)?;
        let calls = parse_list(&s).ok_or_else(|| <D::Error as de::Error>::custom("harness: bad nest list"))?;
        let constant = CONST_MODE.with(|c| c.get());
        for c in &calls {
            let v = if constant {
                baseline(c)
            } else {
                NESTED_EXECS.with(|n| n.set(n.get() + 1));
                exec(c)
            };
            INNER_LOG.with(|l| l.borrow_mut().push(v));
        }
        Ok(NestV)
    }
}
/// Same, then fails with a serde static constructor (location comes from the fallback thread-local).
struct NestFail;
impl<'de> Deserialize<'de> for NestFail {
    fn deserialize<D: Deserializer<'de>>(d: D) -> Result<Self, D::Error> {
        NestV::deserialize(d)?;
        Err(<D::Error as de::Error>::missing_field("after_nest"))
    }
}

const NEST_KINDS: &[&str] = &[
    "plain",
    "in-anchored-ctx",
    "then-fail",
    "weak-after",
    "arc",
    "recursive",
    "in-seq-of-anchors",
    // the nested calls come FIRST: before the outer document stored any anchor, outside any wrapper
    "first-rc",
    "first-arc",
    "first-rc-u32",
    "first-in-seq",
    "first-recursive",
];

#[derive(Deserialize)]
struct OuterFirst {
    #[allow(dead_code)]
    n: NestV,
    pre: RcAnchor<String>,
    post: RcAnchor<String>,
    more: Vec<RcAnchor<String>>,
}
#[derive(Deserialize)]
struct OuterFirstArc {
    #[allow(dead_code)]
    n: NestV,
    pre: ArcAnchor<String>,
    post: ArcAnchor<String>,
}
#[derive(Deserialize)]
struct OuterFirstU32 {
    #[allow(dead_code)]
    n: NestV,
    pre: RcAnchor<u32>,
    post: RcAnchor<u32>,
}
#[derive(Deserialize)]
struct KingdomFirst {
    #[allow(dead_code)]
    n: NestV,
    king: RcRecursive<King>,
}

#[derive(Deserialize)]
struct OuterPlain {
    pre: RcAnchor<String>,
    #[allow(dead_code)]
    n: NestV,
    post: RcAnchor<String>,
    more: Vec<RcAnchor<String>>,
}
impl_tgt!(OuterPlain);

#[derive(Deserialize)]
struct Holder {
    a: RcAnchor<String>,
    #[allow(dead_code)]
    n: NestV,
    b: RcAnchor<String>,
}
#[derive(Deserialize)]
struct OuterAnch {
    head: RcAnchor<Holder>,
    tail: RcAnchor<Holder>,
    again: RcAnchor<String>,
}

#[derive(Deserialize)]
#[allow(dead_code)]
struct OuterFail {
    pre: RcAnchor<String>,
    n: NestFail,
    post: RcAnchor<String>,
}

#[derive(Deserialize)]
struct OuterWeak {
    pre: RcAnchor<String>,
    #[allow(dead_code)]
    n: NestV,
    w: RcWeakAnchor<String>,
}

#[derive(Deserialize)]
struct OuterArc {
    pre: ArcAnchor<String>,
    #[allow(dead_code)]
    n: NestV,
    post: ArcAnchor<String>,
    w: ArcWeakAnchor<String>,
}

#[derive(Deserialize)]
struct King2 {
    name: String,
    #[allow(dead_code)]
    n: NestV,
    coronator: RcRecursion<King2>,
}
#[derive(Deserialize)]
struct Kingdom2 {
    king: RcRecursive<King2>,
}

#[derive(Deserialize)]
#[serde(untagged)]
enum SeqItem {
    // a map {n: "<list>"} performs the nested calls; anything else is a shared string
    N {
        #[allow(dead_code)]
        n: NestV,
    },
    S(RcAnchor<String>),
}

/// The outer document of a nested call: anchors before and aliases after the field whose
/// `Deserialize` impl performs the nested calls.
fn nest_doc(k: usize, inner: &[Call]) -> String {
    let list = enc_list(inner);
    match k {
        0 => format!("pre: &a pv\nn: \"{list}\"\npost: *a\nmore: [&b q, *b, *a, r]\n"),
        1 => format!("head: &h\n  a: &a pv\n  n: \"{list}\"\n  b: *a\ntail: *h\nagain: *a\n"),
        2 => format!("pre: &a pv\nn: \"{list}\"\npost: *a\n"),
        3 => format!("pre: &a pv\nn: \"{list}\"\nw: *a\n"),
        4 => format!("pre: &a pv\nn: \"{list}\"\npost: *a\nw: *a\n"),
        5 => format!("king: &root\n  name: Aurelian\n  n: \"{list}\"\n  coronator: *root\n"),
        6 => format!("- &a pv\n- *a\n- {{n: \"{list}\"}}\n- *a\n- &b q\n- {{n: \"{list}\"}}\n- *b\n- *a\n"),
        7 => format!("n: \"{list}\"\npre: &a outer-value\npost: *a\nmore: [&b q, *b, *a, r]\n"),
        8 => format!("n: \"{list}\"\npre: &a outer-value\npost: *a\n"),
        9 => format!("n: \"{list}\"\npre: &a 41\npost: *a\n"),
        10 => format!("- {{n: \"{list}\"}}\n- &a outer-value\n- *a\n- &b q\n- *b\n- r\n"),
        _ => format!("n: \"{list}\"\nking: &root\n  name: Outer\n  coronator: *root\n"),
    }
}

fn run_nest(k: usize, e: usize, inner: &[Call]) -> Value {
    let saved = INNER_LOG.with(|l| std::mem::take(&mut *l.borrow_mut()));
    let doc = nest_doc(k, inner);
    let outer = match k {
        0 => {
            match parse_via::<OuterPlain>(e, &doc) {
                Ok(d) => json!({"ok": strs_out(std::iter::once(&d.pre).chain(std::iter::once(&d.post)).chain(d.more.iter()))}),
                Err(e) => err_json(&e),
            }
        }
        1 => {
            match serde_saphyr::from_str::<OuterAnch>(&doc) {
                Ok(d) => {
                    let mut o = strs_out([&d.head.a, &d.head.b, &d.tail.a, &d.tail.b, &d.again]);
                    o["classes_holder"] = json!(classes([Rc::as_ptr(&d.head.0) as usize, Rc::as_ptr(&d.tail.0) as usize]));
                    json!({"ok": o})
                }
                Err(e) => err_json(&e),
            }
        }
        2 => {
            match serde_saphyr::from_str::<OuterFail>(&doc) {
                Ok(_) => json!({"ok": "unexpected"}),
                Err(e) => err_json(&e),
            }
        }
        3 => {
            match serde_saphyr::from_str::<OuterWeak>(&doc) {
                Ok(d) => {
                    let up = d.w.upgrade();
                    json!({"ok": {
                        "values": [(*d.pre.0).clone(), up.as_ref().map(|r| (**r).clone()).unwrap_or_else(|| "<dangling>".into())],
                        "classes": classes([Rc::as_ptr(&d.pre.0) as usize, up.as_ref().map(|r| Rc::as_ptr(r) as usize).unwrap_or(0)]),
                    }})
                }
                Err(e) => err_json(&e),
            }
        }
        4 => {
            match serde_saphyr::from_str::<OuterArc>(&doc) {
                Ok(d) => {
                    let up = d.w.upgrade();
                    json!({"ok": {
                        "values": [(*d.pre.0).clone(), (*d.post.0).clone(), up.as_ref().map(|r| (**r).clone()).unwrap_or_else(|| "<dangling>".into())],
                        "classes": classes([Arc::as_ptr(&d.pre.0) as usize, Arc::as_ptr(&d.post.0) as usize, up.as_ref().map(|r| Arc::as_ptr(r) as usize).unwrap_or(0)]),
                    }})
                }
                Err(e) => err_json(&e),
            }
        }
        5 => {
            match serde_saphyr::from_str::<Kingdom2>(&doc) {
                Ok(d) => {
                    let king = d.king.borrow();
                    let cor = king.coronator.upgrade();
                    json!({"ok": {
                        "values": [king.name.clone(), cor.as_ref().map(|c| c.borrow().name.clone()).unwrap_or_else(|| "<dangling>".into())],
                        "classes": classes([Rc::as_ptr(&d.king.0) as usize, cor.as_ref().map(|c| Rc::as_ptr(&c.0) as usize).unwrap_or(0)]),
                    }})
                }
                Err(e) => err_json(&e),
            }
        }
        7 => match serde_saphyr::from_str::<OuterFirst>(&doc) {
            Ok(d) => json!({"ok": strs_out(std::iter::once(&d.pre).chain(std::iter::once(&d.post)).chain(d.more.iter()))}),
            Err(e) => err_json(&e),
        },
        8 => match serde_saphyr::from_str::<OuterFirstArc>(&doc) {
            Ok(d) => json!({"ok": {
                "values": [(*d.pre.0).clone(), (*d.post.0).clone()],
                "strong_counts": [Arc::strong_count(&d.pre.0), Arc::strong_count(&d.post.0)],
                "classes": classes([Arc::as_ptr(&d.pre.0) as usize, Arc::as_ptr(&d.post.0) as usize]),
            }}),
            Err(e) => err_json(&e),
        },
        9 => match serde_saphyr::from_str::<OuterFirstU32>(&doc) {
            Ok(d) => json!({"ok": {
                "values": [*d.pre.0, *d.post.0],
                "strong_counts": [Rc::strong_count(&d.pre.0), Rc::strong_count(&d.post.0)],
                "classes": classes([Rc::as_ptr(&d.pre.0) as usize, Rc::as_ptr(&d.post.0) as usize]),
            }}),
            Err(e) => err_json(&e),
        },
        11 => match serde_saphyr::from_str::<KingdomFirst>(&doc) {
            Ok(d) => {
                let strong = Rc::strong_count(&d.king.0);
                let king = d.king.borrow();
                let cor = king.coronator.upgrade();
                json!({"ok": {
                    "values": [king.name.clone(), cor.as_ref().map(|c| c.borrow().name.clone()).unwrap_or_else(|| "<dangling>".into())],
                    "strong_counts": [strong],
                    "classes": classes([Rc::as_ptr(&d.king.0) as usize, cor.as_ref().map(|c| Rc::as_ptr(&c.0) as usize).unwrap_or(0)]),
                }})
            }
            Err(e) => err_json(&e),
        },
        _ => {
            // 6 and 10: a sequence whose map items perform the nested calls
            match serde_saphyr::from_str::<Vec<SeqItem>>(&doc) {
                Ok(v) => {
                    let strs: Vec<&RcAnchor<String>> = v
                        .iter()
                        .filter_map(|i| match i {
                            SeqItem::S(s) => Some(s),
                            SeqItem::N { .. } => None,
                        })
                        .collect();
                    json!({"ok": strs_out(strs)})
                }
                Err(e) => err_json(&e),
            }
        }
    };
    let mine = INNER_LOG.with(|l| std::mem::replace(&mut *l.borrow_mut(), saved));
    json!({"outer": outer, "inner": mine})
}

// ------------------------------------------------------------------ the table of base calls

struct BaseCall {
    name: String,
    /// member of the core alphabet (exhaustive histories)
    core: bool,
    /// abandons an iterator half-way
    abandons: bool,
    f: Box<dyn Fn() -> Value + Send + Sync>,
}

const STREAM: &str = "- &a x\n- *a\n- u\n---\n- &a y\n- *a\n- &b z\n- *b\n---\n- &c [broken\n";

#[allow(deprecated)]
fn budget_call(max_nodes: Option<usize>, replay_limit: Option<usize>, doc: &'static str) -> Value {
    let rep: Rc<RefCell<Vec<String>>> = Rc::new(RefCell::new(Vec::new()));
    let r2 = rep.clone();
    let mut o = Options::default().with_budget_report(move |r| r2.borrow_mut().push(format!("{r:?}")));
    if let Some(n) = max_nodes {
        o.budget = Some(Budget { max_nodes: n, ..Budget::default() });
    }
    if let Some(n) = replay_limit {
        o.alias_limits.max_total_replayed_events = n;
    }
    let r = serde_saphyr::from_str_with_options::<Vec<RcAnchor<Vec<String>>>>(doc, o);
    let mut out = match r {
        Ok(v) => {
            let cls = classes(v.iter().map(|a| Rc::as_ptr(&a.0) as usize));
            json!({"ok": {
                "values": v.iter().map(|a| (*a.0).clone()).collect::<Vec<_>>(),
                "strong": strong_per_class(&cls, v.iter().map(|a| Rc::strong_count(&a.0))),
                "classes": cls,
            }})
        }
        Err(e) => err_json(&e),
    };
    out["report"] = json!(rep.borrow().clone());
    out
}

const BUDGET_DOC: &str = "- &a [p, q, r]\n- *a\n- &b [s]\n- *b\n- *a\n";

fn build_table() -> Vec<BaseCall> {
    let mut t: Vec<BaseCall> = Vec::new();
    let mut add = |name: &str, core: bool, abandons: bool, f: Box<dyn Fn() -> Value + Send + Sync>| {
        t.push(BaseCall { name: name.to_string(), core, abandons, f });
    };
    // 0: successful parse with shared RcAnchors
    add("ok-shared-rc", true, false, Box::new(|| shared_out(serde_saphyr::from_str(SHARED_OK))));
    // 1: Arc strong + weak
    add(
        "ok-shared-arc",
        true,
        false,
        Box::new(|| match serde_saphyr::from_str::<ArcDoc>("strong:\n  - &p {x: 1, y: 2}\n  - *p\n  - {x: 1, y: 2}\nweak: *p\n") {
            Ok(d) => {
                let strong: Vec<usize> = d.strong.iter().map(|a| Arc::strong_count(&a.0)).collect();
                let up = d.weak.upgrade();
                json!({"ok": {
                    "values": d.strong.iter().map(|a| json!([a.0.x, a.0.y])).collect::<Vec<_>>(),
                    "strong_counts": strong,
                    "classes": classes(d.strong.iter().map(|a| Arc::as_ptr(&a.0) as usize).chain(std::iter::once(up.as_ref().map(|u| Arc::as_ptr(u) as usize).unwrap_or(0)))),
                }})
            }
            Err(e) => err_json(&e),
        }),
    );
    // 2: recursive anchors (anchor id 1 is the recursive root)
    add(
        "ok-recursive",
        true,
        false,
        Box::new(|| match serde_saphyr::from_str::<Kingdom>("king: &root\n  name: Aurelian\n  coronator: *root\n") {
            Ok(d) => {
                let king = d.king.borrow();
                let cor = king.coronator.upgrade();
                json!({"ok": {
                    "values": [king.name.clone(), cor.as_ref().map(|c| c.borrow().name.clone()).unwrap_or_else(|| "<dangling>".into())],
                    "strong_counts": [Rc::strong_count(&d.king.0)],
                    "classes": classes([Rc::as_ptr(&d.king.0) as usize, cor.as_ref().map(|c| Rc::as_ptr(&c.0) as usize).unwrap_or(0)]),
                }})
            }
            Err(e) => err_json(&e),
        }),
    );
    // 3: parse failing midway through an anchored node
    add(
        "fail-in-anchored-node",
        true,
        false,
        Box::new(|| match serde_saphyr::from_str::<Vec<RcAnchor<Pt>>>("- &a {x: 1, y: 2}\n- *a\n- &b {x: 3, y: oops}\n- *b\n") {
            Ok(v) => json!({"ok": v.len()}),
            Err(e) => err_json(&e),
        }),
    );
    // 4: failing while an alias is replayed into a stricter type (serde static constructor -> fallback location)
    add(
        "fail-in-alias-replay",
        true,
        false,
        Box::new(|| match serde_saphyr::from_str::<ReplayStrict>("a: &a {x: 1, y: 2}\nb: *a\n") {
            Ok(_) => json!({"ok": "unexpected"}),
            Err(e) => err_json(&e),
        }),
    );
    // 5: failing inside an anchor-wrapper context: weak wrapper on anchor id 1 that no strong wrapper stored
    add(
        "fail-in-weak-ctx",
        true,
        false,
        Box::new(|| match serde_saphyr::from_str::<WeakOnly>("w: &a x\n") {
            Ok(d) => json!({"ok": {"upgraded": d.w.upgrade().map(|r| (*r).clone())}}),
            Err(e) => err_json(&e),
        }),
    );
    // 6: failing inside a recursive wrapper context, after the placeholder was stored
    add(
        "fail-in-recursive-ctx",
        true,
        false,
        Box::new(|| match serde_saphyr::from_str::<KingdomBad>("king: &root\n  name: A\n  coronator: *root\n  age: notnum\n") {
            Ok(_) => json!({"ok": "unexpected"}),
            Err(e) => err_json(&e),
        }),
    );
    // 7: budget breach (with budget report)
    add("budget-breach", true, false, Box::new(|| budget_call(Some(6), None, BUDGET_DOC)));
    // 8: alias replay limit breach
    add("alias-limit-breach", true, false, Box::new(|| budget_call(None, Some(5), BUDGET_DOC)));
    // 9: iterator abandoned after one item
    add(
        "iter-abandoned-after-1",
        true,
        true,
        Box::new(|| {
            let mut rd = STREAM.as_bytes();
            let mut it = serde_saphyr::read::<_, Vec<RcAnchor<String>>>(&mut rd);
            let a = it.next().map(vec_out);
            drop(it);
            json!({"items": [a]})
        }),
    );
    // 10: a Deserialize impl that panics mid-document (caught)
    add(
        "panic-mid-document",
        true,
        false,
        Box::new(|| {
            let r = vcore::obs::catch(|| serde_saphyr::from_str::<PanicDoc>("first: &a x\nitems: [*a, &b y]\nboom: &c {k: v, k2: v2}\n"));
            match r {
                Err(p) => json!({"panic": p.split(" @ ").next().unwrap_or("")}),
                Ok(Ok(_)) => json!({"ok": "unexpected"}),
                Ok(Err(e)) => err_json(&e),
            }
        }),
    );
    // 11: serialisation with anchors
    add(
        "ser-anchors",
        true,
        false,
        Box::new(|| {
            let a = RcAnchor::wrapping("x".to_string());
            let p = ArcAnchor::wrapping(Pt { x: 1, y: 2 });
            let gone = RcAnchor::wrapping("gone".to_string());
            let dangling = RcWeakAnchor::from(&gone);
            drop(gone);
            let d = SerDoc {
                a: a.clone(),
                b: a.clone(),
                list: vec![p.clone(), ArcAnchor::wrapping(Pt { x: 1, y: 2 }), p.clone()],
                w: RcWeakAnchor::from(&a),
                dangling,
                c: RcAnchor::wrapping("x".to_string()),
            };
            match serde_saphyr::to_string(&d) {
                Ok(s) => json!({"ok": {"text": s}}),
                Err(e) => json!({"err": {"kind": "ser", "loc": null, "msg": e.to_string()}}),
            }
        }),
    );
    // 12: probe — serde static constructor with no deserializer activity: location must be None
    add(
        "probe-missing-field",
        true,
        false,
        Box::new(|| match serde_saphyr::from_str::<ProbeMissing>("") {
            Ok(_) => json!({"ok": "unexpected"}),
            Err(e) => err_json(&e),
        }),
    );
    // 13: probe — anchor id 1 re-used with a different value
    add("probe-reuse-id1-value", true, false, Box::new(|| vec_out(serde_saphyr::from_str("- &z other\n- *z\n- &y more\n- z\n"))));
    // 14: probe — anchor id 1 re-used with a different type
    add(
        "probe-reuse-id1-type",
        true,
        false,
        Box::new(|| match serde_saphyr::from_str::<Vec<RcAnchor<u32>>>("- &z 7\n- *z\n- 7\n") {
            Ok(v) => {
                let cls = classes(v.iter().map(|a| Rc::as_ptr(&a.0) as usize));
                json!({"ok": {
                    "values": v.iter().map(|a| *a.0).collect::<Vec<u32>>(),
                    "strong": strong_per_class(&cls, v.iter().map(|a| Rc::strong_count(&a.0))),
                    "classes": cls,
                }})
            }
            Err(e) => err_json(&e),
        }),
    );
    // 15: payload with a Drop counter — how many payloads die during the parse (the value read for
    //     an alias is dropped) and how many when the result is dropped (all of them, if nothing else
    //     keeps an allocation alive)
    add(
        "ok-shared-dropper",
        true,
        false,
        Box::new(|| {
            let before = DROPS.with(|d| d.get());
            match serde_saphyr::from_str::<Vec<RcAnchor<Dropper>>>("- &a dx\n- *a\n- dy\n- &b dz\n- *b\n- *a\n") {
                Ok(v) => {
                    let during = DROPS.with(|d| d.get()) - before;
                    let cls = classes(v.iter().map(|a| Rc::as_ptr(&a.0) as usize));
                    let values: Vec<String> = v.iter().map(|a| a.0.0.clone()).collect();
                    let strong = strong_per_class(&cls, v.iter().map(|a| Rc::strong_count(&a.0)));
                    let mid = DROPS.with(|d| d.get());
                    drop(v);
                    let on_result_drop = DROPS.with(|d| d.get()) - mid;
                    json!({"ok": {"values": values, "strong": strong, "classes": cls, "payloads_dropped_during_parse": during, "payloads_dropped_with_result": on_result_drop}})
                }
                Err(e) => err_json(&e),
            }
        }),
    );
    // ---- non-core (pairs, random histories, nested lists)
    add(
        "ok-shared-arc-string",
        false,
        false,
        Box::new(|| match serde_saphyr::from_str::<Vec<ArcAnchor<String>>>("- &a inner-arc\n- *a\n- other\n") {
            Ok(v) => {
                let cls = classes(v.iter().map(|a| Arc::as_ptr(&a.0) as usize));
                json!({"ok": {
                    "values": v.iter().map(|a| (*a.0).clone()).collect::<Vec<String>>(),
                    "strong": strong_per_class(&cls, v.iter().map(|a| Arc::strong_count(&a.0))),
                    "classes": cls,
                }})
            }
            Err(e) => err_json(&e),
        }),
    );
    add("iter-abandoned-after-2", false, true, {
        Box::new(|| {
            let mut rd = STREAM.as_bytes();
            let mut it = serde_saphyr::read::<_, Vec<RcAnchor<String>>>(&mut rd);
            let a = it.next().map(vec_out);
            let b = it.next().map(vec_out);
            drop(it);
            json!({"items": [a, b]})
        })
    });
    add("iter-to-the-error", false, false, {
        Box::new(|| {
            let mut rd = STREAM.as_bytes();
            let items: Vec<Value> = serde_saphyr::read::<_, Vec<RcAnchor<String>>>(&mut rd).take(6).map(vec_out).collect();
            json!({"items": items})
        })
    });
    add("budget-ok-report", false, false, Box::new(|| budget_call(Some(1000), None, BUDGET_DOC)));
    add(
        "probe-unknown-variant",
        false,
        false,
        Box::new(|| match serde_saphyr::from_str::<ProbeVariant>("") {
            Ok(_) => json!({"ok": "unexpected"}),
            Err(e) => err_json(&e),
        }),
    );
    add(
        "ser-fails-midway",
        false,
        false,
        Box::new(|| {
            let a = RcAnchor::wrapping("x".to_string());
            let d = SerFailDoc { a: a.clone(), b: a, f: FailSer };
            match serde_saphyr::to_string(&d) {
                Ok(s) => json!({"ok": {"text": s}}),
                Err(e) => json!({"err": {"kind": "ser", "loc": null, "msg": e.to_string()}}),
            }
        }),
    );
    add(
        "from-multiple-anchors",
        false,
        false,
        Box::new(|| match serde_saphyr::from_multiple::<Vec<RcAnchor<String>>>("- &a x\n- *a\n---\n- &a y\n- *a\n- &b x\n") {
            Ok(docs) => json!({"ok": strs_out(docs.iter().flatten())}),
            Err(e) => err_json(&e),
        }),
    );
    // realistic variant of the fallback probe: serde's own NonZeroU32 impl raises `invalid_value`
    // after the scalar was consumed, at the root of a one-line document
    add(
        "probe-nonzero-root",
        false,
        false,
        Box::new(|| match serde_saphyr::from_str::<std::num::NonZeroU32>("0") {
            Ok(v) => json!({"ok": v.get()}),
            Err(e) => err_json(&e),
        }),
    );
    // an iterator that stays alive while the following calls of the history run (dropped with the thread)
    add(
        "iter-held-open",
        false,
        true,
        Box::new(|| {
            let rd: &'static mut &'static [u8] = Box::leak(Box::new(STREAM.as_bytes()));
            let mut it = serde_saphyr::read::<_, Vec<RcAnchor<String>>>(rd);
            let a = it.next().map(vec_out);
            HELD_ITER.with(|h| *h.borrow_mut() = Some(it));
            json!({"items": [a]})
        }),
    );
    // second document of the stream: from the held iterator if there is one, else from a new
    // iterator whose first item is skipped — the same iterator state either way
    add(
        "iter-resume-second-doc",
        false,
        true,
        Box::new(|| {
            let held = HELD_ITER.with(|h| h.borrow_mut().take());
            let mut it = match held {
                Some(it) => it,
                None => {
                    let rd: &'static mut &'static [u8] = Box::leak(Box::new(STREAM.as_bytes()));
                    let mut it = serde_saphyr::read::<_, Vec<RcAnchor<String>>>(rd);
                    let _ = it.next();
                    it
                }
            };
            let b = it.next().map(vec_out);
            json!({"items": [b]})
        }),
    );
    for e in 1..ENTRIES.len() {
        add(&format!("ok-shared-rc@{}", ENTRIES[e]), false, false, Box::new(move || shared_out(parse_via(e, SHARED_OK))));
    }
    for e in 0..ENTRIES.len() {
        add(&format!("fail-shared-rc@{}", ENTRIES[e]), false, false, Box::new(move || shared_out(parse_via(e, SHARED_FAIL))));
    }
    t
}

fn table() -> &'static Vec<BaseCall> {
    static T: OnceLock<Vec<BaseCall>> = OnceLock::new();
    T.get_or_init(build_table)
}

// ------------------------------------------------------------------ comparison / classification

/// `Run::violation` keeps every (signature, case) key in a set it scans on each report; a defect
/// that shows in 10^5 cases would make that quadratic. Every case is counted, the first
/// `REPORT_CAP` per signature are handed to the run (3 witnesses are kept there anyway).
const REPORT_CAP: u64 = 200;

fn report(run: &Run, signature: &str, case: Value, detail: impl Into<String>) {
    static SEEN: OnceLock<Mutex<HashMap<String, u64>>> = OnceLock::new();
    let n = {
        let mut m = SEEN.get_or_init(|| Mutex::new(HashMap::new())).lock().unwrap();
        let e = m.entry(signature.to_string()).or_insert(0);
        *e += 1;
        *e
    };
    run.count(&format!("cases_by_signature/{signature}"), 1);
    if n <= REPORT_CAP {
        run.violation(signature, case, detail);
    }
}

/// Path of the first difference between two outcomes (deterministic: object keys in sorted order).
fn diff_path(a: &Value, b: &Value) -> Option<String> {
    if a == b {
        return None;
    }
    match (a, b) {
        (Value::Object(x), Value::Object(y)) => {
            let mut keys: Vec<&String> = x.keys().chain(y.keys()).collect();
            keys.sort();
            keys.dedup();
            // report shape differences first (ok vs err vs panic)
            if keys.iter().any(|k| x.contains_key(*k) != y.contains_key(*k)) {
                let mut xs: Vec<&String> = x.keys().filter(|q| !y.contains_key(*q)).collect();
                let mut ys: Vec<&String> = y.keys().filter(|q| !x.contains_key(*q)).collect();
                xs.sort();
                ys.sort();
                return Some(format!(
                    "{}-vs-{}",
                    xs.first().map(|s| s.as_str()).unwrap_or("none"),
                    ys.first().map(|s| s.as_str()).unwrap_or("none")
                ));
            }
            for k in keys {
                if let Some(p) = diff_path(&x[k], &y[k]) {
                    return Some(format!("{k}.{p}"));
                }
            }
            Some("?".into())
        }
        (Value::Array(x), Value::Array(y)) if x.len() == y.len() => {
            for (i, (p, q)) in x.iter().zip(y.iter()).enumerate() {
                if let Some(d) = diff_path(p, q) {
                    // index only for arrays of objects (inner outcomes); scalars: no index in a signature
                    return Some(if p.is_object() || q.is_object() { format!("{i}.{d}") } else { "value".to_string() });
                }
            }
            Some("?".into())
        }
        (Value::Array(_), Value::Array(_)) => Some("length".into()),
        _ => Some("value".into()),
    }
}

/// true iff partition `fine` refines partition `coarse` (both as class-label vectors of equal length).
fn refines(fine: &[u64], coarse: &[u64]) -> bool {
    if fine.len() != coarse.len() {
        return false;
    }
    for i in 0..fine.len() {
        for j in 0..fine.len() {
            if fine[i] == fine[j] && coarse[i] != coarse[j] {
                return false;
            }
        }
    }
    true
}

fn labels(v: &Value) -> Option<Vec<u64>> {
    v.as_array()?.iter().map(|x| x.as_u64()).collect()
}

/// The predicate of the candidate defect "nested parse clears the outer anchor store":
/// with the nested calls' own outcomes equal, the real outer result is what the constant-mode
/// result becomes when entries of the outer call's anchor table are lost — identical values with
/// a strictly finer sharing partition, or an alias-side wrapper that can no longer find the
/// strong anchor defined before the nested call.
fn is_lost_outer_anchor_entries(constant: &Value, real: &Value) -> Option<&'static str> {
    let (c, r) = (&constant["outer"], &real["outer"]);
    if let (Some(co), Some(ro)) = (c.get("ok").and_then(|v| v.as_object()), r.get("ok").and_then(|v| v.as_object())) {
        let mut strict = false;
        if co.len() != ro.len() {
            return None;
        }
        for (k, cv) in co {
            let rv = ro.get(k)?;
            if k.starts_with("strong") {
                continue; // counts follow the partition
            } else if k.starts_with("classes") {
                let (cl, rl) = (labels(cv)?, labels(rv)?);
                if !refines(&rl, &cl) {
                    return None;
                }
                if !refines(&cl, &rl) {
                    strict = true;
                }
            } else if cv != rv {
                return None;
            }
        }
        return if strict { Some("sharing-lost") } else { None };
    }
    if c.get("ok").is_some()
        && let Some(e) = r.get("err")
    {
        let msg = e["msg"].as_str().unwrap_or("");
        if msg.contains("refers to unknown anchor") {
            return Some("weak-unresolved");
        }
        if msg.contains("refers to unknown recursive anchor id") {
            return Some("recursion-unresolved");
        }
        // live_events consults `recursive_anchor_in_progress(id)` for an alias to an anchor that is
        // still open; the nested reset wiped the outer call's in-progress table
        if e["kind"] == "RecursiveReferencesRequireWeakTypes" {
            return Some("recursion-in-progress-lost");
        }
    }
    None
}

fn is_failing(v: &Value) -> bool {
    fn walk(v: &Value) -> bool {
        match v {
            Value::Object(m) => m.contains_key("err") || m.contains_key("panic") || m.contains_key("lib_panic") || m.values().any(walk),
            Value::Array(a) => a.iter().any(walk),
            _ => false,
        }
    }
    walk(v)
}

fn call_interesting(c: &Call) -> bool {
    match c {
        Call::Nest(..) => true,
        Call::Base(i) => table()[*i].abandons || is_failing(&baseline(c)),
    }
}

/// Concrete content of a call for replay files: the outer document of a nested call (the nested
/// list is inside it), the name of the fixed program for a base call.
fn describe(c: &Call) -> Value {
    match c {
        Call::Base(i) => json!(table()[*i].name),
        Call::Nest(k, e, inner) => json!({"entry": ENTRIES[*e], "outer_doc": nest_doc(*k, inner), "nested": inner.iter().map(describe).collect::<Vec<_>>()}),
    }
}

fn hist_json(h: &[Call]) -> Value {
    json!(h.iter().map(|c| c.enc()).collect::<Vec<_>>())
}

fn hist_names(h: &[Call]) -> Value {
    json!(h.iter().map(|c| c.name()).collect::<Vec<_>>())
}

/// Run one history on a fresh thread and compare every call with its baseline.
fn check_history(run: &Run, h: &[Call], phase: &str) {
    let base: Vec<Value> = h.iter().map(baseline).collect();
    let (outs, nested) = fresh(|| {
        let outs: Vec<Value> = h.iter().map(exec).collect();
        (outs, NESTED_EXECS.with(|n| n.get()))
    });
    run.evals(h.len() as u64);
    if nested > 0 {
        run.count("nested_executions", nested);
    }
    let mut ok = true;
    for (i, (got, exp)) in outs.iter().zip(base.iter()).enumerate() {
        if got != exp {
            ok = false;
            let path = diff_path(exp, got).unwrap_or_default();
            let sig = if got.get("lib_panic").is_some() {
                format!("C15:panic:{}", vcore::obs::panic_site(got["lib_panic"].as_str().unwrap_or("")))
            } else {
                format!("C15:history:{}:{}", h[i].name(), path)
            };
            report(run,
                &sig,
                json!({"phase": phase, "history": hist_json(h), "names": hist_names(h), "index": i, "programs": h.iter().map(describe).collect::<Vec<_>>()}),
                format!("call #{i} ({}) after {:?}: baseline {} | in history {}", h[i].name(), hist_names(&h[..i]), exp, got),
            );
            break;
        }
    }
    if ok {
        run.count("histories_held", 1);
    }
    if h.len() >= 2 && h.iter().any(call_interesting) {
        let encs: Vec<String> = h.iter().map(|c| c.enc()).collect();
        let parts: Vec<&[u8]> = encs.iter().map(|s| s.as_bytes()).collect();
        run.nontrivial(fnv_parts(&parts));
    }
}

/// Nested transparency: outer call with real nested calls == outer call with constant results,
/// and each nested call's own outcome == its baseline.
fn check_nested(run: &Run, c: &Call) {
    let Call::Nest(_, _, inner) = c else { return };
    let constant = fresh(|| {
        CONST_MODE.with(|m| m.set(true));
        exec(c)
    });
    let real = baseline(c);
    run.evals(2);
    run.count("nested_pairs", 1);
    let case = || json!({"phase": "nested", "call": c.enc(), "name": c.name(), "inner_names": hist_names(inner), "outer_doc": describe(c)});
    // every nested call's own result must be its fresh-thread result
    if let (Some(ci), Some(ri)) = (constant["inner"].as_array(), real["inner"].as_array()) {
        for (j, (cv, rv)) in ci.iter().zip(ri.iter()).enumerate() {
            if cv != rv {
                let which = if inner.is_empty() { "?".to_string() } else { inner[j % inner.len()].name() };
                let path = diff_path(cv, rv).unwrap_or_default();
                let sig = if rv.get("lib_panic").is_some() {
                    format!("C15:panic:{}", vcore::obs::panic_site(rv["lib_panic"].as_str().unwrap_or("")))
                } else if is_outer_fallback_location_seen(cv, rv) {
                    run.count("nested_call_sees_outer_fallback_location", 1);
                    "C15:nested-call-sees-outer-fallback-location".to_string()
                } else {
                    format!("C15:nested-call-differs:{which}:{path}")
                };
                report(run,
                    &sig,
                    case(),
                    format!("nested call #{j} ({which}) inside {}: on a fresh thread {} | nested {}", c.name(), cv, rv),
                );
                break;
            }
        }
    }
    if !inner.is_empty() {
        run.nontrivial(fnv_parts(&[b"nested", c.enc().as_bytes()]));
    }
    // the outer call's own result must not depend on whether the nested calls really ran
    if constant["outer"] == real["outer"] {
        run.count("nested_pairs_outer_equal", 1);
        return;
    }
    if let Some(how) = is_lost_outer_anchor_entries(&constant, &real) {
        run.count(&format!("nested_clears_outer_store/{how}"), 1);
        report(run,
            "C15:nested-parse-clears-outer-anchor-store",
            case(),
            format!("[{how}] outer {} with nested calls replaced by their constant results: {} | with the real nested calls: {}", c.name(), constant["outer"], real["outer"]),
        );
    } else if real.get("lib_panic").is_some() {
        report(run,
            &format!("C15:panic:{}", vcore::obs::panic_site(real["lib_panic"].as_str().unwrap_or(""))),
            case(),
            format!("{real}"),
        );
    } else {
        let path = diff_path(&constant["outer"], &real["outer"]).unwrap_or_default();
        let Call::Nest(k, _, _) = c else { unreachable!() };
        report(run,
            &format!("C15:nested-outer-differs:{}:{}", NEST_KINDS[*k], path),
            case(),
            format!("outer {} constant-mode {} | real {}", c.name(), constant["outer"], real["outer"]),
        );
    }
}

/// Predicate of the second candidate defect: a nested call's error is the fresh-thread error
/// (same kind) except that it carries a location although the fresh-thread error has none — the
/// location of the *outer* document's current key/element, read from the fallback thread-local.
fn is_outer_fallback_location_seen(fresh_out: &Value, nested_out: &Value) -> bool {
    // descend to the innermost differing nested outcome (nested calls may nest themselves)
    if let (Some(fi), Some(ni)) = (fresh_out.get("inner").and_then(|v| v.as_array()), nested_out.get("inner").and_then(|v| v.as_array()))
        && fi.len() == ni.len()
        && let Some((f, n)) = fi.iter().zip(ni.iter()).find(|(f, n)| f != n)
    {
        return fresh_out["outer"] == nested_out["outer"] && is_outer_fallback_location_seen(f, n);
    }
    match (fresh_out.get("err"), nested_out.get("err")) {
        (Some(f), Some(n)) => f["kind"] == n["kind"] && f["loc"].is_null() && !n["loc"].is_null(),
        _ => false,
    }
}

/// Repetition: the same call on further fresh threads gives the same outcome (hash seeds of
/// std `RandomState` differ per map instance; process-level seeds are covered by child processes).
fn check_repeat(run: &Run, c: &Call, times: usize) {
    let b = baseline(c);
    for _ in 0..times {
        let v = fresh(|| exec(c));
        run.eval();
        run.count("repeat_runs", 1);
        if v != b {
            report(run,
                &format!("C15:nondeterministic:{}:{}", c.name(), diff_path(&b, &v).unwrap_or_default()),
                json!({"phase": "repeat", "call": c.enc(), "name": c.name()}),
                format!("same call, fresh threads: {b} | {v}"),
            );
            return;
        }
    }
}

fn observe_outcome(run: &Run, c: &Call, v: &Value) {
    fn kinds(v: &Value, out: &mut Vec<String>) {
        match v {
            Value::Object(m) => {
                if let Some(e) = m.get("err") {
                    out.push(format!("{}@{}", e["kind"].as_str().unwrap_or("?"), e["loc"]));
                }
                if m.contains_key("panic") {
                    out.push("caught-visitor-panic".into());
                }
                if m.contains_key("lib_panic") {
                    out.push("escaped-panic".into());
                }
                m.values().for_each(|x| kinds(x, out));
            }
            Value::Array(a) => a.iter().for_each(|x| kinds(x, out)),
            _ => {}
        }
    }
    let mut ks = Vec::new();
    kinds(v, &mut ks);
    for k in ks {
        run.observe("error_kinds_at_locations", &k);
    }
    run.observe("calls", &c.name());
}

// ------------------------------------------------------------------ documented results

/// (call, values, sharing classes) — see `build_table` for the documents.
const DOCUMENTED: &[(&str, &str, &str)] = &[
    ("ok-shared-rc", r#"["x","x","y","y","plain","x","y"]"#, "[0,0,1,1,2,3,1]"),
    ("ok-shared-arc", "[[1,2],[1,2],[1,2]]", "[0,0,1,0]"),
    ("ok-recursive", r#"["Aurelian","Aurelian"]"#, "[0,0]"),
    ("probe-reuse-id1-value", r#"["other","other","more","z"]"#, "[0,0,1,2]"),
    ("probe-reuse-id1-type", "[7,7,7]", "[0,0,1]"),
    ("from-multiple-anchors", r#"["x","x","y","y","x"]"#, "[0,0,1,1,2]"),
    ("ok-shared-dropper", r#"["dx","dx","dy","dz","dz","dx"]"#, "[0,0,1,2,2,0]"),
    ("ok-shared-arc-string", r#"["inner-arc","inner-arc","other"]"#, "[0,0,1]"),
];

// ------------------------------------------------------------------ call sets

fn core_calls() -> Vec<Call> {
    let mut v: Vec<Call> = table().iter().enumerate().filter(|(_, b)| b.core).map(|(i, _)| Call::Base(i)).collect();
    let idx = |name: &str| Call::Base(table().iter().position(|b| b.name == name).expect("table name"));
    // nested members of the core alphabet
    v.push(Call::Nest(0, 0, vec![idx("ok-shared-rc")]));
    v.push(Call::Nest(1, 0, vec![idx("fail-in-anchored-node")]));
    v.push(Call::Nest(2, 0, vec![idx("probe-missing-field")]));
    v.push(Call::Nest(0, 0, vec![idx("panic-mid-document")]));
    v
}

fn all_base() -> Vec<Call> {
    (0..table().len()).map(Call::Base).collect()
}

fn random_call(rng: &mut Rng, core: &[Call], depth: usize) -> Call {
    let n = table().len();
    if depth < 2 && rng.chance(1, 4) {
        let k = rng.below(NEST_KINDS.len());
        let e = if k == 0 && rng.chance(1, 2) { rng.below(ENTRIES.len()) } else { 0 };
        let len = rng.below(4);
        let inner = (0..len).map(|_| random_call(rng, core, depth + 1)).collect();
        Call::Nest(k, e, inner)
    } else if rng.chance(2, 3) {
        rng.pick(core).clone()
    } else {
        Call::Base(rng.below(n))
    }
}

// ------------------------------------------------------------------ child process (hash seeds per process)

fn child_calls() -> Vec<Call> {
    let mut v = all_base();
    v.extend(core_calls().into_iter().filter(|c| matches!(c, Call::Nest(..))));
    v
}

fn child_main() -> ! {
    let outs: Vec<Value> = child_calls().iter().map(|c| fresh(|| exec(c))).collect();
    println!("{}", Value::Array(outs));
    std::process::exit(0);
}

fn check_children(run: &Run, n: usize) {
    let exe = match std::env::current_exe() {
        Ok(e) => e,
        Err(_) => {
            run.inconclusive("child process: current_exe unavailable");
            return;
        }
    };
    let calls = child_calls();
    let results: Mutex<Vec<Option<Vec<Value>>>> = Mutex::new(Vec::new());
    par_range(n, |_| {
        let r = vcore::obs::run_child(&exe, &["child-baselines".to_string()], None, None, None, None, 300);
        let parsed = match r {
            Ok(o) if !o.timed_out && o.exit_code == Some(0) => serde_json::from_str::<Value>(o.stdout.trim()).ok().and_then(|v| v.as_array().cloned()),
            _ => None,
        };
        results.lock().unwrap().push(parsed);
    });
    for r in results.into_inner().unwrap() {
        let Some(outs) = r else {
            run.inconclusive("child process did not deliver baselines (timeout / crash / unreadable output)");
            continue;
        };
        if outs.len() != calls.len() {
            run.inconclusive("child process delivered a different number of baselines");
            continue;
        }
        run.count("child_processes", 1);
        for (c, v) in calls.iter().zip(outs.iter()) {
            run.eval();
            let b = baseline(c);
            if &b != v {
                report(run,
                    &format!("C15:nondeterministic-across-processes:{}:{}", c.name(), diff_path(&b, v).unwrap_or_default()),
                    json!({"phase": "repeat", "call": c.enc(), "name": c.name()}),
                    format!("same call in two processes: {b} | {v}"),
                );
            }
        }
    }
}

// ------------------------------------------------------------------ enumeration helpers

/// i-th history of length `len` over an alphabet of `a` symbols (mixed radix).
fn nth_history(alphabet: &[Call], len: usize, mut i: usize) -> Vec<Call> {
    let a = alphabet.len();
    let mut h = Vec::with_capacity(len);
    for _ in 0..len {
        h.push(alphabet[i % a].clone());
        i /= a;
    }
    h
}

fn main() {
    if std::env::args().nth(1).as_deref() == Some("child-baselines") {
        child_main();
    }
    let explore = std::env::args().any(|a| a == "explore");
    let run = Run::from_args("C15");

    if let Some(rep) = run.is_replay() {
        let case = &rep["case"];
        match case["phase"].as_str().unwrap_or("") {
            "nested" => {
                if let Some(c) = parse_list(case["call"].as_str().unwrap_or("")).and_then(|v| v.into_iter().next()) {
                    check_nested(&run, &c);
                }
            }
            "repeat" => {
                if let Some(c) = parse_list(case["call"].as_str().unwrap_or("")).and_then(|v| v.into_iter().next()) {
                    check_repeat(&run, &c, 8);
                    check_children(&run, 2);
                }
            }
            _ => {
                let h: Option<Vec<Call>> = case["history"]
                    .as_array()
                    .map(|a| a.iter().filter_map(|s| parse_list(s.as_str().unwrap_or("")).and_then(|v| v.into_iter().next())).collect());
                if let Some(h) = h {
                    check_history(&run, &h, "replay");
                }
            }
        }
        run.finish(Finish::new("replay"));
    }

    let tier = run.tier;
    let core = core_calls();
    let base = all_base();

    // ---- phase 0: baselines, determinism
    for c in base.iter().chain(core.iter()) {
        let b = baseline(c);
        run.eval();
        observe_outcome(&run, c, &b);
        if explore {
            println!("{:40} {}", c.name(), b);
        }
        if b.get("lib_panic").is_some() {
            report(&run,
                &format!("C15:panic:{}", vcore::obs::panic_site(b["lib_panic"].as_str().unwrap_or(""))),
                json!({"phase": "history", "history": [c.enc()], "index": 0}),
                format!("{b}"),
            );
        }
    }
    // The differential oracle is blind to a defect that changes baseline and history alike (state
    // carried from one node to the next *within* a call). For the successful parses whose result is
    // pinned by the documentation of the anchor wrappers (an alias shares the allocation of its
    // anchor, anything else is a separate allocation) the baseline itself is checked.
    for (name, values, cls) in DOCUMENTED {
        let c = Call::Base(table().iter().position(|b| b.name == *name).expect("documented call"));
        let b = baseline(&c);
        let exp_v: Value = serde_json::from_str(values).expect("documented values");
        let exp_c: Value = serde_json::from_str(cls).expect("documented classes");
        run.count("documented_baselines_checked", 1);
        if b["ok"]["values"] != exp_v || b["ok"]["classes"] != exp_c {
            report(&run,
                &format!("C15:within-call-state:{name}"),
                json!({"phase": "history", "history": [c.enc()], "names": [name], "index": 0}),
                format!("first call on a fresh thread gave {b}; documented result: values {exp_v} sharing {exp_c}"),
            );
        }
    }
    run.count("table_calls", base.len() as u64);
    run.count("core_alphabet", core.len() as u64);
    {
        let all: Vec<Call> = base.iter().chain(core.iter()).cloned().collect();
        par_range(all.len(), |i| check_repeat(&run, &all[i], tier.pick(3, 10)));
    }
    check_children(&run, tier.pick(2, 6));

    // ---- phase 1: nested transparency sweep
    let nested_len = tier.pick(1, 2);
    let mut nested_cases: Vec<Call> = Vec::new();
    for k in 0..NEST_KINDS.len() {
        nested_cases.push(Call::Nest(k, 0, vec![]));
        // every call of the table and of the core alphabet (so depth 2 occurs) as the single nested call
        for c in base.iter().chain(core.iter().filter(|c| matches!(c, Call::Nest(..)))) {
            nested_cases.push(Call::Nest(k, 0, vec![c.clone()]));
        }
        // every sequence of core calls up to the bound
        for len in 2..=(nested_len + 1) {
            let total = core.len().pow(len as u32);
            for i in 0..total {
                nested_cases.push(Call::Nest(k, 0, nth_history(&core, len, i)));
            }
        }
    }
    // outer call through every entry point
    let i_ok = base[0].clone();
    let i_fail = Call::Base(table().iter().position(|b| b.name == "fail-in-anchored-node").unwrap());
    for e in 1..ENTRIES.len() {
        nested_cases.push(Call::Nest(0, e, vec![]));
        nested_cases.push(Call::Nest(0, e, vec![i_ok.clone()]));
        nested_cases.push(Call::Nest(0, e, vec![i_fail.clone()]));
    }
    run.count("nested_cases", nested_cases.len() as u64);
    par_range(nested_cases.len(), |i| {
        let c = &nested_cases[i];
        check_nested(&run, c);
        if explore && i < 200 {
            println!("NEST {:50} {}", c.enc(), baseline(c));
        }
        if i % 97 == 0 {
            run.sample(|| json!({"nested": c.enc(), "name": c.name(), "inner": hist_names(match c { Call::Nest(_, _, v) => v, _ => &[] }), "outcome": baseline(c)}));
        }
    });

    // ---- phase 2: exhaustive histories over the core alphabet
    let max_len = tier.pick(3, 4);
    for len in 1..=max_len {
        let total = core.len().pow(len as u32);
        run.count(&format!("exhaustive_histories_len{len}"), total as u64);
        par_range(total, |i| {
            let h = nth_history(&core, len, i);
            check_history(&run, &h, "exhaustive");
            if i % 4001 == 7 {
                run.sample(|| json!({"history": hist_names(&h)}));
            }
        });
    }
    // every ordered pair over the full table + nested entry-point calls (quick); triples with a core middle (thorough)
    let mut full: Vec<Call> = base.clone();
    full.extend(core.iter().filter(|c| matches!(c, Call::Nest(..))).cloned());
    for e in 1..ENTRIES.len() {
        full.push(Call::Nest(0, e, vec![i_ok.clone()]));
    }
    {
        let total = full.len() * full.len();
        run.count("exhaustive_pairs_full_table", total as u64);
        par_range(total, |i| {
            let h = nth_history(&full, 2, i);
            check_history(&run, &h, "pairs");
        });
    }

    // thorough: every triple (a, m, b) with a, b over the full table and m over the core alphabet
    if tier == Tier::Thorough {
        let total = full.len() * core.len() * full.len();
        run.count("exhaustive_triples_full_core_full", total as u64);
        par_range(total, |i| {
            let a = &full[i % full.len()];
            let m = &core[(i / full.len()) % core.len()];
            let b = &full[i / (full.len() * core.len())];
            check_history(&run, &[a.clone(), m.clone(), b.clone()], "triples");
        });
    }

    // an iterator held open across every other call, then resumed
    {
        let held = Call::Base(table().iter().position(|b| b.name == "iter-held-open").unwrap());
        let resume = Call::Base(table().iter().position(|b| b.name == "iter-resume-second-doc").unwrap());
        run.count("held_iterator_histories", full.len() as u64);
        par_range(full.len(), |i| {
            check_history(&run, &[held.clone(), full[i].clone(), resume.clone()], "held-iterator");
        });
    }

    // ---- phase 3: random histories up to length 20
    let n_random = tier.pick(12_000, 150_000);
    par_range(n_random, |i| {
        let mut rng = Rng::stream(run.seed, i as u64);
        let len = rng.range(2, 20);
        let h: Vec<Call> = (0..len).map(|_| random_call(&mut rng, &core, 0)).collect();
        run.max("max_random_history_len", h.len() as u64);
        run.max("max_nest_depth", h.iter().map(|c| c.depth()).max().unwrap_or(0) as u64);
        check_history(&run, &h, "random");
        // nested transparency for the random nested calls too
        for c in h.iter().filter(|c| matches!(c, Call::Nest(..))).take(2) {
            check_nested(&run, c);
        }
        if i % 499 == 0 {
            run.sample(|| json!({"random_history": hist_names(&h)}));
        }
    });
    run.count("random_histories", n_random as u64);
    run.count("distinct_calls_with_baseline", baselines().lock().unwrap().len() as u64);

    let scope = format!(
        "every history of length <= {max_len} over the core alphabet of {} calls ({} base calls + 4 nested calls), each on a fresh thread; every ordered pair over the full table of {} calls (all entry points; thorough: also every triple full x core x full); an iterator held open across each call of the full table and then resumed; nested: every outer kind ({}) x every single table call and every sequence of <= {} core calls as the nested list, outer kind 'plain' through all {} entry points",
        core.len(),
        core.len() - 4,
        full.len(),
        NEST_KINDS.len(),
        nested_len + 1,
        ENTRIES.len()
    );
    let fin = Finish::new(
        "a history counts as non-trivial when it has >= 2 calls and >= 1 of them fails, nests, panics (caught visitor panic) or abandons an iterator (judged from the call's own baseline outcome); a nested-transparency pair counts when the nested list is non-empty; distinct by hash of the encoded history",
    )
    .exhaustive(scope)
    .assume("baseline = the call executed as the first and only call on a freshly spawned thread of the same process")
    .assume("outcomes compare values, error kind + line/column + message text, pointer-sharing partitions, budget reports, emitted text; never hash-map iteration order or addresses")
    .assume("the constant result substituted for a nested call is that call's own fresh-thread outcome")
    .min_nontrivial(if tier == Tier::Quick { 5_000 } else { 100_000 });
    run.finish(fin);
}
